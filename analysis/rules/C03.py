"""C03 Victim order (DESIGN 4/C03)."""
import re
from .common import *
from ..cfg import enumerate_paths

EXPLANATION = (
    "Decides the structural clauses of the victim order for every tree, xattr assignment and kill "
    "outcome: the one comparator used by all five kill plugins compares (kill preference, key) "
    "tuples with the preference first, descending, and PREFER > NORMAL > AVOID as enum values; every "
    "rankForKilling override goes through it; readKillPreferenceAt returns AVOID only on paths where "
    "both prefer probes were evaluated false and PREFER on a prefer probe's true edge (path "
    "enumeration, 9 paths); the DFS descends only with recursive_ and not below memory.oom.group, "
    "skips unpopulated cgroups before any hook or kill, continues with the next candidate after a "
    "failed kill, pops the top of the stack and pushes ranked children in reverse (best on top).  "
    "The order produced by std::sort on concrete metric values (ties, NaN) is not decided.")
RULE_SUMMARY = "expression-tree rule on the comparator, enum values, path enumeration, guard dominance, order, fallback reachability"
NOT_DECIDED = ["outcome of std::sort on concrete metric values (ties, NaN)"]
ASSUMPTIONS = ["std::sort orders by the given comparator", "std::tuple compares lexicographically"]


def ranking_comparator(ctx):
    """sortDescWithKillPrefs orders by (preference, key) - shared by C03 (preference classes) and C09 (metric order inside a class)."""
    P = ctx.prog
    # ---- 2. the comparator
    n_cmp = 0
    for f in P.fns.values():
        if f.pq != "Oomd::OomdContext::sortDescWithKillPrefs":
            continue
        ctx.use(f)
        lams = P.lambdas_in(f)
        sorts = f.calls("std::sort", "std::stable_sort")
        if len(sorts) == 2 and len(lams) >= 2:
            # two-pass form: order by key, then bring the preference classes together - correct only if the second pass keeps the
            # key order inside a class, i.e. is a stable sort
            second = max(sorts, key=lambda i_: (f.nodes[i_].get("line", 0), f.nodes[i_].get("col", 0)))
            ctx.check(f.nodes[second].get("cname") == "stable_sort", "sortDesc-second-pass-stable", "call-site", f.loc(second),
                      "the pass that groups by preference is a stable sort (key order survives inside a preference class)",
                      "the ranking sorts by key and then sorts again by preference with %s, which is not stable: among equally preferred siblings the "
                      "metric order is lost (in practice for more than 16 candidates)" % f.nodes[second].get("cname"))
            n_cmp += 3
            continue
        ctx.check(len(sorts) == 1 and len(lams) >= 1, "sortDesc-uses-one-comparator", "anchor", f.loc(),
                  "one std::sort with one comparator", "expected one std::sort with a closure comparator")
        for l in lams:
            ctx.use(l)
            pa = [p["name"] for p in l.params]
            for r in returns(l):
                n_cmp += 1
                top = l.nodes[l.strip(l.nodes[r]["val"])]
                ok, why = False, "comparator is not a tuple comparison"
                # operator> / operator< on two make_tuple calls (C++20: rewritten through <=>)
                op, lhs, rhs = None, None, None
                if top["k"] == "bin" and top["op"] in (">", "<"):
                    op, lhs, rhs = top["op"], top["l"], top["r"]
                elif top["k"] == "call" and top.get("op") in (">", "<") and len(top.get("args", [])) == 2:
                    op, lhs, rhs = top["op"], top["args"][0], top["args"][1]
                if op:
                    L, R = l.nodes[l.strip(lhs)], l.nodes[l.strip(rhs)]
                    if L["k"] == "call" and R["k"] == "call" and L.get("cname") == "make_tuple" == R.get("cname") \
                            and len(L["args"]) == 2 == len(R["args"]):
                        l0, l1 = l.text(L["args"][0]), l.text(L["args"][1])
                        r0, r1 = l.text(R["args"][0]), l.text(R["args"][1])
                        pref = r"^%s\.get\(\)\.kill_preference\([^)]*\)\.value_or\(Oomd::KillPreference::NORMAL\)$"
                        first, second = (pa[0], pa[1]) if op == ">" else (pa[1], pa[0])
                        if not re.match(pref % re.escape(first), l0) or not re.match(pref % re.escape(second), r0):
                            why = "first tuple element is not the kill preference (NORMAL default) of the element being ranked higher: %s vs %s" % (l0, r0)
                        elif "kill_preference" in l1 or "kill_preference" in r1:
                            why = "metric key mentions the preference"
                        elif first + ".get()" not in l1 or second + ".get()" not in r1:
                            why = "keys are not computed from the respective elements: %s / %s" % (l1, r1)
                        else:
                            ok = True
                ctx.check(ok, "comparator:preference-dominates-metric", "expression-tree", l.loc(r),
                          "sorts descending by (preference, key) with the preference first", why)
    ctx.counters["comparator_instances"] = n_cmp
    ctx.floor("comparator_instances", 3, "instantiated sortDescWithKillPrefs comparators")



def has_xattr_probe(ctx):
    """Fs::hasxattrAt answers 'is the attribute present' - whatever its value (also an empty one): true whenever fgetxattr succeeded,
    false only for ENODATA / EOPNOTSUPP, an error otherwise."""
    P = ctx.prog
    f = ctx.fn1("Oomd::Fs::hasxattrAt")
    ctx.use(f)
    fl = Flow(P, f, cg=ctx.cg)
    FAILK = re.compile(r"^\((-1 == (\w+|(::)?fgetxattr\(.*\))|(\w+|(::)?fgetxattr\(.*\)) == -1|(\w+|(::)?fgetxattr\(.*\)) < 0)\)$")
    seen = set()
    for r in returns(f):
        t = ret_text(f, r)
        g = fl.guards(r)
        failed = any(p is True and FAILK.match(k) for k, p in g)
        succeeded = any(p is False and FAILK.match(k) for k, p in g)
        others = sorted(k for k, p in g if not FAILK.match(k))
        if t.endswith("(true)") or t == "true":
            seen.add("true")
            ctx.check(succeeded and not others, "hasxattr:true-iff-present", "return_table", f.loc(r),
                      "true is returned whenever fgetxattr succeeded", "true is returned under %s" % sorted(g, key=str))
        elif t.endswith("(false)") or t == "false":
            seen.add("false")
            ctx.check(failed and any(p is True and ("== 61" in k or "61 ==" in k) for k, p in g), "hasxattr:false-only-when-absent", "return_table", f.loc(r),
                      "false is returned only when fgetxattr failed with ENODATA / EOPNOTSUPP", "false is returned under %s" % sorted(g, key=str))
        elif "systemError" in t or "SYSTEM_ERROR" in t:
            seen.add("error")
            ctx.check(failed, "hasxattr:error-only-on-failure", "return_table", f.loc(r), "an error is returned only when fgetxattr failed", "error returned under %s" % sorted(g, key=str))
        else:
            seen.add("other")
            ctx.violation("hasxattr:true-iff-present", "return_table", f.loc(r),
                          "hasxattrAt returns '%s': the answer depends on more than the presence of the attribute (e.g. its size), so a cgroup tagged with an "
                          "empty value counts as untagged" % t[:60])
    ctx.check({"true", "false", "error"} <= seen, "hasxattr:three-outcomes", "return_table", f.loc(), "present / absent / error are distinguished", "outcomes are %s" % sorted(seen))


def kill_preference_reader(ctx):
    """prefer/avoid xattrs -> KillPreference (shared by C03 and C15)."""
    P = ctx.prog
    has_xattr_probe(ctx)
    # ---- 4. readKillPreferenceAt: prefer probed before avoid, prefer wins
    rk = ctx.fn1("Oomd::Fs::readKillPreferenceAt")
    table_form = False
    if loops(rk):
        # table-driven form: for (auto& [attr, pref] : TABLE) { probe(attr); if (found) return pref; }
        table_form = True
        entries = None
        for rf in rk.all("rangefor"):
            rng = rk.nodes[rk.strip(rk.nodes[rf]["range"])]
            if rng["k"] == "ref" and rng.get("decl"):
                _, v = rk.vardecl(rng["decl"])
                if v is not None and "init" in v:
                    il = rk.nodes[rk.strip(v["init"])]
                    if il["k"] == "initlist":
                        entries = [rk.text(x) for x in il.get("kids", [])]
        if not entries:
            ctx.broken("readKillPreferenceAt:shape", "path-enumeration", rk.loc(),
                       "readKillPreferenceAt contains a loop whose probe table could not be read")
        else:
            kinds = []
            for e_ in entries:
                m = re.search(r"kOomd(System|User)(Prefer|Avoid)XAttr.*KillPreference::(\w+)", e_)
                kinds.append((m.group(2).lower(), m.group(3)) if m else ("?", "?"))
            ok_tab = len(kinds) == 4 and all(k != "?" for k, _ in kinds) and \
                all((k == "prefer") == (r == "PREFER") and (k == "avoid") == (r == "AVOID") for k, r in kinds)
            first_avoid = next((i for i, (k, _) in enumerate(kinds) if k == "avoid"), len(kinds))
            order_ok = all(k != "prefer" for k, _ in kinds[first_avoid:])
            ctx.check(ok_tab and order_ok, "readKillPreferenceAt:prefer-before-avoid", "probe-table-order", rk.loc(),
                      "probe table lists both prefer attributes before any avoid attribute: " + str(kinds),
                      "probe table order lets an avoid mark win over a prefer mark (first match decides): " + str(kinds))
            # loop returns the entry's preference on the first found attribute, NORMAL afterwards
            fl_ = Flow(P, rk, cg=ctx.cg)
            probes_ = locals_receiving(rk, r"hasxattrAt\(")
            found_ = lambda g_: any(p_ is True and k_ in ["*" + n_ for n_ in probes_] + [n_ + ".value()" for n_ in probes_] for k_, p_ in g_)
            good = any(found_(fl_.guards(r)) and "NORMAL" not in ret_text(rk, r) and "SYSTEM_ERROR" not in ret_text(rk, r) and "error()" not in ret_text(rk, r) for r in returns(rk))
            ctx.check(good, "readKillPreferenceAt:first-match-returns", "return_table", rk.loc(),
                      "the first attribute found decides", "no return on the found edge inside the probe loop")
    try:
        paths, _ = enumerate_paths(P, rk, cg=ctx.cg) if not table_form else (None, None)
    except ValueError as ex:
        paths = None
        ctx.broken("readKillPreferenceAt-paths", "path-enumeration", rk.loc(), str(ex))
    if paths is not None:
        ctx.counters["readKillPreferenceAt_paths"] = len(paths)
        n_avoid = n_prefer = n_normal = 0
        bad = []
        for p in paths:
            probes = []      # [attr, outcome]
            retc = None
            for st in p:
                if st[0] == "node":
                    n = rk.nodes[st[1]]
                    if n["k"] == "call" and n.get("cname") == "hasxattrAt":
                        probes.append([rk.text(n["args"][1]), None])
                    elif n["k"] == "return":
                        t = rk.text(n.get("val", -1))
                        m = re.search(r"KillPreference::(\w+)", t)
                        retc = m.group(1) if m else "ERROR"
                elif st[0] == "edge" and st[1].startswith("*") and probes and probes[-1][1] is None:
                    probes[-1][1] = st[2]
            kinds = [("prefer" if "Prefer" in a else "avoid" if "Avoid" in a else "?", o) for a, o in probes]
            if retc == "AVOID":
                n_avoid += 1
                pf = [o for k, o in kinds if k == "prefer"]
                if len(pf) < 2 or any(o is not False for o in pf) or kinds[-1] != ("avoid", True):
                    bad.append("AVOID returned after " + str(kinds))
            elif retc == "PREFER":
                n_prefer += 1
                if not kinds or kinds[-1] != ("prefer", True) or any(k == "avoid" for k, _ in kinds):
                    bad.append("PREFER returned after " + str(kinds))
            elif retc == "NORMAL":
                n_normal += 1
                if len(kinds) != 4 or any(o is not False for _, o in kinds):
                    bad.append("NORMAL returned after " + str(kinds))
        ctx.check(not bad and n_avoid >= 2 and n_prefer >= 2 and n_normal >= 1,
                  "readKillPreferenceAt:prefer-before-avoid", "path-enumeration", rk.loc(),
                  "%d paths: AVOID only after both prefer probes were false, PREFER on a prefer probe's true edge, NORMAL after four false probes" % len(paths),
                  "; ".join(bad[:3]) or "expected returns not found (avoid=%d prefer=%d normal=%d)" % (n_avoid, n_prefer, n_normal))
    # probes use the 4 attribute names, through the held dir fd
    X = Expander(P, rk)
    attrs = sorted(X(rk.nodes[i]["args"][1]) for i in rk.calls("hasxattrAt"))
    if table_form:
        attrs = entries or []
    want = ["kOomdSystemAvoidXAttr", "kOomdSystemPreferXAttr", "kOomdUserAvoidXAttr", "kOomdUserPreferXAttr"]
    ctx.check(len(attrs) == 4 and all(any(w in a for a in attrs) for w in want) and
              all(X(rk.nodes[i]["args"][0]) == "param:path" for i in rk.calls("hasxattrAt")) and bool(rk.calls("hasxattrAt")),
              "readKillPreferenceAt:probes", "provenance", rk.loc(),
              "probes trusted./user. prefer and avoid on the given dir fd", "probes are " + str(attrs))



def kernel_kill_counts_only_a_populated_victim(ctx, tag):
    """cgroup.kill is written - and the placeholder count of 1 reported - only for a victim that a FRESH read of cgroup.events, made in
    this call on the victim's held descriptor, showed populated.  A write to cgroup.kill always succeeds; the fresh read is the only
    thing that can say 'nothing was signalled' in kernel-kill mode, which is what makes the plugin fall back to the next-best victim.
    (The per-tick memoised CgroupContext::is_populated() was sampled when the walk ranked the candidates.)"""
    P, cg = ctx.prog, ctx.cg
    tkc = ctx.use(ctx.fn1("Oomd::BaseKillPlugin::tryToKillCgroup"))
    wk = tkc.calls("Fs::writeKillAt")
    ctx.counters[tag + "_cgroup_kill_writes"] = len(wk)
    ctx.floor(tag + "_cgroup_kill_writes", 1, "cgroup.kill writes in tryToKillCgroup")
    fresh = locals_receiving(tkc, r"Fs::readIsPopulatedAt\(")
    fl = Flow(P, tkc, cg=cg)
    X = Expander(P, tkc)
    for i in wk:
        g = fl.guards(i)
        ok = False
        for nm in fresh:
            init, v = local_init(tkc, nm, must=False)
            if v is None or init is None or init < 0 or not re.match(r"^Oomd::Fs::readIsPopulatedAt\(param:\w+\.fd\(\)\)$", X(init)):
                continue
            if any(isinstance(k, str) and p is True and re.match(r"^(\*%s|%s\.value\(\)|\*?%s\.operator\*\(\))$" % ((re.escape(nm),) * 3), k) for k, p in g):
                ok = True
        ctx.check(ok, "%s:kernel-kill-counts-only-a-populated-victim@%d" % (tag, tkc.nodes[i].get("line", 0)), "guarded_by + provenance (fresh read)", tkc.loc(i),
                  "cgroup.kill is written only after a fresh cgroup.events read of the victim said 'populated'",
                  "the write to cgroup.kill at line %d is not dominated by 'populated' from Fs::readIsPopulatedAt(target.fd()) read in this call (a memoised "
                  "per-tick value, or no test at all): a victim that emptied since it was ranked is reported as killed (placeholder count 1) - counters, "
                  "post-action delay and STOP for a kill that signalled nothing, and no fall-back to the next-best cgroup" % tkc.nodes[i].get("line", 0),
                  witness_path(tkc, fl, i))


def run(ctx):
    from .C17 import kill_count_is_successful_signals
    kill_count_is_successful_signals(ctx)
    from .C01 import children_are_direct
    children_are_direct(ctx)
    kernel_kill_counts_only_a_populated_victim(ctx, "C03")
    # a kill that failed is seen to have failed (else there is no falling back to the next candidate)
    failure_tests_see_the_sign(ctx, "C03", ["Oomd::BaseKillPlugin::tryToKillCgroup", "Oomd::BaseKillPlugin::tryToKillPids"])
    # locals / parameters the rules below refer to by name (a rename makes the analysis 'broken', never a violation)
    ctx.anchor(ctx.fn1('Oomd::BaseKillPlugin::resumeTryingToKillSomething'), 'candidate', 'nextBestOptionStack', 'sorted')
    ctx.anchor(ctx.fn1('Oomd::BaseKillPlugin::tryToKillSomething'), 'sorted', 'nextBestOptionStack')
    ctx.anchor(ctx.fn1('Oomd::Fs::readKillPreferenceAt'), 'path')
    P = ctx.prog
    # ---- 1. enum order
    e = P.enums.get("Oomd::KillPreference")
    if not e:
        ctx.broken("enum", "anchor", "-", "enum Oomd::KillPreference not found")
    else:
        v = {c["name"]: c["val"] for c in e["consts"]}
        ctx.check(v.get("PREFER", 0) > v.get("NORMAL", 0) > v.get("AVOID", 0) and len(v) == 3,
                  "enum-order:KillPreference", "enum-values", "oomd/include/Types.h",
                  "PREFER > NORMAL > AVOID", "KillPreference values are %s" % v)

    ranking_comparator(ctx)

    # ---- 3. all rank overrides go through it
    ranks = [f for f in P.fns.values() if f.name == "rankForKilling"]
    ctx.counters["rank_overrides"] = len(ranks)
    ctx.floor("rank_overrides", 5, "rankForKilling overrides")
    for f in ranks:
        ctx.use(f)
        for r in returns(f):
            t = f.text(f.nodes[r]["val"]) if "val" in f.nodes[r] else ""
            ctx.check(t.startswith("Oomd::OomdContext::sortDescWithKillPrefs("), "rank-via-sortDesc:" + short(f),
                      "sibling_agreement", f.loc(r), "ranks through sortDescWithKillPrefs",
                      "ranking does not go through sortDescWithKillPrefs: " + t[:100])

    kill_preference_reader(ctx)
    # the marks are read afresh on every tick (the cached preference does not survive CgroupContext::refresh)
    from .C15 import refresh_keeps_nothing
    refresh_keeps_nothing(ctx)

    # ---- 5. DFS in resumeTryingToKillSomething
    rts = ctx.fn1("Oomd::BaseKillPlugin::resumeTryingToKillSomething")
    fl = Flow(P, rts, cg=ctx.cg)
    desc = rts.calls("addChildrenToCacheAndGet")
    ctx.count("descend_sites", len(desc))
    ctx.floor("descend_sites", 1, "addChildrenToCacheAndGet in the DFS")
    for i in desc:
        g = fl.guards(i)
        ctx.check(has_fact(g, True, "this->recursive_"), "descend:only-if-recursive", "guarded_by", rts.loc(i),
                  "descends only with recursive targeting", "descends without recursive_", witness_path(rts, fl, i))
        ctx.check(has_fact(g, False, "candidate.cgroupCtx.get().oom_group(", "value_or(false)"), "descend:not-below-oom-group", "guarded_by",
                  rts.loc(i), "never descends below memory.oom.group=1",
                  "can descend below a cgroup with memory.oom.group=1", witness_path(rts, fl, i))
        X2 = Expander(P, rts)
        ctx.check(X2(rts.nodes[i]["args"][0]) == "param:nextBestOptionStack.back().cgroupCtx.get()",
                  "descend:into-the-popped-candidate", "provenance", rts.loc(i),
                  "children listed are those of the popped candidate", "children of " + X2(rts.nodes[i]["args"][0]))
    # oom_group test concerns the same candidate
    kills = rts.calls("tryToLogAndKillCgroup")
    hooks = rts.calls("firePrekillHook")
    ctx.count("kill_sites", len(kills))
    ctx.floor("kill_sites", 1, "tryToLogAndKillCgroup in the DFS")
    for i in kills + hooks:
        g = fl.guards(i)
        ctx.check(has_fact(g, True, "candidate.cgroupCtx.get().is_populated(", "value_or(true)"), "skip-unpopulated:" + rts.nodes[i]["cname"],
                  "guarded_by", rts.loc(i), "unpopulated cgroups are skipped",
                  "an unpopulated cgroup can be " + ("killed" if i in kills else "handed to a prekill hook"),
                  witness_path(rts, fl, i))
    # fallback after a failed kill: next candidate, not a return
    ls = [l for l in loops(rts) if l["stmt"] is not None and rts.nodes[l["stmt"]]["k"] == "while"
          and "nextBestOptionStack" in rts.text(rts.nodes[l["stmt"]]["c"])]
    if len(ls) > 1 and kills:
        # several loops mention the stack: the DFS is the one that contains the kill site(s)
        ls = [l for l in ls if all(rts.pos_of(k)[0] in l["body"] for k in kills)]
        ls = [l for l in ls if not any(o is not l and o["body"] < l["body"] and all(rts.pos_of(k)[0] in o["body"] for k in kills) for o in ls)]
    if len(ls) != 1:
        ctx.broken("dfs-loop", "anchor", rts.loc(), "expected one while(!nextBestOptionStack.empty()) loop")
    else:
        L = ls[0]
        fi = iter_flow(ctx, rts, L, {}, edge_tokens=lambda k, p: ["failed"] if ("tryToLogAndKillCgroup(" in k and p is False) else None)
        reach = any(any("failed" in st.may for st in (fi.OUT.get(b) or {}).values()) for b in back_sources(L))
        left = [e for e in fi.exits() if any("failed" in st.may for st in e[3].values())]
        ctx.check(reach and not left, "fallback-to-next-candidate", "reachability", rts.loc(kills[0]) if kills else rts.loc(),
                  "a failed kill continues with the next-best candidate",
                  "after a failed kill the function %s" % ("returns instead of trying the next candidate" if left else "cannot reach the next iteration"))
        ctx.check("empty()" in rts.text(rts.nodes[L["stmt"]]["c"]), "dfs-until-stack-empty", "loop-shape", rts.loc(L["stmt"]),
                  "candidates are tried until the stack is empty", "loop condition is " + rts.text(rts.nodes[L["stmt"]]["c"]))
        # take the top: candidate = back(); pop_back() before anything else
        init, v = local_init(rts, "candidate")
        ctx.check(v is not None and rts.text(init) == "nextBestOptionStack.back()", "take-top-of-stack", "provenance",
                  rts.loc(), "the candidate is the top of the stack", "candidate is " + (rts.text(init) if v else "?"))
        pops = [i for i in rts.calls("pop_back") if "nextBestOptionStack" in rts.text(rts.nodes[i].get("recv", -1))]
        # pops inside a nested loop of their own (e.g. draining the stack when the cycle is parked) are not the per-iteration pop
        inner_loops = [l for l in loops(rts) if l is not L and l["body"] < L["body"]]
        pops = [i for i in pops if not any(rts.pos_of(i)[0] in l["body"] for l in inner_loops)]
        per_iter_once(ctx, rts, L, pops, "pop-once-per-iteration", "nextBestOptionStack.pop_back()")
        # a skipped (unpopulated / descended) candidate is not retried: pop precedes every continue
        # ranked children are pushed in reverse: reverse() precedes the push loop
    for f in (rts, ctx.fn1("Oomd::BaseKillPlugin::tryToKillSomething")):
        X3 = Expander(P, f)
        revs = [i for i in f.calls("reverse") if len(f.nodes[i]["args"]) == 2]
        pushes = [i for i in f.calls("emplace_back") if "nextBestOptionStack" in f.text(f.nodes[i].get("recv", -1))
                  and "rankForKilling" in X3(f.nodes[i]["args"][0])]
        ctx.count("push_sites", len(pushes))
        ev = {i: [("set", "reversed")] for i in revs}
        fr = Flow(P, f, events=ev, cg=ctx.cg)
        for i in pushes:
            ctx.check(fr.must(i, "reversed"), "best-on-top:" + short(f), "order", f.loc(i),
                      "ranked siblings are reversed before being pushed (best on top)",
                      "ranked siblings are pushed without reversing: the worst-ranked is tried first")
        for i in revs:
            a = [f.text(x) for x in f.nodes[i]["args"]]
            ctx.check(a[0].endswith("begin()") and a[1].endswith("end()") and a[0].split("begin")[0] == a[1].split("end")[0],
                      "reverse-whole-vector:" + short(f), "value-shape", f.loc(i), "the whole ranked vector is reversed",
                      "reverse range is %s" % a)
        # the push loop walks the reversed vector forward
        for l in loop_over(f, "sorted"):
            ctx.check(forward_iteration(f, l), "push-loop-forward:" + short(f), "loop-shape", f.loc(l["stmt"]),
                      "pushes in vector order", "push loop is not a forward traversal")
    ctx.floor("push_sites", 2, "candidate push sites")
    # a victim is killed as a unit: getAndTryToKillPids always goes on into every child cgroup (that is what keeps a
    # memory.oom.group subtree whole - the DFS stops above it, the kill does not)
    gk = ctx.fn1("Oomd::BaseKillPlugin::getAndTryToKillPids")
    own = gk.calls("tryToKillPids")
    chq = [i for i in gk.calls("children") if "target" in gk.text(gk.nodes[i].get("recv", -1))]
    rec = gk.calls("getAndTryToKillPids")
    ctx.counters["subtree_kill_sites"] = len(own) + len(chq) + len(rec)
    ctx.floor("subtree_kill_sites", 3, "own-pid kill, children() and recursion in getAndTryToKillPids")
    ev_ = {i: [("set", "own-signalled")] for i in own}
    ev_.update({i: [("set", "descended")] for i in chq})
    fgk = Flow(P, gk, events=ev_, cg=ctx.cg)
    badr = []
    for kind, node, b, parts in fgk.exits():
        if kind not in ("return", "fallthrough"):
            continue
        for st in parts.values():
            if "own-signalled" in st.may and "descended" not in st.must:
                badr.append(gk.loc(node) if node is not None else kind)
    if not chq:
        ctx.broken("subtree-killed-as-a-unit:always-descends", "anchor", gk.loc(), "getAndTryToKillPids no longer asks for target.children() itself (moved into a helper?): the descent cannot be followed")
    else:
      ctx.check(bool(chq) and not badr, "subtree-killed-as-a-unit:always-descends", "must_follow", badr[0] if badr else gk.loc(),
              "after the victim's own processes the kill always continues into its children",
              "getAndTryToKillPids can return (%s) after signalling the cgroup's own processes without looking at its children: a memory.oom.group "
              "cgroup whose processes live in child cgroups is not killed as a unit (and, with nothing signalled, oomd falls back to a worse-ranked "
              "victim)" % ", ".join(sorted(set(badr))))
    for i in chq:
        cfg = sorted(k for k, p in fgk.guards(i) if "this->" in k)
        ctx.check(not cfg, "subtree-killed-as-a-unit:unconditional", "guarded_by", gk.loc(i), "the descent does not depend on the plugin's configuration",
                  "the descent into the children is conditioned on %s" % cfg)
    lk = [l for l in loops(gk) if l["stmt"] is not None and gk.nodes[l["stmt"]]["k"] == "rangefor" and any(gk.pos_of(i)[0] in l["body"] for i in rec)]
    if len(lk) == 1:
        no_early_exit(ctx, gk, lk[0], "subtree-killed-as-a-unit:every-child", "children")
        fch = iter_flow(ctx, gk, lk[0], {i: [("set", "recursed")] for i in rec}, edge_tokens=lambda k, p: ["child-open"] if (k.startswith("childCtx") and p is True) else None)
        okc = True
        for b in back_sources(lk[0]):
            for st in (fch.OUT.get(b) or {}).values():
                if "child-open" in st.may and "child-open" in st.must and "recursed" not in st.must:
                    okc = False
        ctx.check(okc, "subtree-killed-as-a-unit:recurse-into-each-open-child", "must_follow", gk.loc(rec[0]) if rec else gk.loc(), "every child that could be opened is killed recursively",
                  "a child context that was obtained is not killed")
    else:
        ctx.broken("subtree-killed-as-a-unit:every-child", "anchor", gk.loc(), "expected one range-for over the children that recurses")
    # the fallback stack survives a deferred prekill hook in the same order: saved bottom-to-top, restored bottom-to-top
    rfh = ctx.fn1("Oomd::BaseKillPlugin::resumeFromPrekillHook")
    n_sr = 0
    for f, what, recv_pat, src_pat in ((rts, "save", r"prekillHookState_.*nextBestOptionStack$", r"nextBestOptionStack"),
                                       (rfh, "restore", r"^nextBestOptionStack$", r"serializedNextBestOptionStack|prekillHookState_.*nextBestOptionStack")):
        Xf = Expander(P, f)
        for i in f.calls("emplace_back", "push_back", "insert", "emplace", "push_front", "emplace_front"):
            recv = f.text(f.nodes[i].get("recv", -1)).replace("this->", "").replace("->", ".")
            if not re.search(recv_pat, recv):
                continue
            lp = [l for l in loops(f) if l["stmt"] is not None and f.pos_of(i)[0] in l["body"]]
            lp = sorted(lp, key=lambda l: len(l["body"]))
            if what == "save" and ls and lp and lp[0] is ls[0]:
                lp = []       # not inside a traversal of its own: judged below
            if what == "restore" and "rankForKilling" in Xf(f.nodes[i]["args"][0]):
                continue
            n_sr += 1
            inner = lp[0] if lp else None
            hdr = loop_header(f, inner) if inner else ""
            fwd = inner is not None and forward_iteration(f, inner) and re.search(src_pat, hdr.replace("this->", "").replace("->", ".")) is not None
            back = f.nodes[i]["cname"] in ("emplace_back", "push_back")
            ctx.check(fwd and back, "fallback-stack-%s-keeps-order:%s" % (what, short(f)), "loop-shape", f.loc(i),
                      "the fallback stack is %sd by a front-to-back traversal appending at the back (top of the stack stays last)" % what,
                      "the fallback stack is not %sd bottom-to-top (%s; %s): after a deferred prekill hook the remaining candidates are tried in a "
                      "different order than without the hook" % (what, "traversal: " + (hdr or "none"), f.nodes[i]["cname"]))
    ctx.counters["stack_save_restore_sites"] = n_sr
    ctx.floor("stack_save_restore_sites", 2, "save and restore of the fallback stack around a deferred prekill hook")
