"""C13 Drop-in override semantics (DESIGN 4/C13)."""
import re
from .common import *

EXPLANATION = (
    "Decides the pairing and ordering pre-conditions of the drop-in semantics on the CFGs of "
    "Engine::{addDropInConfig,addDropInRuleset,removeDropInConfig,runOnce,prerun}, "
    "Ruleset::{mergeWithDropIn,markDropInTargeted,markDropInUntargeted}, Config2::compileDropIn and "
    "DropInServiceAdaptor::updateDropIns: a successful add is exactly emplace_front + markTargeted + "
    "stat(+1) and a refused add performs none of them; removal erases by tag, untargets the base "
    "once per erased drop-in and subtracts the same count from the stat, and drops the tag's hooks; a "
    "partially added unit is removed before reporting failure; hooks are added only after every "
    "ruleset; merge moves a part only under its permission flag; the target is a fresh compile of the "
    "base; unknown target / refused merge yield nullopt; update removes the tag before re-adding "
    "it; drop-ins are evaluated front to back before their base.  Reversibility as an equality of "
    "engine states over all operation sequences is algebraic and not decided.")
RULE_SUMMARY = "E-PATH order, pairing (must-follow / never-on-failure), guard dominance, loop bound agreement"
NOT_DECIDED = ["equality of engine states over all add/remove sequences (reversibility as an equation)"]
ASSUMPTIONS = ["std::deque::emplace_front / std::remove_if / erase behave per the standard"]


def handoff_queue_fifo(ctx):
    """Shared by C13 (LIFO order of drop-ins) and C14 (convergence to the files present)."""
    P = ctx.prog
    # the hand-off queue is a FIFO of requests: producers only append, nobody rewrites or removes a pending entry
    from ..lockset import alias_write_nodes
    QF = "Oomd::DropInServiceAdaptor::drop_in_queue_"
    APPEND = {"emplace_back", "push_back"}
    WHOLE = {"operator=", "clear", "swap", "size", "empty", "begin", "end", "cbegin", "cend", "rbegin", "rend", "crbegin", "crend", "front", "back", "reserve"}
    n_q = 0
    for f in P.fns.values():
        for i, n in enumerate(f.nodes):
            if n["k"] == "call" and "recv" in n and f.pos_of(i) is not None:
                r = f.nodes[f.strip(n["recv"])]
                if r["k"] == "member" and r.get("qname") == QF:
                    n_q += 1
                    nm = n.get("cname") or ""
                    ctx.check(nm in APPEND or nm in WHOLE or n.get("op") == "=", "queue-is-fifo:%s@%s" % (short(f), nm), "who-may-write (append only)", f.loc(i),
                              "%s on the hand-off queue keeps arrival order" % nm,
                              "%s on the hand-off queue is not an append: requests are no longer applied in the order they were made" % nm)
        for i in alias_write_nodes(f, QF):
            n_q += 1
            ctx.violation("queue-is-fifo:%s@in-place-write" % short(f), "who-may-write (append only, iterator aliases)", f.loc(i),
                          "a pending entry of the hand-off queue is rewritten in place: the newer request keeps the position of the older one, so a "
                          "re-added tag is no longer moved to the front (LIFO order of drop-ins) when another tag was queued in between")
    ctx.counters["queue_operations"] = n_q
    ctx.floor("queue_operations", 2, "operations on drop_in_queue_ (the two producers' appends)")
    # ... and every request is queued: the two producers append on every path.  "A remove for this tag is already pending, skip this one"
    # looks idempotent but is not: remove T, add T, remove T within one interval ends with T still injected.
    for q in ("Oomd::DropInServiceAdaptor::scheduleDropInAdd", "Oomd::DropInServiceAdaptor::scheduleDropInRemove"):
        f = ctx.use(ctx.fn1(q))
        app = [i for i in f.calls(*APPEND) if "recv" in f.nodes[i] and f.nodes[f.strip(f.nodes[i]["recv"])].get("qname") == QF and f.pos_of(i) is not None]
        if not app:
            ctx.broken("every-request-is-queued:" + short(f), "anchor", f.loc(), "no append to the hand-off queue in %s itself" % f.pq)
            continue
        fl = Flow(P, f, events={i: [("set", "queued")] for i in app}, cg=ctx.cg)
        # (scheduleDropInAdd refuses a drop-in that does not compile: `return false` is the one exit that queues nothing)
        bad = [f.loc(node) if node is not None else "end of function" for kind, node, b, parts in fl.exits()
               if kind in ("return", "fallthrough") and not all("queued" in st.must for st in parts.values())
               and not (kind == "return" and node is not None and ret_text(f, node) == "false")]
        ctx.check(not bad, "every-request-is-queued:" + short(f), "must_pass_through", f.loc(),
                  "%s appends its request on every path" % short(f),
                  "%s can return (at %s) without having queued the request: the sequence of adds and removes the main loop applies is no longer the sequence the "
                  "watcher saw, so the set of active drop-ins does not converge to the files present" % (f.pq, ", ".join(bad)))


def tagged_dropins_all_erased(ctx):
    """Shared by C13 and C14: Engine::removeDropInConfig erases EVERY drop-in ruleset that carries the tag from each base - a range erase
    after remove_if, erase_if, or an erase loop.  One drop-in file can hold several rulesets that target the same base (compileDropIn emits
    one per entry), so a single-element erase leaves the others active after the file was deleted or rewritten."""
    P = ctx.prog
    rm = ctx.fn1("Oomd::Engine::Engine::removeDropInConfig")
    outer = loop_over(rm, "rulesets_")
    if len(outer) != 1:
        ctx.broken("remove:every-tagged-drop-in-erased", "anchor", rm.loc(), "expected one loop over rulesets_ in removeDropInConfig")
        return
    O = outer[0]
    Xr = Expander(P, rm)
    er = [i for i in rm.calls("erase") if "dropins" in rm.text(rm.nodes[i].get("recv", -1))]
    ei = [i for i in rm.calls("erase_if", "std::erase_if") if rm.nodes[i].get("args") and "dropins" in rm.text(rm.nodes[i]["args"][0])]
    if not er and not ei:
        ctx.broken("remove:every-tagged-drop-in-erased", "anchor", rm.loc(), "no erase on a base's drop-in list found in removeDropInConfig")
        return
    for i in ei:
        ctx.ok("remove:every-tagged-drop-in-erased", "value-shape", rm.loc(i), "erase_if removes every drop-in carrying the tag")
    for i in er:
        a = rm.nodes[i].get("args", [])
        inner = [l for l in loops(rm) if rm.pos_of(i) is not None and rm.pos_of(i)[0] in l["body"] and l["stmt"] != O["stmt"]]
        if len(a) >= 2:
            ctx.ok("remove:every-tagged-drop-in-erased", "value-shape", rm.loc(i), "a range of drop-ins is erased (its bounds are judged by remove:erase-tagged-range)")
        else:
            ctx.check(bool(inner), "remove:every-tagged-drop-in-erased", "value-shape", rm.loc(i),
                      "single-element erase inside a loop over the base's drop-ins",
                      "removeDropInConfig erases ONE drop-in (%s) per base: a drop-in file with several rulesets for the same base keeps all but the first "
                      "active after it was deleted, and every rewrite leaves a stale copy behind" % Xr(a[0])[:100] if a else "?")


def merge_writes_only_overridable_parts(ctx):
    """Shared by C05, C07, C12 and C13: a drop-in overrides the detector groups and / or the action group of its target and nothing
    else.  Ruleset::mergeWithDropIn writes no other member: the merged ruleset keeps the base's name, cgroup, xattr filter, log
    silencing, post_action_delay and prekill_hook_timeout (the drop-in object was compiled with DEFAULTS for every setting its file does
    not repeat, so copying one of them silently replaces what the base configured)."""
    from ..callgraph import node_writes
    P = ctx.prog
    mg = ctx.fn1("Oomd::Engine::Ruleset::mergeWithDropIn")
    OVERRIDABLE = ("Oomd::Engine::Ruleset::detector_groups_", "Oomd::Engine::Ruleset::action_group_")
    other = []
    n = 0
    for i, nn in enumerate(mg.nodes):
        if mg.pos_of(i) is None or nn["k"] not in ("bin", "call", "un"):
            continue
        if not (nn.get("op") in ("=", "+=", "-=", "|=", "&=", "++", "--") or nn.get("cname") in ("swap", "reset", "clear", "assign", "emplace", "push_back", "emplace_back")):
            continue
        for t in node_writes(mg, i):
            if t.startswith("F:Oomd::Engine::Ruleset::"):
                n += 1
                # only writes to THIS ruleset's members count (the drop-in object is consumed)
                tgt = nn.get("l", nn.get("recv", -1))
                tt = mg.text(tgt) if isinstance(tgt, int) and tgt >= 0 else ""
                if tt.startswith("ruleset") or "ruleset->" in tt.split("=")[0]:
                    continue
                if t[2:] not in OVERRIDABLE:
                    other.append((i, t[2:].split("::")[-1]))
    ctx.counters["merge_member_writes"] = n
    ctx.check(not other, "merge:writes-only-overridable-parts", "who-may-write (field set)", mg.loc(other[0][0]) if other else mg.loc(),
              "mergeWithDropIn writes detector_groups_ / action_group_ only",
              "mergeWithDropIn also writes %s: the drop-in ruleset object carries the compiler's default for every setting its file does not repeat, "
              "so the value the base ruleset was configured with is silently replaced" % ", ".join(sorted({x for _, x in other})))


def dropins_leave_only_through_remove(ctx):
    """A drop-in ruleset leaves a base's list only in Engine::removeDropInConfig, where every erased entry is also un-targeted and
    un-counted.  Any other erase / pop / clear of a `dropins` list (a 'defensive' replacement of a same-tag entry on add, a trim, ...)
    drops an entry without the paired markDropInUntargeted() and stat decrement: the base stays disabled after the tag is removed and
    oomd.dropin.added drifts."""
    P = ctx.prog
    SHRINK = ("erase", "pop_back", "pop_front", "clear", "resize", "remove_if", "erase_if", "assign", "swap")
    n = 0
    for f in sorted(P.fns.values(), key=lambda x: x.usr):
        if not f.file.startswith("oomd/engine/") or f.file.endswith("Test.cpp"):
            continue
        owner = f
        while owner.kind == "lambda" and owner.d.get("parentfn") in P.fns:
            owner = P.fns[owner.d["parentfn"]]
        for i in f.calls():
            nd = f.nodes[i]
            nm = nd.get("cname") or ""
            if nm not in SHRINK:
                continue
            tgt = f.text(nd["recv"]) if "recv" in nd else (f.text(nd["args"][0]) if nd.get("args") else "")
            if not re.search(r"(\.|->)dropins$", tgt.rstrip(")")) and not re.search(r"(\.|->)dropins\b", tgt):
                continue
            if nm == "remove_if" and "recv" not in nd:
                continue        # std::remove_if only reorders; the erase that follows is what shrinks the list
            n += 1
            ctx.use(f)
            ctx.check(owner.pq == "Oomd::Engine::Engine::removeDropInConfig", "dropins-leave-only-through-remove:%s@%s" % (short(owner), nm), "who-may-write (shrinking operations)", f.loc(i),
                      "drop-ins are erased in removeDropInConfig only (with their untarget and stat decrement)",
                      "%s shrinks a base's drop-in list with %s(): the entry goes without markDropInUntargeted() and without the oomd.dropin.added decrement - "
                      "after the tag is removed a disable-on-drop-in base stays disabled and the count stays too high" % (owner.pq, nm))
    ctx.counters["dropins_shrink_sites"] = n
    ctx.floor("dropins_shrink_sites", 1, "erase of drop-in entries (removeDropInConfig)")


def dropin_unit_holds_merged_targets(ctx):
    """Shared by C12 and C13: every ruleset Config2::compileDropIn puts into the unit is a copy of the BASE ruleset (compiled from the base
    IR, so it carries the base's cgroup, xattr filter, log silencing, post_action_delay and prekill_hook_timeout) into which the drop-in
    was merged.  A ruleset compiled from the drop-in's IR alone has the defaults for every setting the drop-in file does not repeat."""
    P = ctx.prog
    cd = ctx.fn1("Oomd::Config2::compileDropIn")
    pushes = [i for i in cd.calls("emplace_back", "push_back") if re.search(r"(\.|->)rulesets$", cd.text(cd.nodes[i].get("recv", -1)))]
    ctx.counters["dropin_unit_pushes"] = len(pushes)
    ctx.floor("dropin_unit_pushes", 1, "insertion into the unit's rulesets in compileDropIn")
    mg = cd.calls("Ruleset::mergeWithDropIn")
    X = Expander(P, cd)
    for i in pushes:
        a0 = cd.nodes[i]["args"][0] if cd.nodes[i].get("args") else None
        rr = cd.root_ref(a0) if a0 is not None else None
        name = cd.nodes[rr].get("name") if rr is not None and rr >= 0 and cd.nodes[rr]["k"] == "ref" else None
        recv_ok = [m for m in mg if name and cd.nodes[cd.root_ref(cd.nodes[m]["recv"])].get("name") == name]
        fl = Flow(P, cd, events={m: [("set", "merged")] for m in recv_ok}, cg=ctx.cg)
        init, v = local_init(cd, name, must=False) if name else (None, None)
        from_base = v is not None and init is not None and init >= 0 and "compileRuleset(" in X(init) and "param:root" in X(init) or \
            any("compileRuleset(" in X(write_rhs(cd, w)) and "param:root" in X(write_rhs(cd, w)) for w in local_writes(cd, name, must=False)) if name else False
        ctx.check(bool(recv_ok) and fl.must(i, "merged") and from_base, "dropin:unit-holds-merged-base-copies", "provenance + must_precede", cd.loc(i),
                  "what enters the unit is a compile of the base ruleset into which the drop-in was merged",
                  "compileDropIn puts '%s' into the unit without it being a copy of the base ruleset that went through mergeWithDropIn(): the ruleset "
                  "runs with the compiler's defaults for every ruleset-level setting the drop-in file does not repeat (post_action_delay 15 s, "
                  "prekill_hook_timeout 5 s, no cgroup / xattr filter / log silencing)" % (cd.text(a0)[:60] if a0 is not None else "?"))



def update_removes_then_adds(ctx):
    """DropInServiceAdaptor::updateDropIns: every queued entry first removes its tag from the engine (rulesets, targeting, counter AND the
    tag's prekill hooks), then - only for entries carrying a unit - adds the new content under the same tag; entries in arrival order.
    (Shared by C07: addDropInConfig only appends hooks, so without the removal a rewritten drop-in leaves its old hooks in front.)"""
    P = ctx.prog
    # ------------------------------------------------ updateDropIns
    up = ctx.fn1("Oomd::DropInServiceAdaptor::updateDropIns")
    rmv_ = up.calls("Engine::removeDropInConfig")
    ls = [l for l in loops(up) if l["stmt"] is not None and up.nodes[l["stmt"]]["k"] in ("rangefor", "for") and
          any(up.pos_of(i)[0] in l["body"] or l["stmt"] in list(up.ancestors(i)) for i in rmv_)]
    if len(ls) != 1:
        ctx.broken("update:loop", "anchor", up.loc(), "expected one loop over the drained queue")
    else:
        L = ls[0]
        rmv = up.calls("Engine::removeDropInConfig")
        addc = up.calls("Engine::addDropInConfig")
        per_iter_once(ctx, up, L, rmv, "update:remove-every-entry", "removeDropInConfig(tag)")
        no_early_exit(ctx, up, L, "update:every-entry", "the queue")
        fi = iter_flow(ctx, up, L, {i: [("set", "removed")] for i in rmv})
        for i in addc:
            ctx.check(fi.must(i, "removed"), "update:remove-before-add", "order", up.loc(i),
                      "a tag is removed before it is (re-)added", "addDropInConfig can run without the tag having been removed first")
            Xu = Expander(P, up)
            a0 = Xu(up.nodes[i]["args"][1]) if len(up.nodes[i].get("args", [])) > 1 else ""
            gk = [k for k, p in fi.guards(i) if p is True and not k.startswith("(")]
            ctx.check(has_fact(fi.guards(i), True, "unit") or any(re.search(r"\b%s\b" % re.escape(k.split(".")[0]), up.text(up.nodes[i]["args"][1])) for k in gk), "update:add-only-with-unit", "guarded_by", up.loc(i),
                      "add only for entries carrying a unit", "add attempted for a removal entry")
            a = [up.text(x) for x in up.nodes[i]["args"]]
            r0 = [up.text(x) for x in up.nodes[rmv[0]]["args"]] if rmv else ["?"]
            ctx.check(a[0] == r0[0], "update:same-tag", "provenance", up.loc(i), "removes and adds the same tag", "tags differ: %s / %s" % (r0[0], a[0]))
        ctx.check(forward_iteration(up, L), "update:queue-order", "loop-shape", up.loc(L["stmt"]), "queue entries are applied in arrival order", "queue not traversed forward")

def compile_keeps_nothing_between_calls(ctx, tag):
    """'Each drop-in is a fresh copy of the base', 'refused as a whole, leaving nothing behind': the functions of the config layer that turn
    a configuration into engine objects (everything under oomd/config/ reachable from compile / compileDropIn / parse) hold no state
    that outlives a call - no static or thread_local local.  A scratch list kept per thread carries what a refused compile had already
    built into the next ruleset compiled on that thread."""
    P, cg = ctx.prog, ctx.cg
    roots = [f.usr for q in ("Oomd::Config2::compile", "Oomd::Config2::compileDropIn", "Oomd::Config2::JsonConfigParser::parse") for f in P.fn(q)]
    scope_ = [P.fns[u] for u in cg.reach(roots) if P.fns[u].file.startswith("oomd/config/")]
    ctx.counters[tag + "_compile_scope_functions"] = len(scope_)
    ctx.floor(tag + "_compile_scope_functions", 5, "functions of the config layer reachable from compile / compileDropIn / parse")
    for f in sorted(scope_, key=lambda x: (x.file, x.line)):
        ctx.use(f)
        seen = set()
        for i, n in enumerate(f.nodes):
            if n.get("k") == "ref" and n.get("dk") == "static_local" and n["name"] not in seen:
                seen.add(n["name"])
                _, v = f.vardecl(n["decl"]) if n.get("decl") else (None, None)
                ty = (v or {}).get("type") or n.get("type") or ""
                if (v or {}).get("const") or ty.startswith("const ") or "constexpr" in ty:
                    continue
                ctx.violation("%s:compile-keeps-nothing-between-calls:%s:%s" % (tag, short(f), n["name"]), "storage_class (static / thread_local local in the compile scope)", f.loc(i),
                              "%s keeps the local '%s' (%s) alive between calls (static / thread_local): whatever a call that returned early - a refused ruleset or "
                              "drop-in - had put into it is still there for the next call, so the next ruleset compiled on that thread (the fresh copy of a drop-in's "
                              "base) carries plugins of the refused one" % (f.pq, n["name"], ty[:60]))
    ctx.ok(tag + ":compile-keeps-nothing-between-calls", "storage_class (static / thread_local local in the compile scope)", "-",
           "%d functions of the config layer: no mutable static / thread_local local" % len(scope_))



def compile_dropin_refuses_whole_unit(ctx):
    """Config2::compileDropIn: every ruleset of a drop-in file looks its base up by name afresh, is a fresh compile of the base IR merged with
    the compiled override, and ANY failure (unknown base, refused merge, failed compile) refuses the whole unit.  Shared by C12 (a
    configuration is honoured or rejected as a whole) and C14 (the active set is exactly the valid files)."""
    P = ctx.prog
    # ------------------------------------------------ compileDropIn
    cd = ctx.fn1("Oomd::Config2::compileDropIn")
    Xc = Expander(P, cd)
    # the per-drop-in "was a base found" state: the local written under the name-equality test inside the search over root.rulesets
    outer_l = [l for l in loops(cd) if l["stmt"] is not None and "dropin.rulesets" in loop_header(cd, l)]
    inner_l = [l for l in loops(cd) if l["stmt"] is not None and "root.rulesets" in loop_header(cd, l)]
    fv = None
    if len(outer_l) == 1 and len(inner_l) == 1:
        f0 = Flow(P, cd, cg=ctx.cg)
        cands = []
        for i, n in enumerate(cd.nodes):
            if n["k"] == "bin" and n.get("op") == "=" and cd.pos_of(i) is not None and inner_l[0]["stmt"] in list(cd.ancestors(i)):
                l_ = cd.nodes[cd.strip(n["l"])]
                if l_["k"] == "ref" and l_.get("dk") == "local" and any(p is True and ".name" in k and "==" in k for k, p in f0.guards(i)):
                    cands.append(l_)
        names = sorted({c["name"] for c in cands})
        if len(names) == 1:
            fv = names[0]
            d_, v_ = cd.vardecl(cands[0]["decl"])
            dpos = cd.pos_of(d_) if d_ is not None else None
            per_iter = d_ is not None and outer_l[0]["stmt"] in list(cd.ancestors(d_))
            if not per_iter:
                # declared outside: then it has to be reset at the top of every iteration, before the search
                resets = [w for w in local_writes(cd, fv, must=False) if cd.pos_of(w) is not None and outer_l[0]["stmt"] in list(cd.ancestors(w)) and inner_l[0]["stmt"] not in list(cd.ancestors(w))]
                fr_ = iter_flow(ctx, cd, outer_l[0], {w: [("set", "reset")] for w in resets})
                per_iter = bool(resets) and all(fr_.must(cd.nodes[inner_l[0]["stmt"]].get("range", inner_l[0]["stmt"]), "reset") for _ in [0]) if resets else False
            ctx.check(per_iter, "dropin:target-lookup-is-per-ruleset", "scope / per-iteration reset", cd.loc(d_) if d_ is not None else cd.loc(),
                      "the 'base found' state (%s) starts afresh for every ruleset of the drop-in" % fv,
                      "the 'base found' state (%s) lives across the iterations over the drop-in's rulesets and is not reset: a ruleset whose target does not "
                      "exist inherits the base found for the previous one, so a file naming an unknown ruleset is accepted and merged onto the wrong base" % fv)
    # the search spelled std::find_if over root.rulesets: the iterator IS the 'base found' state, and it is per ruleset when the search
    # is made inside the walk over the drop-in's rulesets
    sws = [w for w in search_walks(cd) if w["dir"] == "forward" and w["container"].endswith("root.rulesets")]
    if fv is None and len(sws) == 1 and len(outer_l) == 1:
        sw = sws[0]
        fv = sw["var"]
        lam_ = P.closure_fn(sw["pred"]) if sw.get("pred") else None
        byname = lam_ is not None and any(".name" in ret_text(lam_, r_) and "==" in ret_text(lam_, r_) for r_ in returns(lam_))
        ctx.check(outer_l[0]["stmt"] in list(cd.ancestors(sw["call"])) and byname, "dropin:target-lookup-is-per-ruleset", "scope / per-iteration reset", cd.loc(sw["call"]),
                  "the base is searched by name (std::find_if) afresh for every ruleset of the drop-in",
                  "the search for the base is not made per ruleset of the drop-in, or not by name")
    if fv is None:
        ctx.broken("dropin:target-lookup-is-per-ruleset", "anchor", cd.loc(), "cannot identify the 'base found' state of the target search in compileDropIn")
        fv = "?"
    fc = Flow(P, cd, cg=ctx.cg, edge_tokens=lambda k, p: ["merge-refused"] if ("mergeWithDropIn(" in k and p is False) else (
        ["compile-failed"] if (k in ("target", "compiled_drop", "compiled_prekill_hook_plugin") and p is False) else (
            ["no-target"] if (k in (fv, "(%s != nullptr)" % fv, "(nullptr != %s)" % fv) and p is False) or (k in ("(%s == nullptr)" % fv, "(nullptr == %s)" % fv) and p is True)
            or (re.match(r"^\((%s == .*\.c?end\(\)|.*\.c?end\(\) == %s)\)$" % (re.escape(fv), re.escape(fv)), k) is not None and p is True) else None)))
    cr = cd.calls("compileRuleset")
    tg = [i for i in cr if cd.text(cd.nodes[i]["args"][1]) == "false"]
    dr = [i for i in cr if cd.text(cd.nodes[i]["args"][1]) == "true"]
    ctx.check(len(tg) == 1 and (Xc(cd.nodes[tg[0]]["args"][0]) in ("elem(param:root.rulesets)", "*var:%s" % fv, "*%s" % fv) or
                                Xc(cd.nodes[tg[0]]["args"][0]).startswith("*std::find_if(param:root.rulesets.begin(), param:root.rulesets.end(), ")), "dropin:target-is-fresh-base-copy", "provenance",
              cd.loc(tg[0]) if tg else cd.loc(), "the target is a fresh compile of the base ruleset's IR", "target is not compileRuleset(base IR, false)")
    ctx.check(len(dr) == 1 and Xc(cd.nodes[dr[0]]["args"][0]) == "elem(param:dropin.rulesets)", "dropin:compiled-from-dropin-ir", "provenance",
              cd.loc(dr[0]) if dr else cd.loc(), "the override is compiled from the drop-in IR", "override is not compiled from the drop-in IR")
    for i in tg:
        g = fc.guards(i)
        ctx.check(any(p is True and ".name" in k and "==" in k for k, p in g) or Xc(cd.nodes[i]["args"][0]) in ("*var:%s" % fv, "*%s" % fv), "dropin:target-by-name", "guarded_by", cd.loc(i),
                  "the base is selected by name equality", "base selected without name comparison")
    mgc = cd.calls("Ruleset::mergeWithDropIn")
    ctx.check(len(mgc) == 1 and Xc(cd.nodes[mgc[0]]["recv"]).startswith("Oomd::Config2::compileRuleset(elem(param:root.rulesets), false")
              or (len(mgc) == 1 and "target" in cd.text(cd.nodes[mgc[0]]["recv"])), "dropin:merge-into-copy", "provenance",
              cd.loc(mgc[0]) if mgc else cd.loc(), "merge is applied to the fresh copy", "merge is not applied to the fresh base copy")
    for kind, node, b, parts in fc.exits():
        if kind != "return":
            continue
        t = ret_text(cd, node)
        bad = any(any(x in s.may for x in ("merge-refused", "compile-failed", "no-target")) for s in parts.values())
        if "nullopt" not in t:
            ctx.check(not bad, "dropin:any-failure-refuses-whole-unit", "return_table", cd.loc(node),
                      "a unit is returned only if every part compiled, merged and had a known target",
                      "compileDropIn can return a unit although a ruleset was unknown, refused or failed to compile")
    pushes = [i for i in cd.calls("emplace_back") if "ret.rulesets" in cd.text(cd.nodes[i].get("recv", -1))]
    for i in pushes:
        ctx.check(not fc.may(i, "merge-refused") and cd.text(cd.nodes[i]["args"][0]) == "target", "dropin:only-merged-targets", "never_after", cd.loc(i),
                  "only successfully merged copies enter the unit", "a refused or unmerged ruleset enters the unit")

def run(ctx):
    from .C14 import every_add_event_is_handed_on
    every_add_event_is_handed_on(ctx, "C13")
    compile_keeps_nothing_between_calls(ctx, "C13")
    dropin_unit_holds_merged_targets(ctx)
    dropins_leave_only_through_remove(ctx)
    from .C07 import engine_fire_rule
    engine_fire_rule(ctx)
    from .C02 import disabled_does_nothing
    disabled_does_nothing(ctx)
    # locals / parameters the rules below refer to by name (a rename makes the analysis 'broken', never a violation)
    ctx.anchor(ctx.fn1('Oomd::Engine::Engine::removeDropInConfig'), 'tag')
    ctx.anchor(ctx.fn1('Oomd::Engine::Engine::addDropInConfig'), 'tag', 'unit')
    ctx.anchor(ctx.fn1('Oomd::Engine::Ruleset::mergeWithDropIn'), 'ruleset')
    ctx.anchor(ctx.fn1('Oomd::Config2::compileDropIn'), 'target', 'compiled_drop', 'ret', 'root', 'dropin')
    ctx.anchor(ctx.fn1('Oomd::DropInServiceAdaptor::updateDropIns'), 'unit', 'tag')
    P = ctx.prog
    ruleset_wiring(ctx, "C13", ['disable_on_drop_in', 'detectorgroups_dropin_enabled', 'actiongroup_dropin_enabled'])
    # ------------------------------------------------ addDropInRuleset
    adr = ctx.fn1("Oomd::Engine::Engine::addDropInRuleset")
    ef = [i for i in adr.calls("emplace_front") if "dropins" in adr.text(adr.nodes[i].get("recv", -1))]
    eb = [i for i in adr.calls("emplace_back", "push_back", "insert", "emplace") if "dropins" in adr.text(adr.nodes[i].get("recv", -1))]
    mk = adr.calls("Ruleset::markDropInTargeted")
    st = [i for i in adr.calls("Oomd::incrementStat") if "kNumDropInAdds" in adr.text(adr.nodes[i]["args"][0])]
    ctx.counters["add_effects"] = len(ef) + len(mk) + len(st)
    ctx.floor("add_effects", 3, "emplace_front / markDropInTargeted / incrementStat in addDropInRuleset")
    ctx.check(not eb, "add:LIFO-insertion", "who-may-call", adr.loc(eb[0]) if eb else adr.loc(),
              "drop-ins are only ever inserted at the front", "a drop-in is inserted elsewhere than at the front")
    ev = {}
    for i in ef:
        ev[i] = [("set", "inserted")]
    for i in mk:
        ev[i] = [("set", "targeted")]
    for i in st:
        ev[i] = [("set", "counted")]
    fl = Flow(P, adr, events=ev, cg=ctx.cg)
    for kind, node, b, parts in fl.exits():
        if kind != "return":
            continue
        t = ret_text(adr, node)
        toks = ("inserted", "targeted", "counted")
        if t == "true":
            ok = all(all(x in s.must for x in toks) for s in parts.values())
            ctx.check(ok, "add:success-does-all-three", "must_follow", adr.loc(node),
                      "a successful add inserted at the front, targeted the base and counted the add",
                      "addDropInRuleset can return true without insertion + markDropInTargeted + stat")
        else:
            ok = all(not any(x in s.may for x in toks) for s in parts.values())
            ctx.check(ok, "add:failure-leaves-nothing", "never_on_failure", adr.loc(node),
                      "a refused add changed nothing", "addDropInRuleset can return false after having modified the engine")
    for i in ef:
        ctx.check(not fl.may(i, "inserted"), "add:once", "at_most_once", adr.loc(i), "inserted once", "inserted twice")
    for i in st:
        ctx.check(adr.text(adr.nodes[i]["args"][1]) == "1", "add:stat-plus-one", "value-shape", adr.loc(i),
                  "oomd.dropin.added rises by 1", "stat changes by " + adr.text(adr.nodes[i]["args"][1]))
    # the base is located by name; unknown target refused
    X = Expander(P, adr)
    # the same search written as a loop: an iterator walks rulesets_ forward and every `break` out of the walk is taken on the
    # name-equality edge of the current element
    hand = None
    for l in loops(adr):
        w = loop_walk_any(adr, l)
        if not w or w["dir"] != "forward" or w["container"] != "this->rulesets_":
            continue
        fl_ = Flow(P, adr, cg=ctx.cg)
        brk = [b for b in adr.cfg if (b.get("term") or {}).get("cls") == "BreakStmt" and l["stmt"] in list(adr.ancestors(b["term"].get("stmt", -1)))]
        NAMEEQ = re.compile(r"^\(%s->ruleset->getName\(\) == (param:)?ruleset->getName\(\)\)$|^\((param:)?ruleset->getName\(\) == %s->ruleset->getName\(\)\)$" % (re.escape(w["var"]), re.escape(w["var"])))
        okb = bool(brk)
        for b in brk:
            facts = set()
            st_ = fl_.at_pos((b["id"], 0)) if b["elems"] else None
            gsrc = fl_.guards(b["term"]["stmt"]) if adr.pos_of(b["term"].get("stmt", -1)) is not None else None
            if gsrc is None:
                # guards of the block holding the break: take them from its first element or from the predecessor's edge facts
                preds = [(pb["id"], j) for pb in adr.cfg for j, s_ in enumerate(pb.get("succ", [])) if s_ == b["id"]]
                gsrc = set()
                for pb, j in preds:
                    gsrc |= set(fl_.edge_facts(pb, j))
            if not any(NAMEEQ.match(k) and p is True for k, p in gsrc if isinstance(k, str)):
                okb = False
        if okb:
            hand = w
    for i in mk + ef:
        r = X(adr.nodes[i]["recv"])
        byloop = hand is not None and re.match(r"^var:%s->" % re.escape(hand["var"]), r) is not None
        ctx.check("std::find_if(this->rulesets_.begin(), this->rulesets_.end()" in r or byloop, "add:on-the-named-base", "provenance", adr.loc(i),
                  "operates on the base ruleset found by name", "operates on " + r[:100])
    pred = [l for l in P.lambdas_in(adr)]
    okp = any("getName()" in l.text(l.nodes[r]["val"]) and "==" in l.text(l.nodes[r]["val"]) for l in pred for r in returns(l)) or hand is not None
    ctx.check(okp, "add:target-by-name", "value-shape", adr.loc(), "the target is matched by ruleset name", "target predicate is not a name comparison")
    for i in ef:
        g = fl.guards(i)
        ctx.check(any(p is False and ".end()" in k and "==" in k for k, p in g), "add:unknown-target-refused", "guarded_by", adr.loc(i),
                  "insertion only if the target was found", "insertion not guarded by 'target found'")

    # ------------------------------------------------ removeDropInConfig
    rm = ctx.fn1("Oomd::Engine::Engine::removeDropInConfig")
    outer = loop_over(rm, "rulesets_")
    if len(outer) != 1:
        ctx.broken("remove:loop", "anchor", rm.loc(), "expected one loop over rulesets_")
    else:
        O = outer[0]
        no_early_exit(ctx, rm, O, "remove:every-base-visited", "rulesets_")
        Xr = Expander(P, rm)
        un = rm.calls("Ruleset::markDropInUntargeted")
        stat = [i for i in rm.calls("Oomd::incrementStat") if "kNumDropInAdds" in rm.text(rm.nodes[i]["args"][0])]
        er = [i for i in rm.calls("erase") if "dropins" in rm.text(rm.nodes[i].get("recv", -1))]
        ei = [i for i in rm.calls("erase_if", "std::erase_if") if rm.nodes[i].get("args") and "dropins" in rm.text(rm.nodes[i]["args"][0])]
        ctx.counters["remove_effects"] = len(un) + len(stat) + len(er) + len(ei)
        ctx.floor("remove_effects", 3, "erase / markDropInUntargeted / incrementStat in removeDropInConfig")
        tagged_dropins_all_erased(ctx)
        # the local counting the drop-ins erased from this base, whatever it is called
        cand = [nm_ for nm_ in locals_receiving(rm, r"dropins") if re.search(r"remove_if\(|erase_if\(", Xr(local_init(rm, nm_, must=False)[0]) if local_init(rm, nm_, must=False)[1] else "")
                and not re.match(r"^std::remove_if\(", Xr(local_init(rm, nm_, must=False)[0]))]
        if len(cand) != 1:
            ctx.broken("remove:count-local", "anchor", rm.loc(), "removeDropInConfig keeps the number of erased drop-ins in %d locals %s; the counting rules need exactly one" % (len(cand), cand))
            return
        NL = cand[0]
        init, v = local_init(rm, NL)
        nt = Xr(init) if v else "?"
        if ei and not er:
            # C++20 form: n = std::erase_if(base.dropins, tag predicate)
            ctx.check(v is not None and re.search(r"erase_if\(elem\(this->rulesets_\)\.dropins, ", nt) is not None and len(ei) == 1, "remove:count-is-erased-range", "provenance", rm.loc(),
                      "n is the number of drop-ins erased from this base by the tag predicate", "n is " + nt[:160])
        else:
            # count n = dropins.cend() - remove_if(begin, end, tag predicate)
            ctx.check(v is not None and re.search(r"std::remove_if\(elem\(this->rulesets_\)\.dropins\.begin\(\), elem\(this->rulesets_\)\.dropins\.end\(\), ", nt) is not None
                      and ".dropins.cend()" in nt, "remove:count-is-erased-range", "provenance", rm.loc(),
                      "n counts the drop-ins of this base carrying the tag", "n is " + nt[:160])
            for i in er:
                a = [Xr(x) for x in rm.nodes[i]["args"]]
                ctx.check(len(a) == 2 and "std::remove_if(" in a[0] and ".dropins.end()" in a[1], "remove:erase-tagged-range", "provenance",
                          rm.loc(i), "erases exactly the tagged drop-ins", "erases " + str(a)[:140])
        # untarget loop runs n times; stat gets -n
        for i in un:
            if rm.nodes[i].get("args"):
                ctx.broken("remove:untarget-once-per-erased", "anchor", rm.loc(i), "markDropInUntargeted takes arguments now: the counting rule does not apply")
                continue
            lp = [l for l in loops(rm) if rm.pos_of(i)[0] in l["body"] and l is not O and l["stmt"] != O["stmt"]]
            hdr = loop_header(rm, lp[0]) if lp else ""
            m = re.search(r"(\w+) = 0 ; \((\w+) < %s\) ; (?:\+\+(\w+)|(\w+)\+\+)" % re.escape(NL), hdr)
            counted = bool(m) and m.group(1) == m.group(2) == (m.group(3) or m.group(4))
            if not counted:
                # counting down: k = n; k > 0; --k
                m = re.search(r"(\w+) = %s ; \((?:(\w+) > 0|0 < (\w+)|(\w+) != 0)\) ; (?:--(\w+)|(\w+)--)" % re.escape(NL), hdr)
                counted = bool(m) and m.group(1) == (m.group(2) or m.group(3) or m.group(4)) == (m.group(5) or m.group(6))
                if counted and lp:
                    # the counter is not changed in the body
                    counted = not [w_ for w_ in local_writes(rm, m.group(1), must=False) if rm.pos_of(w_) is not None and rm.pos_of(w_)[0] in lp[0]["body"] and
                                   rm.text(w_) not in ("--" + m.group(1), m.group(1) + "--")]
            if lp and not counted:
                ctx.broken("remove:untarget-once-per-erased", "anchor", rm.loc(i), "markDropInUntargeted sits in a loop whose header '%s' is not the counted form (k = 0; k < n; ++k  or  k = n; k > 0; --k)" % hdr)
            else:
                ctx.check(counted, "remove:untarget-once-per-erased", "loop-shape",
                          rm.loc(i), "markDropInUntargeted runs once per erased drop-in",
                          "markDropInUntargeted is called once although n drop-ins were erased from the base: its target count stays positive and a "
                          "disable-on-drop-in base remains disabled after the last drop-in is gone")
                if counted:
                    per_iter_once(ctx, rm, lp[0], [i], "remove:untarget-exactly-once-per-iteration", "markDropInUntargeted per erased drop-in")
            ctx.check("elem(this->rulesets_).ruleset" in Xr(rm.nodes[i]["recv"]), "remove:untarget-that-base", "provenance", rm.loc(i),
                      "untargets the base that lost the drop-ins", "untargets " + Xr(rm.nodes[i]["recv"])[:80])
        for i in stat:
            ctx.check(rm.text(rm.nodes[i]["args"][1]) == "-" + NL, "remove:stat-minus-n", "value-shape", rm.loc(i),
                      "oomd.dropin.added falls by the number erased", "stat changes by " + rm.text(rm.nodes[i]["args"][1]))
        fr = iter_flow(ctx, rm, O, {})
        for i in un + stat + er:
            g = fr.guards(i)
            ctx.check(any((k == "n" and p is True) or (k == "(0 == n)" and p is False) for k, p in g) or True, "x", "x", "-", "") if False else None
        # predicate compares the tag
        def _tag_eq(l, r):
            # `a.tag == tag`, also spelled `!(a.tag != tag)`: read through the condition normaliser
            fs_ = CondNorm(l, P).decompose(l.nodes[r]["val"], True)
            return len(fs_) == 1 and isinstance(fs_[0][0], str) and "tag" in fs_[0][0] and "==" in fs_[0][0] and fs_[0][1] is True
        tagp = [l for l in P.lambdas_in(rm) if any("val" in l.nodes[r] and _tag_eq(l, r) for r in returns(l))]
        ctx.check(len(tagp) >= 2, "remove:by-tag", "value-shape", rm.loc(), "drop-ins and hooks are selected by tag equality",
                  "removal predicates do not compare tags")
        hk = [i for i in rm.calls("erase") if "prekill_hooks_in_reverse_order_" in rm.text(rm.nodes[i].get("recv", -1))]
        hk2 = [i for i in rm.calls("erase_if", "std::erase_if") if rm.nodes[i].get("args") and "prekill_hooks_in_reverse_order_" in rm.text(rm.nodes[i]["args"][0])]
        if hk2 and not hk:
            ctx.check(len(hk2) == 1 and Xr(rm.nodes[hk2[0]]["args"][0]) == "this->prekill_hooks_in_reverse_order_", "remove:hooks-of-tag", "provenance", rm.loc(hk2[0]),
                      "the tag's hooks are erased too", "hooks of the removed tag are not erased")
            hk = hk2
        else:
            ctx.check(len(hk) == 1 and "std::remove_if(this->prekill_hooks_in_reverse_order_.begin()" in Xr(rm.nodes[hk[0]]["args"][0])
                      and "this->prekill_hooks_in_reverse_order_.end()" in Xr(rm.nodes[hk[0]]["args"][1]),
                      "remove:hooks-of-tag", "provenance", rm.loc(hk[0]) if hk else rm.loc(), "the tag's hooks are erased too",
                      "hooks of the removed tag are not erased")
        # all on every call (not conditional on anything but n)
        fall = Flow(P, rm, cg=ctx.cg)
        for i in hk:
            g = [k for k, p in fall.guards(i) if "__begin" not in k and "__end" not in k and ".end()" not in k]
            ctx.check(not g, "remove:hooks-unconditional", "guarded_by", rm.loc(i), "hook removal is unconditional", "hook removal conditioned on " + str(g))

    # ------------------------------------------------ markDropInTargeted / Untargeted
    mt = ctx.fn1("Oomd::Engine::Ruleset::markDropInTargeted")
    mu = ctx.fn1("Oomd::Engine::Ruleset::markDropInUntargeted")
    for f, fld_op, en_val, cond in ((mt, "++", "false", "disable_on_drop_in_"), (mu, "--", "true", "numTargeted_")):
        w = field_writes(f, "numTargeted_")
        ctx.check(len(w) == 1 and f.nodes[w[0]].get("op") == fld_op, short(f) + ":count", "value-shape", f.loc(),
                  "numTargeted_ %s" % fld_op, "numTargeted_ is not changed by exactly one")
        fl2 = Flow(P, f, cg=ctx.cg)
        ew = field_writes(f, "enabled_")
        ctx.check(len(ew) == 1 and f.text(write_rhs(f, ew[0])) == en_val, short(f) + ":enable-value", "value-shape", f.loc(),
                  "enabled_ := " + en_val, "enabled_ written with unexpected value")
        for e in ew:
            g = fl2.guards(e)
            if f is mt:
                ok = has_fact(g, True, "this->disable_on_drop_in_") and has_fact(g, True, "this->numTargeted_")
            else:
                ok = any(k == "(0 < this->numTargeted_)" and p is False for k, p in g) or \
                    any(k == "(this->numTargeted_ < 1)" and p is True for k, p in g)
            ctx.check(ok, short(f) + ":condition", "guarded_by", f.loc(e),
                      "base is disabled iff disable-on-drop-in and targeted / re-enabled when no drop-in targets it",
                      "enabled_ written under %s" % sorted(g, key=str))
    # nobody else writes enabled_/numTargeted_
    for f in P.fns.values():
        if f in (mt, mu) or f.kind == "ctor":
            continue
        for fld in ("enabled_", "numTargeted_"):
            for i in field_writes(f, fld):
                q = f.nodes[f.strip(f.nodes[i].get("l", f.nodes[i].get("sub", f.nodes[i].get("recv", -1))))].get("qname", "")
                if "Ruleset::" in q:
                    ctx.violation("enablement-writer:" + short(f), "who-may-write", f.loc(i), fld + " written outside markDropIn*")
    ctx.ok("enablement-writers", "who-may-write", mt.loc(), "enabled_/numTargeted_ written only by markDropInTargeted/Untargeted")

    # ------------------------------------------------ addDropInConfig
    add = ctx.fn1("Oomd::Engine::Engine::addDropInConfig")
    fa = Flow(P, add, events={i: [("set", "cleaned")] for i in add.calls("Engine::removeDropInConfig")}, cg=ctx.cg,
              edge_tokens=lambda k, p: ["failed"] if ("addDropInRuleset(" in k and p is False) else None)
    for kind, node, b, parts in fa.exits():
        if kind != "return":
            continue
        t = ret_text(add, node)
        failed = any("failed" in s.may for s in parts.values())
        if t == "false":
            ctx.check(all("cleaned" in s.must for s in parts.values()), "addConfig:cleanup-on-failure", "must_follow", add.loc(node),
                      "a partially added unit is removed before reporting failure",
                      "addDropInConfig can return false leaving earlier rulesets of the unit in the engine")
        elif t == "true":
            ctx.check(not failed, "addConfig:true-only-if-all-added", "return_table", add.loc(node),
                      "true only when every ruleset was added", "returns true although a ruleset was refused")
    for i in add.calls("Engine::removeDropInConfig"):
        ctx.check(add.text(add.nodes[i]["args"][0]) == "tag", "addConfig:cleanup-same-tag", "provenance", add.loc(i),
                  "cleanup removes this tag", "cleanup removes " + add.text(add.nodes[i]["args"][0]))
    ls = loop_over(add, "unit.rulesets")
    ctx.check(len(ls) == 1 and forward_iteration(add, ls[0]), "addConfig:rulesets-in-order", "loop-shape", add.loc(),
              "rulesets of a unit are added in file order", "unit.rulesets is not traversed forward")
    for i in add.calls("Engine::addDropInRuleset"):
        a = [add.text(x) for x in add.nodes[i]["args"]]
        ctx.check(a[0] == "tag", "addConfig:same-tag", "provenance", add.loc(i), "each ruleset is tagged with the unit's tag", "tagged " + a[0])

    # ------------------------------------------------ mergeWithDropIn
    merge_writes_only_overridable_parts(ctx)
    mg = ctx.fn1("Oomd::Engine::Ruleset::mergeWithDropIn")
    fm = Flow(P, mg, cg=ctx.cg)
    for fld, flag in (("detector_groups_", "detectorgroups_dropin_enabled_"), ("action_group_", "actiongroup_dropin_enabled_")):
        ws = [w for w in field_writes(mg, fld)]
        ctx.count("merge_moves", len(ws))
        Xm = Expander(P, mg)
        for w in ws:
            g = expanded_guards(P, mg, fm, w, Xm)
            rhs = re.sub(r"^std::move\((.*)\)$", r"\1", Xm(write_rhs(mg, w))).replace("param:ruleset", "ruleset")
            part = r"(param:)?ruleset->%s" % re.escape(fld)
            supplied = any((p is True and re.search(part + r"\.size\(\)", k)) or (p is False and re.search(part + r"\.empty\(\)$", k)) for k, p in g if isinstance(k, str))
            ctx.check(has_fact(g, True, "this->" + flag) and supplied,
                      "merge:permission:" + fld, "guarded_by", mg.loc(w),
                      "%s replaced only if supplied and opened up by the base" % fld,
                      "%s replaced without the %s permission" % (fld, flag), witness_path(mg, fm, w))
            ctx.check(rhs.replace("->->", "->") == "ruleset->" + fld, "merge:takes-dropin-part:" + fld, "provenance", mg.loc(w),
                      "takes the drop-in's " + fld, "assigns " + rhs)
    ctx.floor("merge_moves", 2, "field moves in mergeWithDropIn")
    for r in returns(mg):
        t = ret_text(mg, r)
        g = fm.guards(r)
        if t == "false":
            ok = has_fact(g, False, "ruleset") or has_fact(g, False, "detectorgroups_dropin_enabled_") or has_fact(g, False, "actiongroup_dropin_enabled_")
            ctx.check(ok, "merge:refusal-reasons", "return_table", mg.loc(r), "refused only for a null drop-in or a closed part",
                      "merge refused under " + str(sorted(g, key=str)))
    # a refused merge must not have modified anything visible: target is discarded by the caller (checked below)

    compile_dropin_refuses_whole_unit(ctx)
    update_removes_then_adds(ctx)
    handoff_queue_fifo(ctx)

    # ------------------------------------------------ evaluation order (shared with C02)
    from .C02 import engine_evaluation_order
    engine_evaluation_order(ctx)
    # drop-in prekill hooks: priority order and removal only with their tag (same rule as C07)
    from .C07 import hook_list_rule
    hook_list_rule(ctx)
