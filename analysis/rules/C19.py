"""C19 Stats service (DESIGN 4/C19)."""
import re
from .common import *
from ..escape import Escape
from ..lockset import LockAnalysis, access_is_write, effective_locks, alias_write_nodes

EXPLANATION = (
    "Decides for all interleavings, request bytes and client behaviours: the counter map is only "
    "read with stats_mutex_ held (shared or exclusive) and only written - directly or through an "
    "iterator/reference obtained from it - with stats_mutex_ held exclusively; every other field of "
    "Stats reached from two threads with a write outside construction has one common lock (generic "
    "audit, also covers fields added later); each public operation is one critical section (so every "
    "interleaving equals some sequential order and increments cannot be lost); thread_count_ changes "
    "only under thread_mutex_; the handler slot taken before a handler thread is created is given "
    "back, with a notification, on every exit of processMsg, and the connection is closed on every "
    "exit; at most one reply is written per connection; the request switch maps g/r/0/other to "
    "getAll/reset/nothing/error 1; the read loop is bounded by 32 one-byte reads; reset only assigns "
    "0 to keys it iterates; every failure edge of startSocket returns false, the constructor turns "
    "that into std::runtime_error and Stats::init catches it; both strcpy into sun_path are dominated "
    "by a length test against sizeof(sun_path); the destructor stops, wakes, waits, joins, unlinks and "
    "closes in that order; no exception escapes the acceptor or a handler thread; the lock-order graph "
    "is acyclic.  Timing (5 s / 2 s budgets) and kernel socket behaviour are not decided.")
RULE_SUMMARY = "E-LOCK guarded-by / lock order, E-PATH pairing on all exits, at-most-once, switch table, bounded_copy, E-ESCAPE on thread roots"
NOT_DECIDED = ["timing of shutdown (5 s / 2 s budgets)", "kernel socket behaviour"]
ASSUMPTIONS = ["std::mutex provides mutual exclusion", "condition_variable::wait_for evaluates its predicate with the lock held"]

STATS_MUTEX = "Oomd::Stats::stats_mutex_"
THREAD_MUTEX = "Oomd::Stats::thread_mutex_"


_RAW_WRITERS = ("write", "writev", "pwrite", "send", "sendto", "sendmsg")
_MSG_NOSIGNAL = ("MSG_NOSIGNAL", "16384", "0x4000")


def _has_nosignal(P, f, call):
    n = f.nodes[call]
    nm = plain(n.get("callee", ""))
    args = n.get("args", [])
    if nm in ("send", "sendto", "sendmsg") and len(args) >= (3 if nm == "sendmsg" else 4):
        fa = args[2 if nm == "sendmsg" else 3]
        flags = f.text(fa)
        if not any(t in flags for t in _MSG_NOSIGNAL):
            try:
                flags = Expander(P, f)(fa)       # a flags local: its one definition
            except Exception:
                pass
        return any(t in flags for t in _MSG_NOSIGNAL)
    return False


def _raw_senders(P, cg, f, call, depth=0, binding=None, seen=None):
    """(name, location, carries MSG_NOSIGNAL) of every raw write/send system call the call can reach; a callable parameter is followed to
    what the caller on this path passed for it."""
    seen = seen if seen is not None else set()
    n = f.nodes[call]
    nm = plain(n.get("callee", "") or "")
    out = []
    if nm in _RAW_WRITERS:
        return [(nm, f.loc(call), _has_nosignal(P, f, call))]
    targets = []
    if n.get("callee") is None and "fnexpr" in n:
        fe = f.nodes[f.strip(n["fnexpr"])]
        if fe.get("k") == "ref" and fe.get("dk") == "param" and binding is not None:
            pidx = next((k for k, p_ in enumerate(f.params) if p_.get("decl") == fe.get("decl")), None)
            if pidx is not None and pidx < len(binding[1]):
                g, a = binding[0], binding[1][pidx]
                an = g.nodes[g.strip(a)]
                if an.get("k") == "ref" and an.get("dk") == "func" and an.get("name") in _RAW_WRITERS:
                    return [(an["name"], f.loc(call) + " (passed as " + g.text(a) + " at " + g.loc(a) + ")", False)]
    for e in cg.out.get(f.usr, ()):
        if isinstance(e.node, int) and e.node == call and e.dst in P.fns:
            targets.append(P.fns[e.dst])
    if depth > 6:
        return out
    for t in targets:
        key = (t.usr, call, f.usr)
        if key in seen:
            continue
        seen.add(key)
        b = (f, n.get("args", []))
        for j in t.calls():
            out += _raw_senders(P, cg, t, j, depth + 1, b, seen)
    return out


def _sigpipe_ignored(P, cg):
    """SIGPIPE is given a non-default disposition (signal / sigaction / sigignore on signal 13) in the daemon's own code."""
    for f in P.fns.values():
        if f.file.endswith("Test.cpp"):
            continue
        for i in f.calls("signal", "sigaction", "sigignore", "bsd_signal", "sigset"):
            n = f.nodes[i]
            a = n.get("args", [])
            if not a or plain(n.get("callee", "")) not in ("signal", "sigaction", "sigignore", "bsd_signal", "sigset", "std::signal"):
                continue
            if f.text(a[0]).strip("()") not in ("13", "SIGPIPE"):
                continue
            if plain(n.get("callee", "")) in ("signal", "std::signal", "bsd_signal", "sigset") and len(a) >= 2:
                h = f.text(a[1]).replace(" ", "")
                if h.endswith(")0") or h in ("0", "nullptr", "SIG_DFL") or h.endswith("(0)"):
                    continue        # back to the default action
            return True
    return False


def stat_update_is_applied_before_return(ctx, tag):
    """Stats::increment / Stats::set have changed the counter when they return: every exit is preceded by a write of stats_ in that
    call, keyed by the key parameter.  (oomd.kills 'rises by exactly 1 per wet kill': an update that is parked for later when the lock is
    busy shows up in a later snapshot, lumped together with others, or never.)"""
    P, cg = ctx.prog, ctx.cg
    LA = LockAnalysis(P, cg)
    acc = list(LA.field_accesses("Oomd::Stats::stats_"))
    for q in ("increment", "set"):
        f = ctx.use(ctx.fn1("Oomd::Stats::" + q))
        if not f.params:
            ctx.broken("%s:stat-update-applied-before-return:%s" % (tag, q), "anchor", f.loc(), "Stats::%s has no key parameter" % q)
            continue
        kn = f.params[0]["name"]
        ws = []
        for g, i in acc:
            if g is not f or not access_is_write(f, i, "Oomd::Stats::stats_"):
                continue
            x = i
            while x is not None and f.pos_of(x) is None:
                x = f.parent.get(x)
            top = x
            # the statement-level expression that holds the access names the key
            y = top
            while y is not None and f.parent.get(y) is not None and f.nodes[f.parent[y]]["k"] in ("bin", "call", "un", "cast", "paren") and f.pos_of(f.parent[y]) is not None:
                y = f.parent[y]
            if top is not None and re.search(r"\[%s\]|\(%s\)|\b%s\b" % ((re.escape(kn),) * 3), f.text(y if y is not None else top)):
                ws.append(top)
        ctx.counters["%s_stat_writes_%s" % (tag, q)] = len(ws)
        ctx.floor("%s_stat_writes_%s" % (tag, q), 1, "writes of stats_[key] in Stats::%s" % q)
        if not ws:
            continue
        fl = Flow(P, f, events={w: [("set", "applied")] for w in ws}, cg=cg)
        bad = [f.loc(node) if node is not None else "end of function" for kind, node, b, parts in fl.exits()
               if kind in ("return", "fallthrough") and not all("applied" in st.must for st in parts.values())]
        ctx.check(not bad, "%s:stat-update-applied-before-return:%s" % (tag, q), "must_pass_through", f.loc(),
                  "every exit of Stats::%s has written stats_[%s]" % (q, kn),
                  "Stats::%s can return (at %s) without having updated stats_[%s]: the change is dropped or parked for later, so a snapshot taken after the "
                  "call - oomd.kills after a kill that signalled a process - does not show it" % (q, ", ".join(bad), kn))


def service_owns_what_shutdown_needs(ctx):
    """'Shutting the service down always completes': the destructor wakes the accept thread by connecting to the service's own socket path.
    That path - like everything else ~Stats reads - is a member the service OWNS (a std::string), not a reference, pointer or view to the
    caller's string, which may have been a temporary or may have changed by the time the service is shut down."""
    P = ctx.prog
    cls = P.classes.get("Oomd::Stats")
    if not cls:
        ctx.broken("service-owns-what-shutdown-needs", "anchor", "-", "class Oomd::Stats not found")
        return
    dt = ctx.use(ctx.fn1("Oomd::Stats::~Stats"))
    read = {nd["name"] for nd in dt.nodes if nd.get("k") == "member" and nd.get("qname", "").startswith("Oomd::Stats::")}
    flds = {x["name"]: x for x in cls.get("fields", [])}
    ctx.counters["destructor_member_reads"] = len(read)
    ctx.floor("destructor_member_reads", 3, "members of Stats read by ~Stats")
    for nm in sorted(read):
        t = (flds.get(nm) or {}).get("type", "")
        borrowed = t.rstrip().endswith("&") or t.rstrip().endswith("*") or "string_view" in t or "reference_wrapper" in t or "span<" in t
        ctx.check(not borrowed, "service-owns-what-shutdown-needs:" + nm, "E-TYPE (declared member type)", "oomd/Stats.h",
                  "%s is owned by the service (%s)" % (nm, t),
                  "Stats::%s is declared %s: the service only borrows it, yet ~Stats reads it to wake its accept thread - if the caller's object is a temporary, "
                  "gone or changed by then, the wake-up connects nowhere, accept() never returns and join() blocks for ever" % (nm, t))


def snapshot_is_a_copy(ctx):
    """'Reads see the values of some sequential order': Stats::getAll hands out a COPY of the map made while stats_mutex_ is held (return by
    value of stats_ itself).  A reference - however const - outlives the lock, and every caller then walks the live map while the main
    loop updates it."""
    P = ctx.prog
    f = ctx.use(ctx.fn1("Oomd::Stats::getAll"))
    ret = (f.d.get("ret") or "").strip()
    by_value = not (ret.endswith("&") or ret.endswith("*") or "reference_wrapper" in ret or "string_view" in ret or "span<" in ret)
    rets = [ret_text(f, r) for r in returns(f)]
    ctx.check(by_value and rets == ["this->stats_"], "snapshot-is-a-copy", "E-TYPE (declared return type)", f.loc(),
              "Stats::getAll returns the map by value", "Stats::getAll is declared to return %s (returns %s): the lock taken inside ends at the return, so what callers read "
              "through the result is the live map, unsynchronised with increment / set / reset" % (ret, rets))
    # the free function that plugins and the main loop use hands the copy on by value as well
    for g in P.fns.values():
        if g.pq == "Oomd::getStats":
            r2 = (g.d.get("ret") or "").strip()
            ctx.check(not (r2.endswith("&") or r2.endswith("*")), "snapshot-is-a-copy:getStats", "E-TYPE (declared return type)", g.loc(),
                      "getStats returns by value", "getStats is declared to return " + r2)


def counters_have_one_copy(ctx):
    """'The values read are those of some sequential order': what a `g` request reads is the counter map itself, under its lock - Stats
    keeps no second, rendered copy of the counters (a cached reply text or JSON value) that every writer would have to invalidate: one
    writer path that forgets (set() of an unchanged value that nevertheless creates a key) and the socket view omits a counter that
    getAll() lists.  Declaration rule: besides the socket path, Stats has no string / JSON / second map member."""
    P = ctx.prog
    cls = P.classes.get("Oomd::Stats")
    if not cls:
        ctx.broken("counters-have-one-copy", "anchor", "-", "class Oomd::Stats not found")
        return
    maps = [x for x in cls["fields"] if re.search(r"\b(unordered_map|map)<", x.get("type") or "")]
    ctx.counters["stats_counter_maps"] = len(maps)
    ctx.floor("stats_counter_maps", 1, "the counter map member of Stats")
    for x in cls["fields"]:
        t = x.get("type") or ""
        copy = (re.search(r"\bstd::(string|basic_string|ostringstream|stringstream|vector)\b|Json::|\b(unordered_map|map)<", t) is not None
                and x["name"] not in ("stats_socket_path_",) and x not in maps[:1])
        if copy:
            ctx.violation("counters-have-one-copy:Stats::%s" % x["name"], "declared type (second copy of shared state)", "oomd/Stats.h:%d" % x.get("line", 0),
                          "Stats::%s (%s) is a second holder of counter data next to the counter map: a reply served from it is stale whenever a writer "
                          "path does not refresh it, so a `g` request can read values no sequential order of the updates produces" % (x["name"], t))
    ctx.ok("counters-have-one-copy", "declared type (second copy of shared state)", "oomd/Stats.h", "%d data members, one counter map, no rendered copy" % len(cls["fields"]))


def run(ctx):
    counters_have_one_copy(ctx)
    snapshot_is_a_copy(ctx)
    service_owns_what_shutdown_needs(ctx)
    stat_update_is_applied_before_return(ctx, "C19")
    # the accept loop ends only with the server: a failed accept() (EMFILE, ECONNABORTED, ...) is logged and retried - no break / return
    rsk0 = ctx.fn1("Oomd::Stats::runSocket")
    al = [l for l in loops(rsk0) if l["stmt"] is not None and rsk0.nodes[l["stmt"]]["k"] in ("while", "for", "do") and "statsThreadRunning_" in rsk0.text(rsk0.nodes[l["stmt"]].get("c", -1))]
    if len(al) != 1:
        ctx.broken("accept-loop", "anchor", rsk0.loc(), "expected one loop over statsThreadRunning_ in Stats::runSocket")
    else:
        ee = [(b_, s_) for b_, s_ in early_exits(rsk0, al[0]) if not rsk0.blocks[s_].get("noreturn")]
        rets_in = [r_ for r_ in returns(rsk0) if al[0]["stmt"] in list(rsk0.ancestors(r_))]
        ctx.check(not ee and not rets_in, "accept-loop-ends-only-on-shutdown", "loop-shape (no early exit)", rsk0.loc(al[0]["stmt"]),
                  "the accept loop runs until the server is stopped",
                  "the accept loop can be left by break / return (%s): after one failed accept() no later client is ever served - connections pile up in the listen "
                  "backlog and time out" % ", ".join(sorted({rsk0.loc(rsk0.blocks[b_].get("term", {}).get("stmt", -1)) if rsk0.blocks[b_].get("term") else "block %d" % b_ for b_, _ in ee} | {rsk0.loc(r_) for r_ in rets_in})))
    # locals / parameters the rules below refer to by name (a rename makes the analysis 'broken', never a violation)
    ctx.anchor(ctx.fn1('Oomd::Stats::processMsg'), 'mode', 'num_read', 'byte_buf', 'sockfd', 'root')
    P, cg = ctx.prog, ctx.cg
    LA = LockAnalysis(P, cg)
    # ------------------------------------------------ guarded-by
    n_acc = 0
    for f, i in LA.field_accesses("Oomd::Stats::stats_"):
        if f.kind in ("ctor", "dtor") and f.cls == "Oomd::Stats":
            continue
        n_acc += 1
        ctx.use(f)
        w = access_is_write(f, i, "Oomd::Stats::stats_")
        h0 = LA.held(f, i)
        h = effective_locks(h0, w)
        ctx.check(STATS_MUTEX in h, "stats_-under-stats_mutex_:" + short(f), "guarded_by(lockset, reader/writer modes)", f.loc(i),
                  "stats_ is %s with stats_mutex_ held%s" % ("written" if w else "read", "" if w else " (shared or exclusive)"),
                  "stats_ is %s without %sstats_mutex_ (held here: %s): a concurrent increment can be lost or the "
                  "map read while it rehashes" % ("written" if w else "read", "exclusive " if w else "", sorted(x.split("::")[-1] for x in h0) or "none"))
    # writes through iterators / references into the map count as writes of the map
    for f in P.fns.values():
        for i in alias_write_nodes(f, "Oomd::Stats::stats_"):
            n_acc += 1
            ctx.use(f)
            h0 = LA.held(f, i)
            ctx.check(STATS_MUTEX in effective_locks(h0, True), "stats_-element-written-under-exclusive-lock:%s@%d" % (short(f), f.nodes[i].get("line", 0)),
                      "guarded_by(lockset, reader/writer modes, iterator aliases)", f.loc(i), "an element of stats_ is modified through an iterator/reference with stats_mutex_ held exclusively",
                      "an element of stats_ is modified through an iterator/reference while stats_mutex_ is held only in %s mode: two threads "
                      "incrementing the same counter lose updates" % ("shared" if any(x.endswith("#shared") for x in h0) else "no"))
    ctx.counters["stats_map_accesses"] = n_acc
    ctx.floor("stats_map_accesses", 4, "accesses of Stats::stats_")
    for q in ("getAll", "increment", "set", "reset"):
        f = ctx.fn1("Oomd::Stats::" + q)
        gv = LA.guard_vars(f)
        ctx.check(len(gv) == 1 and list(gv.values())[0][1] in ((STATS_MUTEX,) if q != "getAll" else (STATS_MUTEX, STATS_MUTEX + "#shared")), "one-critical-section:Stats::" + q, "lock-shape", f.loc(),
                  q + " is a single critical section on stats_mutex_", q + " takes %d guards" % len(gv))
    n_tc = 0
    for f, i in LA.field_accesses("Oomd::Stats::thread_count_"):
        par = f.parent.get(i)
        is_write = False
        for a in [par] if par is not None else []:
            an = f.nodes[a]
            if an["k"] == "un" and an["op"] in ("++", "--"):
                is_write = True
            if an["k"] == "bin" and an["op"] in ("=", "+=", "-=") and f.strip(an["l"]) == i:
                is_write = True
            if an["k"] == "call" and an.get("op") in ("++", "--", "=", "+=", "-=") and f.strip(an.get("recv", -1)) == i:
                is_write = True
        if f.kind == "ctor":
            continue
        n_tc += 1
        ctx.use(f)
        h = LA.held(f, i)
        owner = f
        while owner.kind == "lambda" and owner.d.get("parentfn") in P.fns:
            owner = P.fns[owner.d["parentfn"]]
        ctx.check(THREAD_MUTEX in h, "thread_count_-under-thread_mutex_:%s:%s" % (short(owner), "write" if is_write else "read"),
                  "guarded_by(lockset)", f.loc(i), "thread_count_ is %s with thread_mutex_ held" % ("modified" if is_write else "read"),
                  "thread_count_ is %s without thread_mutex_: the destructor's wait can miss the change" % ("modified" if is_write else "read"))
    ctx.counters["thread_count_accesses"] = n_tc
    ctx.floor("thread_count_accesses", 3, "accesses of thread_count_")
    # atomics
    sc = P.classes.get("Oomd::Stats", {})
    fld = {x["name"]: x for x in sc.get("fields", [])}
    ctx.check("std::atomic<bool>" in fld.get("statsThreadRunning_", {}).get("type", ""), "stop-flag-atomic", "type", "oomd/Stats.h",
              "the stop flag shared between destructor and acceptor is atomic", "statsThreadRunning_ is not atomic")

    # ------------------------------------------------ lock order
    edges = LA.order_edges()
    mine = {k: v for k, v in edges.items() if "Stats::" in k[0] or "Stats::" in k[1]}
    cyc = LA.cycle(edges)
    ctx.check(cyc is None, "lock-order-acyclic", "lock-order", "-", "lock-order graph is acyclic (%d edges)" % len(edges),
              "lock-order cycle: " + " -> ".join(cyc or []), [edges[(a, b)] for a, b in zip((cyc or [])[:-1], (cyc or [])[1:]) if (a, b) in edges])
    ctx.tables["lock_order_edges"] = {"%s -> %s" % k: v for k, v in sorted(edges.items())}

    # ------------------------------------------------ handler accounting
    rs = ctx.fn1("Oomd::Stats::runSocket")
    pm = ctx.fn1("Oomd::Stats::processMsg")
    inc = [i for f, i in LA.field_accesses("Oomd::Stats::thread_count_") if f is rs]
    thr = [i for i in rs.calls("std::thread::thread") if any(rs.nodes[x]["k"] == "lambda" for x in rs.walk(i))]
    frs = Flow(P, rs, events={rs.parent[i]: [("set", "counted")] for i in inc if i in rs.parent}, cg=cg)
    ctx.counters["handler_thread_creations"] = len(thr)
    ctx.floor("handler_thread_creations", 1, "handler thread creation in runSocket")
    for t in thr:
        ctx.check(frs.must(t, "counted"), "slot-taken-before-handler-starts", "must_precede", rs.loc(t),
                  "thread_count_ is incremented before the handler thread exists",
                  "a handler thread can start (and finish) before it was counted")
    # ... and a slot that was taken is handed to a handler: between the increment and the end of that iteration of the accept loop (or
    # a return) the handler thread is created - the handler's scope guard is the only thing that gives the slot back.  A connection
    # that is counted and then refused leaks its slot: ~Stats waits for the count to reach 0, times out and aborts.
    acc_l = [l for l in loops(rs) if l["stmt"] is not None and any(rs.pos_of(i) is not None and (rs.pos_of(i)[0] in l["body"] or l["stmt"] in list(rs.ancestors(i))) for i in rs.calls("accept", "accept4"))]
    if len(acc_l) == 1 and inc and thr:
        evs = {}
        for i in inc:
            if i in rs.parent and rs.pos_of(rs.parent[i]) is not None:
                par = rs.nodes[rs.parent[i]]
                dec = par.get("op") in ("--", "-=")
                evs.setdefault(rs.parent[i], []).append(("clear", "slot-held") if dec else ("set", "slot-held"))
        for t in thr:
            evs.setdefault(t, []).append(("clear", "slot-held"))
        fsl = iter_flow(ctx, rs, acc_l[0], evs)
        leaks = []
        for b in back_sources(acc_l[0]):
            for st_ in (fsl.OUT.get(b) or {}).values():
                if "slot-held" in st_.may:
                    leaks.append("end of an iteration (block %s)" % b)
        for kind, node, b, parts in fsl.exits():
            if kind in ("return", "fallthrough") and any("slot-held" in st_.may for st_ in parts.values()):
                leaks.append(rs.loc(node) if node is not None else "end of function")
        ctx.check(not leaks, "slot-taken-is-handed-to-a-handler", "per-iteration must_follow (set/clear tokens)", rs.loc(acc_l[0]["stmt"]),
                  "every counted connection gets its handler thread in the same iteration",
                  "runSocket can count a connection (thread_count_ incremented) and finish the iteration without creating its handler thread (%s): nobody gives that "
                  "slot back, so the count never returns to 0 - ~Stats() times out after 5 s and aborts, and a slot limit fills up for good" % "; ".join(sorted(set(leaks))[:3]))
    else:
        ctx.broken("slot-taken-is-handed-to-a-handler", "anchor", rs.loc(), "expected one accept loop with the slot increment and the handler thread creation in runSocket")
    # the decrement: in processMsg itself or in its scope-exit closure
    dec_nodes = []      # (function, node)
    for f, i in LA.field_accesses("Oomd::Stats::thread_count_"):
        owner = f
        while owner.kind == "lambda" and owner.d.get("parentfn") in P.fns:
            owner = P.fns[owner.d["parentfn"]]
        if owner is pm:
            dec_nodes.append((f, i))
    ctx.counters["handler_decrements"] = len(dec_nodes)
    ev = {}
    for f, i in dec_nodes:
        if f is pm:
            ev.setdefault(pm.parent.get(i, i), []).append(("set", "released"))
    # scope guards of processMsg whose closure decrements: the guard's destructor elements release
    guard_release = {}
    for e_ in cg.out.get(pm.usr, ()):
        if e_.kind == "scope-exit" and any(f.usr == e_.dst for f, _ in dec_nodes):
            guard_release[e_.node[1:]] = e_.dst
            ev.setdefault(e_.node[1:], []).append(("set", "released"))
    closers = {}
    for e_ in cg.out.get(pm.usr, ()):
        if e_.kind == "scope-exit" and P.fns[e_.dst].calls("close"):
            ev.setdefault(e_.node[1:], []).append(("set", "closed"))
            closers[e_.node[1:]] = e_.dst
    for i in pm.calls("close"):
        ev.setdefault(i, []).append(("set", "closed"))
    # the reply sinks: whatever sends bytes on the connection's descriptor (helpers of Util included)
    wr = [i for i in pm.calls("Util::writeFull", "Util::sendFull", "write", "writev", "send", "sendto", "sendmsg")
          if pm.nodes[i].get("args") and plain(pm.nodes[i].get("callee", "")) in
          ("Oomd::Util::writeFull", "Oomd::Util::sendFull", "Util::writeFull", "Util::sendFull", "write", "writev", "send", "sendto", "sendmsg")]
    for i in wr:
        ev.setdefault(i, []).append(("set", "replied"))
    fpm = Flow(P, pm, events=ev, cg=cg)
    bad_rel, bad_close = [], []
    for kind, node, b, parts in fpm.exits():
        if kind not in ("return", "fallthrough"):
            continue
        where = pm.loc(node) if node is not None else "end of function"
        if not all("released" in st.must for st in parts.values()):
            bad_rel.append(where)
        if not all("closed" in st.must for st in parts.values()):
            bad_close.append(where)
    ctx.check(not bad_rel and bool(dec_nodes), "slot-released-on-every-exit:processMsg", "must_follow", pm.loc(),
              "every exit of processMsg decrements thread_count_",
              "processMsg can leave without decrementing thread_count_ (%s): the destructor waits 5 s and aborts" % ", ".join(bad_rel or ["no decrement at all"]))
    ctx.check(not bad_close, "connection-closed-on-every-exit:processMsg", "must_follow", pm.loc(),
              "every exit of processMsg closes the connection", "processMsg can leave without closing the socket at " + ", ".join(bad_close))
    # the decrement is followed by a notification
    for f, i in dec_nodes:
        nts = f.calls("notify_one", "notify_all")
        fl_ = Flow(P, f, events={f.parent.get(i, i): [("set", "dec")]}, cg=cg)
        ok = bool(nts) and all(fl_.must(n_, "dec") for n_ in nts)
        exits_ok = True
        fl2 = Flow(P, f, events={n_: [("set", "notified")] for n_ in nts}, cg=cg)
        for kind, node, b, parts in fl2.exits():
            if kind in ("return", "fallthrough") and not all("notified" in st.must for st in parts.values()):
                exits_ok = False
        ctx.check(ok and exits_ok, "release-notifies-waiter", "must_follow", f.loc(i),
                  "the decrement is followed by thread_exited_.notify", "the destructor is not notified after the decrement")
    for i in wr:
        ctx.check(not fpm.may(i, "replied"), "at-most-one-reply", "at_most_once", pm.loc(i), "one reply per connection at most",
                  "a second reply can be written on the same connection")
        ctx.check(pm.text(pm.nodes[i]["args"][0]) == "sockfd", "reply-on-this-connection", "provenance", pm.loc(i), "reply goes to the connection's fd",
                  "reply written to " + pm.text(pm.nodes[i]["args"][0]))
    ctx.counters["reply_sites"] = len(wr)
    ctx.floor("reply_sites", 1, "reply write in processMsg")
    # ... and writing it cannot kill the daemon: a client that disconnected before the reply makes write(2)/send(2) raise SIGPIPE, whose
    # default action terminates the process.  Every raw system call a reply sink reaches is a send-family call carrying MSG_NOSIGNAL,
    # unless SIGPIPE is ignored process-wide before the service starts.
    ignored = _sigpipe_ignored(P, cg)
    for i in wr:
        raws = _raw_senders(P, cg, pm, i)
        bad = ["%s at %s" % (nm, where) for nm, where, nosig in raws if not nosig]
        if not raws:
            ctx.broken("reply-cannot-raise-SIGPIPE", "interprocedural", pm.loc(i), "cannot find the system call behind the reply sink " + pm.text(i)[:60])
            continue
        ctx.check(ignored or not bad, "reply-cannot-raise-SIGPIPE", "effect (interprocedural, callable parameters followed)", pm.loc(i),
                  "the reply is sent with MSG_NOSIGNAL (or SIGPIPE is ignored): a client that is gone cannot terminate the daemon",
                  "the reply reaches %s without MSG_NOSIGNAL and SIGPIPE is left at its default: a client that sends its request and disconnects "
                  "before the reply is written terminates the daemon with SIGPIPE" % ", ".join(bad))

    # ------------------------------------------------ protocol table (switch or if-chain on the first request byte)
    full = Flow(P, pm, cg=cg)
    G, R, Z = ord("g"), ord("r"), ord("0")

    def in_case(g, c):
        return any(k == "mode" and p == "case:%d" % c for k, p in g)

    def unknown(g):
        return any(k == "mode" and p == "default" for k, p in g) or all(any(k == "mode" and p == "not:%d" % c for k, p in g) for c in (G, R, Z))
    sw = [i for i in pm.all("switch")]
    if sw:
        cb = {}
        for b_ in pm.cfg:
            l = b_.get("label")
            if l and l["k"] == "case":
                cb[l.get("val")] = b_["id"]
            elif l and l["k"] == "default":
                cb["default"] = b_["id"]
        ctx.check(set(cb) == {G, R, Z, "default"}, "protocol:cases", "switch_table", pm.loc(),
                  "request switch has exactly the cases g, r, 0 and default", "request switch has cases %s" % sorted(map(str, cb)))
        ctx.check(len(sw) == 1 and pm.text(pm.nodes[sw[0]]["c"]) == "mode", "protocol:scrutinee", "switch_table", pm.loc(), "switch on the first request byte",
                  "switch scrutinee is not 'mode'")
    else:
        tested = set()
        for b_ in pm.cfg:
            for j in range(len(b_["succ"])):
                for k, p in full.edge_facts(b_["id"], j):
                    if k == "mode" and isinstance(p, str) and p.startswith("case:"):
                        tested.add(p[5:])
        ctx.check(tested == {str(G), str(R), str(Z)}, "protocol:cases", "switch_table", pm.loc(), "the first request byte is compared with exactly g, r and 0",
                  "the first request byte is compared with %s" % sorted(tested))
        ctx.ok("protocol:scrutinee", "switch_table", pm.loc(), "if-chain on the first request byte")
    for i in pm.calls("Stats::getAll"):
        ctx.check(in_case(full.guards(i), G), "protocol:g-reads-all", "switch_table", pm.loc(i), "'g' returns all counters", "getAll outside case 'g'")
    for i in pm.calls("Stats::reset"):
        ctx.check(in_case(full.guards(i), R), "protocol:r-resets", "switch_table", pm.loc(i), "'r' resets", "reset outside case 'r'")
    errw = [i for i, n in enumerate(pm.nodes) if n["k"] == "call" and n.get("op") == "=" and "recv" in n and 'root["error"]' in pm.text(n["recv"]).replace("root.operator[]", "root[")
            or (n["k"] == "call" and n.get("op") == "=" and "recv" in n and "error" in pm.text(n["recv"]) and "root" in pm.text(n["recv"]))]
    e1 = [i for i in errw if pm.text(pm.nodes[i]["args"][0]).endswith("1)") or pm.text(pm.nodes[i]["args"][0]) in ("1", "Json::Value(1)")]
    ctx.check(len(e1) == 1 and unknown(full.guards(e1[0])), "protocol:unknown-is-error-1", "switch_table",
              pm.loc(e1[0]) if e1 else pm.loc(), "unknown requests get error 1 (and only they)", "error 1 is not tied to 'none of g, r, 0'")
    # mode is the first byte read
    for w in local_writes(pm, "mode"):
        g = full.guards(w)
        ctx.check(pm.text(write_rhs(pm, w)) == "byte_buf" and any(k in ("(0 == num_read)", "(num_read == 0)") and p is True for k, p in g),
                  "protocol:mode-is-first-byte", "guarded_by", pm.loc(w), "the request type is the first byte", "mode assigned under %s" % sorted(g, key=str))
    # bounded read
    ls = [l for l in loops(pm) if l["stmt"] is not None and pm.nodes[l["stmt"]]["k"] in ("for", "while") and "num_read" in loop_header(pm, l)]
    okb = len(ls) == 1 and re.search(r"\(num_read < (\d+)\)", loop_header(pm, ls[0])) is not None
    bound = int(re.search(r"\(num_read < (\d+)\)", loop_header(pm, ls[0])).group(1)) if okb else None
    if len(ls) == 1 and not okb:
        # the bound as a named constant: `num_read < kMax` with kMax folded by the front end
        cnd = pm.nodes[ls[0]["stmt"]].get("c")
        cn_ = pm.nodes[pm.strip(cnd)] if isinstance(cnd, int) and cnd >= 0 else {}
        if cn_.get("k") == "bin" and cn_.get("op") == "<" and pm.text(cn_["l"]) == "num_read":
            rn_ = pm.nodes[pm.strip(cn_["r"])]
            if "cval" in rn_ or (rn_["k"] == "lit" and str(rn_.get("v", "")).isdigit()):
                bound = int(rn_.get("cval", rn_.get("v")))
                okb = True
    reads = pm.calls("read")
    if not ls:
        ctx.broken("bounded-read", "anchor", pm.loc(), "no read loop counted by num_read found in processMsg itself (moved into a helper?): the rules on the request read loop cannot be evaluated")
    else:
      ctx.check(okb and bound is not None and bound <= 32 and len(reads) == 1 and pm.text(pm.nodes[reads[0]]["args"][2]) == "1"
              and pm.text(pm.nodes[reads[0]]["args"][1]) == "&byte_buf", "bounded-read", "loop-shape", pm.loc(ls[0]["stmt"]) if ls else pm.loc(),
              "at most %s one-byte reads per connection" % bound, "read loop is not a bounded sequence of one-byte reads")

    # the command is the FIRST byte the client sent: the position counter moves only past bytes that were received.  An iteration that
    # read nothing (failed read, retried) and still goes round through the loop's increment makes the handler ignore the command byte.
    if ls and reads:
        Lr = ls[0]
        rd_local = locals_receiving(pm, r"\bread\(")
        fail_keys = set()
        for nm_ in rd_local:
            fail_keys |= {"(%s < 0)" % nm_, "(-1 == %s)" % nm_, "(%s == -1)" % nm_, "(0 > %s)" % nm_, "(%s <= 0)" % nm_}
        # a later read on the same path (an inner retry loop) or a compensating decrement of the counter makes up for it
        ev_r = {i: [("clear", "nothing-read")] for i in reads}
        for i, n in enumerate(pm.nodes):
            if (n["k"] == "un" and n.get("op") == "--" and pm.text(n["sub"]) == "num_read") or \
               (n["k"] == "bin" and n.get("op") == "-=" and pm.text(n["l"]) == "num_read"):
                ev_r.setdefault(i, []).append(("clear", "nothing-read"))
        fr = iter_flow(ctx, pm, Lr, ev_r, split=lambda k: k in fail_keys,
                       edge_tokens=lambda k, p: ["nothing-read"] if (k in fail_keys and p is True) else None)
        again = False
        for b in back_sources(Lr):
            for st_ in (fr.OUT.get(b) or {}).values():
                if "nothing-read" in st_.may:
                    again = True
        ctx.check(not again and bool(rd_local), "command-is-the-first-byte-received", "passed_edge (per iteration)", pm.loc(Lr["stmt"]),
                  "every iteration that goes round again has received a byte",
                  "an iteration whose read failed goes round again through the loop's position counter (a retry written as `continue`): the "
                  "next byte - the client's command - is no longer the one at position 0 and is ignored, the request is answered as unknown")

    # ------------------------------------------------ a stalled client cannot wedge a handler: the full-read/write helper retries only EINTR
    # (the 2 s SO_RCVTIMEO / SO_SNDTIMEO surface as EAGAIN; retrying it would defeat the time-outs)
    wf = [f for f in P.fns.values() if f.name == "wrapFull"]
    ctx.counters["wrapFull_instances"] = len(wf)
    ctx.floor("wrapFull_instances", 2, "instantiations of Util's wrapFull (read, write)")
    for k_, f in enumerate(sorted(wf, key=lambda x: x.usr)):
        ctx.use(f)
        ls_ = loops(f)
        if len(ls_) != 1:
            ctx.broken("io-retries-only-EINTR:%d" % k_, "anchor", f.loc(), "expected one retry loop in wrapFull")
            continue
        Lw = ls_[0]
        fw = iter_flow(ctx, f, Lw, {}, split=lambda k: k in ("(-1 == r)", "(r == -1)", "(r < 0)"),
                       edge_tokens=lambda k, p: ["failed"] if (k in ("(-1 == r)", "(r == -1)", "(r < 0)") and p is True) else
                       (["eintr"] if (re.match(r"^\((\*__errno_location\(\) == 4|4 == \*__errno_location\(\))\)$", k) and p is True) else None))
        bad = False
        seen_fail = False
        for b in back_sources(Lw):
            for st_ in (fw.OUT.get(b) or {}).values():
                if "failed" in st_.may:
                    seen_fail = True
                    if "eintr" not in st_.must:
                        bad = True
        failing_exit = any(any("failed" in st_.may for st_ in e[3].values()) for e in fw.exits() if e[0] == "return")
        ctx.check(not bad and failing_exit, "io-retries-only-EINTR:" + ("write" if any("const char" in (p_.get("type") or "") for p_ in f.params) else "read"), "passed_edge (per iteration)", f.loc(Lw["stmt"]),
                  "a failed read/write is retried only for EINTR; every other error (EAGAIN from the socket time-outs included) ends the transfer",
                  "wrapFull goes round again after a failed call for an error other than EINTR: a client that stops reading (or writing) keeps its "
                  "handler thread, its descriptor and its slot for ever, and ~Stats() runs into its 5 s abort")
    # ... and the callable wrapFull is handed performs ONE attempt: no loop of its own around the system call (a private retry of
    # EAGAIN / EWOULDBLOCK inside the closure defeats the rule above just as well)
    n_cl = 0
    for f in sorted(P.fns.values(), key=lambda x: x.usr):
        if not f.file.startswith("oomd/") or f.file.endswith("Test.cpp") or not f.calls("wrapFull", "Util::wrapFull"):
            continue
        for lam in P.lambdas_in(f):
            sysc = lam.calls("read", "write", "send", "recv", "sendto", "recvfrom", "sendmsg", "recvmsg", "pread", "pwrite")
            if not sysc:
                continue
            n_cl += 1
            ctx.use(lam)
            lp = loops(lam)
            ctx.check(not lp and len(sysc) == 1, "io-retries-only-EINTR:callable:%s" % short(f), "loop-free callable", lam.loc(lp[0]["stmt"]) if lp and lp[0].get("stmt") is not None else lam.loc(),
                      "the transfer callable of %s makes one attempt per call" % f.pq,
                      "the callable %s hands to wrapFull loops around (or repeats) its system call: errors wrapFull would end the transfer for - EAGAIN from the "
                      "2 s socket time-outs - are retried inside it, so a client that stops reading keeps its handler thread for ever" % f.pq)
    ctx.counters["wrapFull_callables"] = n_cl
    ctx.floor("wrapFull_callables", 1, "closures handed to wrapFull (the MSG_NOSIGNAL send)")
    # the time-outs themselves are installed on every accepted connection before the handler starts
    rsk = ctx.fn1("Oomd::Stats::runSocket")
    so = [i for i in rsk.calls("setsockopt")]
    opts = sorted(rsk.text(rsk.nodes[i]["args"][2]) for i in so if len(rsk.nodes[i].get("args", [])) >= 3)
    ctx.check(any("20" == o or "SO_RCVTIMEO" in o for o in opts) and any("21" == o or "SO_SNDTIMEO" in o for o in opts) and len(so) >= 2, "socket-timeouts-installed", "call-site", rsk.loc(),
              "receive and send time-outs are set on accepted connections", "SO_RCVTIMEO / SO_SNDTIMEO are not both set: " + str(opts))
    # ... and they are valid: a timeval with tv_usec >= 1 000 000 makes setsockopt fail with EDOM, and the result is not looked at
    for i in so:
        a = rsk.nodes[i]["args"]
        if len(a) < 5:
            continue
        src = rsk.text(a[3])
        tv = None
        for _hop in range(3):
            m = re.search(r"&(\w+)", src)
            if m:
                init_, v_ = local_init(rsk, m.group(1), must=False)
                if v_ is not None and init_ is not None and init_ >= 0:
                    tv = rsk.nodes[rsk.strip(init_)]
                break
            m2 = re.match(r"^(\w+)$", src.strip())
            if not m2:
                break
            init_, v_ = local_init(rsk, m2.group(1), must=False)
            if v_ is None or init_ is None or init_ < 0:
                break
            src = rsk.text(init_)
        lits = None
        if tv is not None and tv["k"] == "initlist" and len(tv.get("kids", [])) == 2:
            ks = [rsk.nodes[rsk.strip(k)] for k in tv["kids"]]
            if all(k["k"] == "lit" and re.match(r"^\d+$", str(k.get("v", ""))) for k in ks):
                lits = [int(k["v"]) for k in ks]
        par = rsk.parent.get(i)
        tested = par is not None and rsk.nodes[par]["k"] not in ("compound",)
        valid = lits is not None and lits[0] + lits[1] > 0 and 0 <= lits[1] < 1000000
        ctx.check(valid or tested, "socket-timeout-value-valid@%d" % rsk.nodes[i].get("line", 0), "constant evaluation / error discipline", rsk.loc(i),
                  "the time-out is a literal timeval with tv_usec < 1000000 (or the setsockopt result is tested)",
                  "the timeval handed to setsockopt (%s) is not a literal {sec, usec < 1000000} and the call's result is dropped: an invalid value "
                  "(tv_usec >= 1000000 -> EDOM) silently leaves accepted connections without any time-out" % (
                      [rsk.text(k) for k in tv["kids"]] if tv is not None and tv.get("kids") else src[:60]))
    # ------------------------------------------------ reset keeps keys
    rsf = ctx.fn1("Oomd::Stats::reset")
    muts = []
    for i in rsf.calls():
        n = rsf.nodes[i]
        if "recv" in n and rsf.text(n["recv"]) == "this->stats_" and not n.get("cconst") and n.get("cname") not in ("begin", "end"):
            muts.append((i, n.get("cname")))
    ok = all(nm == "operator[]" for _, nm in muts) and bool(muts)
    X = Expander(P, rsf)
    for i, nm in muts:
        ok = ok and X(rsf.nodes[i]["args"][0]) in ("elem(this->stats_).first", "elem(this->stats_)->first", "(*elem(this->stats_)).first")
    zero = [i for i, n in enumerate(rsf.nodes) if n["k"] == "bin" and n["op"] == "=" and "stats_[" in rsf.text(n["l"])]
    ok = ok and all(rsf.text(rsf.nodes[z]["r"]) == "0" for z in zero) and bool(zero)
    if not muts and not zero:
        # iterator spelling: for (auto it = stats_.begin(); ...; ++it) it->second = 0;
        aw_ = alias_write_nodes(rsf, "Oomd::Stats::stats_")
        ok = bool(aw_) and all(rsf.nodes[a_]["k"] == "bin" and rsf.nodes[a_].get("op") == "=" and rsf.text(rsf.nodes[a_]["r"]) == "0" and
                               rsf.text(rsf.nodes[a_]["l"]).endswith("->second") for a_ in aw_)
    if not muts and not zero and not ok:
        # algorithm spelling: std::for_each(stats_.begin(), stats_.end(), [](auto& kv) { kv.second = 0; })
        fe = [i for i in rsf.calls() if re.search(r"\bfor_each\b", rsf.nodes[i].get("callee") or rsf.nodes[i].get("cname") or "") and len(rsf.nodes[i].get("args", [])) == 3 and
              rsf.text(rsf.nodes[i]["args"][0]) == "this->stats_.begin()" and rsf.text(rsf.nodes[i]["args"][1]) == "this->stats_.end()"]
        if len(fe) == 1:
            lam = P.closure_fn(rsf.nodes[rsf.strip(rsf.nodes[fe[0]]["args"][2])].get("lusr"))
            if lam is not None and len(lam.params) == 1:
                pn_ = lam.params[0]["name"]
                ws_ = [n_ for n_ in lam.nodes if n_["k"] in ("bin", "call") and n_.get("op") in ("=", "+=", "-=", "++", "--")]
                ok = len(ws_) == 1 and ws_[0]["k"] == "bin" and ws_[0]["op"] == "=" and lam.text(ws_[0]["l"]) == pn_ + ".second" and lam.text(ws_[0]["r"]) == "0" \
                    and not [c_ for c_ in lam.calls() if not lam.nodes[c_].get("cconst") and "op" not in lam.nodes[c_]]
    if not muts and not zero and not ok:
        # range-for over the map by mutable reference: `for (auto& kv : stats_) kv.second = 0;` / `for (auto& [key, value] : stats_) value = 0;`
        rls = [l for l in loops(rsf) if l.get("stmt") is not None and rsf.nodes[l["stmt"]]["k"] == "rangefor" and rsf.text(rsf.nodes[l["stmt"]]["range"]) == "this->stats_"]
        if len(rls) == 1:
            lv = rsf.nodes[rls[0]["stmt"]].get("loopvar", -1)
            vars_ = rsf.nodes[lv].get("vars", []) if lv is not None and lv >= 0 else []
            targets = set()
            for v_ in vars_:
                if v_.get("isref") and not (v_.get("type") or "").startswith("const "):
                    targets.add(v_["name"] + ".second")
                    b_ = [x.split("@")[0] for x in v_.get("bindings", [])]
                    if len(b_) == 2:
                        targets.add(b_[1])
            ws_ = [n_ for n_ in rsf.nodes if n_["k"] in ("bin", "call", "un") and n_.get("op") in ("=", "+=", "-=", "++", "--", "*=", "|=", "&=")
                   and not rsf.text(n_.get("l", n_.get("recv", n_.get("sub", -1)))).startswith("__")]        # (the range-for's own ++__begin)
            ok = bool(targets) and bool(ws_) and all(n_["k"] == "bin" and n_["op"] == "=" and rsf.text(n_["l"]) in targets and rsf.text(n_["r"]) == "0" for n_ in ws_)
    ctx.check(ok, "reset-zeroes-existing-keys", "value-shape", rsf.loc(), "reset assigns 0 to every key it iterates and nothing else",
              "reset mutates the map otherwise: " + str([(nm, X(rsf.nodes[i]["args"][0]) if rsf.nodes[i].get("args") else "") for i, nm in muts]))

    # ------------------------------------------------ startSocket / constructor / init
    ss = ctx.fn1("Oomd::Stats::startSocket")
    fss = Flow(P, ss, cg=cg)
    fails = 0
    for r in returns(ss):
        t = ret_text(ss, r)
        g = fss.guards(r)
        if t == "false":
            fails += 1
        elif t == "true":
            libc_failed = [k for k, p in g if p is True and re.match(r"^\(.*(socket|bind|listen|chmod|unlink)\(.* < 0\)$", k)]
            ctx.check(not libc_failed, "startSocket:true-only-if-all-succeeded", "return_table", ss.loc(r), "true only after every step succeeded",
                      "returns true although %s" % libc_failed)
    ctx.counters["startSocket_failure_returns"] = fails
    ctx.floor("startSocket_failure_returns", 5, "failure returns in startSocket")
    for nm in ("socket", "bind", "listen", "chmod"):
        for i in ss.calls(nm):
            # the call's failure is tested: a fact '<call> < 0' exists on some return false
            tested = any(any(re.search(r"\b%s\(" % nm, k) for k, p in fss.guards(r)) for r in returns(ss) if ret_text(ss, r) == "false") or \
                any(nm == "socket" and "sockfd_" in k for r in returns(ss) for k, p in fss.guards(r))
            ctx.check(tested, "startSocket:%s-failure-checked" % nm, "return_table", ss.loc(i), nm + "() failure leads to return false", nm + "() result is not checked")
    ctor = [f for f in P.fns.values() if f.pq == "Oomd::Stats::Stats" and f.kind == "ctor"]
    for f in ctor:
        ctx.use(f)
        fl_ = Flow(P, f, cg=cg)
        th = list(f.all("throw"))
        ctx.check(len(th) == 1 and has_fact(fl_.guards(th[0]), False, "this->startSocket()") and "runtime_error" in f.nodes[th[0]].get("ttype", ""),
                  "ctor-throws-runtime_error-on-failure", "guarded_by", f.loc(), "a failed start becomes std::runtime_error", "constructor does not turn a failed start into std::runtime_error")
    E = Escape(P, cg)
    ini = ctx.fn1("Oomd::Stats::init")
    esc = E.from_root(ini, classes={"explicit"})
    ctx.check(not esc, "init-reports-failure", "E-ESCAPE", ini.loc(), "Stats::init turns a failed start into 'false'",
              "an exception escapes Stats::init: " + (esc[0][0].what if esc else ""))

    # ------------------------------------------------ server and client agree on the socket path: both use the text they were given.
    # ~Stats wakes its accept thread by connecting a StatsClient to its own stats_socket_path_; a client (or server) that rewrites the
    # path (normalises "..", resolves, trims) can end up at another file system object than the one the server bound - the wake-up
    # connect fails, its error is ignored, and join() waits for ever: shutdown does not complete.
    n_path = 0
    for f in sorted(P.fns.values(), key=lambda x: x.usr):
        if f.kind != "ctor" or f.pq not in ("Oomd::StatsClient::StatsClient", "Oomd::Stats::Stats") or not f.params:
            continue
        for ini in f.d.get("inits", []):
            if not ini.get("written") or "n" not in ini or not ini.get("field", "").endswith("::stats_socket_path_"):
                continue
            n_path += 1
            ctx.use(f)
            t = re.sub(r"^std::move\((.*)\)$", r"\1", f.text(ini["n"]))
            ctx.check(t in [p_["name"] for p_ in f.params], "socket-path-used-as-given:" + short(f), "provenance (constructor initialiser)", f.loc(),
                      "stats_socket_path_ is the path the constructor was given",
                      "%s stores '%s' instead of the path it was given: server and client no longer name the same socket for every spelling (a lexically "
                      "folded 'link/..' is another directory when 'link' is a symlink), so the wake-up connection ~Stats makes to its own path can fail "
                      "and the destructor's join() never returns" % (short(f), t[:90]))
    ctx.counters["socket_path_inits"] = n_path
    ctx.floor("socket_path_inits", 2, "constructor initialisers of stats_socket_path_ (Stats, StatsClient)")
    dt_ = ctx.fn1("Oomd::Stats::~Stats")
    wk_ = [i for i in dt_.all("construct") if "StatsClient" in (dt_.nodes[i].get("type") or "")] + [i for i in dt_.calls("StatsClient") if i not in dt_.all("construct")]
    wk_args = [dt_.text(a) for i in wk_ for a in dt_.nodes[i].get("args", [])]
    if not wk_:
        ctx.broken("wake-up-client-uses-own-path", "anchor", dt_.loc(), "no StatsClient constructed in ~Stats (the wake-up of the accept thread)")
    else:
        ctx.check(any("stats_socket_path_" in a for a in wk_args), "wake-up-client-uses-own-path", "provenance", dt_.loc(wk_[0]),
                  "the destructor wakes the accept thread through a client for its own socket path", "the wake-up client is built from " + str(wk_args)[:100])
    # ------------------------------------------------ bounded copies into sun_path
    n_cp = 0
    for f in P.fns.values():
        for i in f.calls("strcpy", "strcat", "sprintf", "memcpy", "stpcpy", "strncpy", "strlcpy", "snprintf", "memmove", "std::copy", "copy"):
            dst = f.text(f.nodes[i]["args"][0])
            if "sun_path" not in dst:
                continue
            n_cp += 1
            ctx.use(f)
            fl_ = Flow(P, f, cg=cg)
            g = fl_.guards(i)
            srcobj = f.text(f.nodes[i]["args"][1]).replace(".c_str()", "")
            bounded = any(((re.match(r"^\(%s\.(size|length)\(\) < sizeof\(.*sun_path.*\)\)$" % re.escape(srcobj), k) and p is True)) for k, p in g)
            ctx.check(bounded, "bounded-copy:sun_path:" + short(f), "bounded_copy", f.loc(i),
                      "the copy into sun_path is dominated by source.size() < sizeof(sun_path) (strictly: the terminating NUL fits)",
                      "%s into the fixed-size sun_path is not dominated by source.size() < sizeof(sun_path): an over-long socket path overruns the "
                      "address, and a path of exactly sizeof(sun_path) bytes is left without a terminating NUL although unlink/connect/logging use "
                      "it as a C string (server and client then also disagree on which lengths are valid)" % f.nodes[i].get("cname"), witness_path(f, fl_, i))
    ctx.counters["sun_path_copies"] = n_cp
    ctx.floor("sun_path_copies", 2, "copies into sockaddr_un::sun_path (server and client)")

    # ------------------------------------------------ destructor order
    dt = [f for f in P.fns.values() if f.pq == "Oomd::Stats::~Stats"]
    for f in dt:
        ctx.use(f)
        stop = [i for i in field_writes(f, "statsThreadRunning_")]
        wake = f.calls("StatsClient::closeSocket")
        wait = f.calls("wait_for", "wait")
        join = f.calls("join")
        unl = f.calls("unlink")
        cls = f.calls("close")
        seq = [("stop", stop), ("wake", wake), ("wait", wait), ("join", join), ("unlink", unl), ("close", cls)]
        ev = {}
        for nm, ns in seq:
            for n_ in ns:
                ev.setdefault(n_, []).append(("set", nm))
        fl_ = Flow(P, f, events=ev, cg=cg)
        ok = all(ns for _, ns in seq)
        for k in range(1, len(seq)):
            for n_ in seq[k][1]:
                if not fl_.must(n_, seq[k - 1][0]) and seq[k - 1][0] != "join":
                    ok = False
                if seq[k - 1][0] == "join" and not fl_.must(n_, "wait"):
                    ok = False
        ctx.check(ok, "destructor-order", "order", f.loc(), "stop flag, wake-up connection, wait for handlers, join, unlink, close - in that order",
                  "destructor steps are missing or out of order: " + str([(nm, len(ns)) for nm, ns in seq]))
    ctx.counters["destructors"] = len(dt)
    ctx.floor("destructors", 1, "Stats destructor")

    # ------------------------------------------------ the wake-up client gives up
    # 'Shutting the service down always completes': ~Stats wakes its accept thread through a StatsClient request and then joins, so the
    # request has to end in bounded time also when nobody answers - every step of StatsClient::msgSocket is made once, under the 2 s
    # socket timeouts, and a failure is returned.  A step repeated while it fails (connect retried on EAGAIN: a full listen backlog that
    # nothing drains any more never clears) keeps the destructor in the client for ever.
    for q in ("Oomd::StatsClient::msgSocket",):
        f = ctx.use(ctx.fn1(q))
        steps = f.calls("connect", "socket", "Util::writeFull", "send")
        ctx.count("client_request_steps", len(steps))
        inl = {}
        for l in loops(f):
            for nd in body_nodes(f, l):
                for w in f.walk(nd):
                    inl.setdefault(w, l)
        for i in steps:
            l = inl.get(i)
            ctx.check(l is None, "client-request-makes-one-attempt:%s@%d" % (f.nodes[i].get("cname"), f.nodes[i].get("line", 0)), "no_cycle (call site)", f.loc(i),
                      "the step is made once", "StatsClient::msgSocket makes %s inside a loop (%s): a step that keeps failing - connect with EAGAIN on a listen "
                      "backlog nobody drains during shutdown - is repeated without bound, and ~Stats, which sends its wake-up request through this client "
                      "before joining the accept thread, never returns" % (f.text(i)[:60], f.loc(l["stmt"]) if l and l.get("stmt") is not None else "loop"))
        for l in loops(f):
            st = l.get("stmt")
            c = f.nodes[st].get("c") if st is not None else None
            ct = f.text(c) if c is not None else ""
            ctx.check("errno" not in ct and "__errno_location" not in ct, "client-request-makes-one-attempt:loop@%d" % (f.nodes[st].get("line", 0) if st is not None else 0),
                      "loop condition", f.loc(st) if st is not None else f.loc(), "no loop of the request continues on an error code",
                      "StatsClient::msgSocket loops while %s: the request repeats a failing step instead of returning the failure, without bound" % ct[:100])
    ctx.floor("client_request_steps", 3, "socket/connect/write steps in StatsClient::msgSocket")

    # ------------------------------------------------ service threads cannot die of an exception
    for t_usr, creator, node in cg.thread_roots:
        if "Stats::" not in creator.pq:
            continue
        t = P.fns[t_usr]
        ctx.use(t)
        ctx.count("stats_thread_roots")
        esc = E.from_root(t, classes={"explicit", "absent", "text", "strpos", "assert", "fs"})
        ctx.check(not esc, "thread-cannot-throw:" + short(creator), "E-ESCAPE", t.loc(), "no throw site escapes the thread started in " + creator.pq,
                  "an exception can escape the thread started in %s (std::terminate): %s" % (creator.pq, "; ".join("%s at %s" % (s.what, s.loc()) for s, _ in esc[:3])),
                  esc[0][1] if esc else None)
    ctx.floor("stats_thread_roots", 2, "thread roots in Stats (acceptor, handler)")
    # generic audit: every field of Stats shared between threads (also ones added later) has one common lock
    cd = {f.usr for f in P.fns.values() if f.kind in ("ctor", "dtor") and f.cls == "Oomd::Stats"}
    LA2 = LockAnalysis(P, cg, ignore_callers=cd)
    roots = {}
    for t_usr, creator, node in cg.thread_roots:
        if "Stats::" in creator.pq:
            roots[creator.pq.split("::")[-1]] = t_usr
    shared_fields_rule(ctx, LA2, ["Oomd::Stats"], roots, self_concurrent=list(roots), floor=1)
