"""C15 Cgroup statistics: per-tick caching, refresh, identity, reader agreement (DESIGN 4/C15)."""
import re
from .common import *
from ..misc import erase_in_iteration

EXPLANATION = (
    "Decides only the last sentence of the statement plus reader sibling agreement, for all trees and "
    "histories: every cached accessor of CgroupContext computes its field only while the per-tick cache "
    "slot is empty, stores the result in that slot and returns the slot (so a value cannot change within "
    "a tick); CgroupContext::refresh archives exactly the three temporal inputs, then clears the cache, "
    "then reports validity of the held directory fd; the new archive reads nothing of the old one (one-"
    "tick memory) and copies the three cache slots verbatim; the temporal getters combine only the archive and "
    "current accessors; OomdContext::refresh drops exactly the contexts whose refresh() is false without "
    "touching an invalidated iterator; the main loop refreshes the context on every tick path; a new "
    "context starts with an empty archive and takes its identity from the inode of its own held fd; all "
    "readers of 'max'-grammar files delegate to one parser; the d_type and fstatat branches of "
    "readDirFromDIR agree; the three effective-swap statistics are folds over the ancestor chain "
    "(every non-root value is min/max of the parent's effective value and the local one, one audited "
    "local answer for swap.max = 0); io.stat keys are scanned into the fields of the same name, the io "
    "cost adds the six counter x matching-coefficient products with the coefficients of the device's type; PSI tokens feed the fields of the same meaning in "
    "both formats (token position, checked key name, field position), 'some'/'full' select line 0/1.  Parsing exactness and every formula (protection distribution, effective "
    "swap, io cost, EWMA, deltas) are numeric and not decided - that is most of the property.")
RULE_SUMMARY = "sibling rule over the 29 cached accessors, E-PATH order in refresh, value shape of temporal getters, erase-in-iteration, must-follow in the tick, reader delegation"
NOT_DECIDED = ["parsing exactness of every reader", "memory protection distribution", "effective swap max/free/utilisation as numbers (their recursion scheme is decided)", "io cost as a number (its three tables - scan keys, counter/coefficient pairing, device type - are decided)",
               "moving-average and per-tick delta recurrences as values"]
ASSUMPTIONS = ["an inode number identifies a cgroup directory for as long as a descriptor to it is held"]


SWAP_SCHEME = (  # getter, accessor used on the parent, combiner, this level's own term
    ("getEffectiveSwapMax", "effective_swap_max", "std::min", r"\*this->swap_max\(param:err\)"),
    ("getEffectiveSwapFree", "effective_swap_free", "std::min", r"\(\*this->swap_max\(param:err\) - \*this->swap_usage\(param:err\)\)"),
    ("getEffectiveSwapUtilPct", "effective_swap_util_pct", "std::max", r"\(\*this->swap_usage\(param:err\) / \*this->swap_max\(param:err\)\)"),
)
# local-only results that are intended (reason)
SWAP_LOCAL_OK = {("getEffectiveSwapUtilPct", "0", "(*swap_max_opt == 0)"): "a cgroup that cannot swap (swap.max = 0) reports 0 % by definition (CgroupContextTest.EffectiveSwapUtilPct)"}


def _parent_accessors(P):
    """names of CgroupContext member functions whose every non-null return is the address of the context the per-tick cache holds for
    this cgroup's parent: &ctx_.addToCacheAndGet(cgroup_.getParent())->get()"""
    cache = P.__dict__.setdefault("_parent_accessors", None)
    if cache is not None:
        return cache
    out = []
    for h in P.fns.values():
        if h.cls != "Oomd::CgroupContext" or h.kind != "method" or not h.cfg or "CgroupContext" not in (h.d.get("ret") or "") or "*" not in (h.d.get("ret") or ""):
            continue
        X = Expander(P, h)
        vals = [X(h.nodes[r]["val"]) for r in returns(h) if "val" in h.nodes[r]]
        vals = [v for v in vals if v not in ("nullptr", "0")]
        if vals and all(v in ("&this->ctx_.addToCacheAndGet(this->cgroup_.getParent())->get()", "&*this->ctx_.addToCacheAndGet(this->cgroup_.getParent())->get()",
                              "&this->ctx_.addToCacheAndGet(this->cgroup_.getParent()).value().get()") for v in vals):
            out.append(h.name)
    P.__dict__["_parent_accessors"] = out
    return out


def _parent_lookup_helpers(P):
    """(name, position of the OomdContext argument, position of the CgroupPath argument) of free / static helpers whose every value return
    is <ctx argument>.addToCacheAndGet(<cgroup argument>.getParent()) - the optional handle of the parent's cached context."""
    cache = P.__dict__.setdefault("_parent_lookup_helpers", None)
    if cache is not None:
        return cache
    out = []
    for h in P.fns.values():
        if not h.file.startswith("oomd/") or h.kind not in ("function", "method") or not h.cfg or "optional" not in (h.d.get("ret") or "") or len(h.params) < 2:
            continue
        X = Expander(P, h)
        vals = [X(h.nodes[r]["val"]) for r in returns(h) if "val" in h.nodes[r]]
        vals = [v for v in vals if v not in ("std::nullopt", "{}")]
        if not vals:
            continue
        m = [re.match(r"^param:(\w+)\.addToCacheAndGet\(param:(\w+)(\.getParent\(\))?\)$", v) for v in vals]
        if all(m) and len({(x.group(1), x.group(2), x.group(3)) for x in m}) == 1:
            names = [p_["name"] for p_ in h.params]
            if m[0].group(1) in names and m[0].group(2) in names:
                # (the helper may take the cgroup and ask for its parent itself, or be handed the parent's path)
                out.append((h.name, names.index(m[0].group(1)), names.index(m[0].group(2)), bool(m[0].group(3))))
    P.__dict__["_parent_lookup_helpers"] = out
    return out


def _subst_parent_lookup(P, t):
    for name, ic, ig, asks_parent in _parent_lookup_helpers(P):
        def rep(mm):
            args = [a.strip() for a in re.split(r",\s*(?![^()]*\))", mm.group(1))]
            if max(ic, ig) >= len(args):
                return mm.group(0)
            return "%s.addToCacheAndGet(%s%s)" % (args[ic], args[ig], ".getParent()" if asks_parent else "")
        t = re.sub(r"(?:\b[\w:]*::)?\b%s\(((?:[^()]|\([^()]*\))*)\)" % re.escape(name), rep, t)
    return t


def effective_swap_scheme(ctx):
    """The three 'effective' swap statistics are folds over the ancestor chain: for a non-root cgroup every value returned is
    combine(parent's effective value, local value) - no path may answer from the local level alone."""
    P, cg = ctx.prog, ctx.cg
    n = 0
    for getter, acc, comb, local_rx in SWAP_SCHEME:
        f = ctx.fn1("Oomd::CgroupContext::" + getter)
        ctx.use(f)
        fl = Flow(P, f, cg=cg)
        X = Expander(P, f)
        folds = 0
        for r in returns(f):
            if "val" not in f.nodes[r]:
                continue
            t = _subst_parent_lookup(P, X(f.nodes[r]["val"]))
            g = fl.guards(r)
            if any(k == "this->cgroup_.isRoot()" and p is True for k, p in g):
                continue            # the root's own value (system-wide numbers)
            if t in ("std::nullopt", "{}"):
                continue
            n += 1
            parent = "*this->ctx_.addToCacheAndGet(this->cgroup_.getParent())->get().%s(param:err)" % acc
            # the same parent reached through a member helper that hands out exactly that context (or null)
            for hn in _parent_accessors(P):
                for pre, suf in (("*", ""), ("", ".value()")):
                    alt = "%sthis->%s(param:err)->%s(param:err)%s" % (pre, hn, acc, suf)
                    if alt in t:
                        t = t.replace(alt, parent)
            t = t.replace("this->ctx_.addToCacheAndGet(this->cgroup_.getParent())->get().%s(param:err).value()" % acc, parent)
            if t.startswith(comb + "(") and parent in t:
                folds += 1
                rest = t[len(comb) + 1:-1].replace(parent, "", 1).strip(", ")
                ctx.check(re.match("^" + local_rx + "$", rest) is not None, "swap-fold:%s@%d" % (getter, f.nodes[r].get("line", 0)), "recursion scheme (sibling agreement)", f.loc(r),
                          "%s(parent's %s, this level's own value)" % (comb, acc),
                          "%s combines the parent's %s with '%s', which is not this level's own value (own swap.max / swap.current only): limits or usage of "
                          "another level leak into this level's term" % (getter, acc, rest[:90]))
                continue
            okl = [why for (gg, val, cond), why in SWAP_LOCAL_OK.items() if gg == getter and val == t and any(k == cond and p is True for k, p in g)]
            ctx.check(bool(okl), "swap-fold:%s@%d" % (getter, f.nodes[r].get("line", 0)), "recursion scheme (sibling agreement)", f.loc(r),
                      okl[0] if okl else "", "%s returns '%s' for a non-root cgroup without combining it with the parent's %s: an ancestor that is closer to its "
                      "limit (because of sibling cgroups) is ignored, the statistic is no longer the %s over the ancestor chain" % (getter, t[:70], acc, comb[5:]))
        seen_rets = "; ".join(X(f.nodes[r]["val"])[:90] for r in returns(f) if "val" in f.nodes[r])
        ctx.check(folds >= 1, "swap-fold-present:" + getter, "recursion scheme (sibling agreement)", f.loc(), "%s folds over the ancestors" % getter,
                  "%s has no %s(parent, local) return (it returns: %s)" % (getter, comb, seen_rets))
    ctx.counters["swap_scheme_returns"] = n
    ctx.floor("swap_scheme_returns", 3, "value returns of the three effective-swap getters")


IO_PAIRS = {"rios": "read_iops", "rbytes": "readbw", "wios": "write_iops", "wbytes": "writebw", "dios": "trim_iops", "dbytes": "trimbw"}


def io_cost_tables(ctx):
    """io cost = dot product of the six io.stat counters with the six coefficients of the device's type: the three tables that
    have to agree (scanf keys / destination fields, counter / coefficient pairing, device type / coefficient set)."""
    P, cg = ctx.prog, ctx.cg
    rd = ctx.fn1("Oomd::Fs::readIostatAt")
    sc = [i for i in rd.calls("sscanf") if len(rd.nodes[i].get("args", [])) >= 3]
    ctx.counters["iostat_scanf_sites"] = len(sc)
    ctx.floor("iostat_scanf_sites", 1, "sscanf of an io.stat line")
    for i in sc:
        a = [rd.text(x) for x in rd.nodes[i]["args"]]
        keys = re.findall(r"(\w+)=%", a[1])
        dests = [re.sub(r"^&\w+\.", "", x) for x in a[2:] if "." in x]
        ctx.check(keys == dests and len(keys) == 6 and set(keys) == set(IO_PAIRS), "iostat:key-goes-to-its-field", "table agreement (format keys / destinations)", rd.loc(i),
                  "every io.stat key is scanned into the field of the same name: " + " ".join(keys),
                  "io.stat keys %s are scanned into fields %s" % (keys, dests))
        n_conv = len(re.findall(r"%[a-z]*d", a[1]))
        fl = Flow(P, rd, cg=cg)
        tests = [k for b in rd.cfg for j in range(len(b["succ"])) for k, p in fl.edge_facts(b["id"], j) if re.match(r"^\((ret != %d|%d != ret|%d == ret|ret == %d)\)$" % ((n_conv,) * 4), k)]
        if not tests:
            # the count as a named constant: `ret != kIoStatFields`, folded by the front end
            rn_ = locals_receiving(rd, r"sscanf\(")
            for x, nn in enumerate(rd.nodes):
                if nn["k"] == "bin" and nn.get("op") in ("!=", "==") and rd.pos_of(x) is not None:
                    lt, rt = rd.text(nn["l"]), rd.text(nn["r"])
                    if (lt in rn_ and const_int(rd, nn["r"]) == n_conv) or (rt in rn_ and const_int(rd, nn["l"]) == n_conv):
                        tests.append(rd.text(x))
        ctx.check(bool(tests), "iostat:all-conversions-required", "guard-shape", rd.loc(i), "a line counts only if all %d conversions succeeded" % n_conv,
                  "the scanf result is not compared with the number of conversions (%d)" % n_conv)
    gc = ctx.fn1("Oomd::CgroupContext::getIoCostCumulative")
    Xg = Expander(P, gc)
    # the cost is a sum of per-device dot products: the raw 64-bit counters of DIFFERENT devices are never added to each other before
    # the (floating) coefficients are applied - that sum can overflow int64 and rounds differently from the documented per-device formula
    folded = []
    for i, n in enumerate(gc.nodes):
        tgt = None
        if n["k"] == "call" and n.get("op") in ("+=", "=") and "recv" in n and n.get("op") == "+=":
            tgt = n["recv"]
        elif n["k"] == "bin" and n.get("op") == "+=":
            ln = gc.nodes[gc.strip(n["l"])]
            tgt = ln.get("base") if ln["k"] == "member" else None
        if tgt is None:
            continue
        tn = gc.nodes[gc.strip(tgt)]
        if tn.get("k") == "ref" and tn.get("dk") == "local" and "DeviceIOStat" in (tn.get("type") or ""):
            folded.append((i, tn["name"]))
    ctx.check(not folded, "io-cost:counters-stay-per-device", "effect (accumulation type)", gc.loc(folded[0][0]) if folded else gc.loc(),
              "no DeviceIOStat accumulator: coefficients are applied to each device's own counters",
              "getIoCostCumulative adds the raw counters of several devices into '%s' before the coefficients are applied: the integer sum of two devices of "
              "one class can overflow int64 (a cgroup that did MORE I/O reports a negative cost) and (a1+a2)*c rounds differently from a1*c + a2*c"
              % (folded[0][1] if folded else ""))
    if folded:
        return
    # the accumulator: the floating local that is returned and `+=`-ed (whatever it is called)
    acc = sorted({gc.text(n["l"]) for n in gc.nodes if n["k"] == "bin" and n.get("op") == "+=" and re.match(r"^\w+$", gc.text(n["l"]))} &
                 {ret_text(gc, r) for r in returns(gc)})
    if len(acc) != 1:
        raise AnalysisBroken("anchor: getIoCostCumulative accumulates the cost in %d locals %s; the dot-product rule needs exactly one" % (len(acc), acc))
    sums = [i for i, n in enumerate(gc.nodes) if n["k"] == "bin" and n.get("op") == "+=" and gc.text(n["l"]) == acc[0] and gc.pos_of(i) is not None]
    ctx.counters["io_cost_accumulations"] = len(sums)
    ctx.floor("io_cost_accumulations", 1, "cost += ... in getIoCostCumulative")
    def dot_terms(g_, node, depth=0):
        """[(field, field)] of a sum of member-times-member products (following a new one-expression helper), or None"""
        i_ = g_.strip(node)
        n_ = g_.nodes[i_]
        if n_["k"] == "bin" and n_.get("op") == "+":
            l_, r_ = dot_terms(g_, n_["l"], depth), dot_terms(g_, n_["r"], depth)
            return None if l_ is None or r_ is None else l_ + r_
        if n_["k"] == "bin" and n_.get("op") == "*":
            a_, b_ = g_.nodes[g_.strip(n_["l"])], g_.nodes[g_.strip(n_["r"])]
            if a_["k"] == "member" and b_["k"] == "member":
                return [(a_["name"], b_["name"])]
            return None
        if n_["k"] == "call" and depth < 2:
            h_ = Xg._new_pure_helper(n_)
            if h_ is not None:
                return dot_terms(h_, next(m for m in h_.nodes if m["k"] == "return")["val"], depth + 1)
        return None
    for i in sums:
        terms = dot_terms(gc, gc.nodes[i]["r"])
        pairs = {}
        for f1, f2 in terms or []:
            if f1 in IO_PAIRS:
                pairs[f1] = f2
            elif f2 in IO_PAIRS:
                pairs[f2] = f1
        ctx.check(terms is not None and pairs == IO_PAIRS and len(terms) == 6, "io-cost:counter-times-its-coefficient", "table agreement (dot product)", gc.loc(i),
                  "the cost adds the six products counter x matching coefficient", "the cost is %s (pairs %s)" % (Xg(gc.nodes[i]["r"])[:160], pairs))
    # device type -> coefficient set: assignments (or returns) of a coefficient set under the case facts of the device type, in the
    # function or in a closure of it
    seen = {}
    for g_ in [gc] + list(P.lambdas_in(gc)):
        fg = Flow(P, g_, cg=cg)
        for w, n_ in enumerate(g_.nodes):
            if g_.pos_of(w) is None:
                continue
            rhs = None
            if n_["k"] in ("bin", "call") and n_.get("op") == "=" and re.search(r"_coeffs$", g_.text(n_["r"]) if "r" in n_ else (g_.text(n_["args"][0]) if n_.get("args") else "")):
                rhs = g_.text(n_["r"]) if "r" in n_ else g_.text(n_["args"][0])
            elif n_["k"] == "return" and "val" in n_ and re.search(r"_coeffs$", g_.text(n_["val"])):
                rhs = g_.text(n_["val"])
            if rhs is None:
                continue
            case = [p[5:] for k, p in fg.guards(w) if isinstance(p, str) and p.startswith("case:")]
            seen[case[0] if case else "?"] = rhs.split(".")[-1].split(">")[-1]
    ctx.check(seen == {"SSD": "ssd_coeffs", "HDD": "hdd_coeffs"}, "io-cost:coefficients-of-the-device-type", "switch_table", gc.loc(),
              "SSD devices use ssd_coeffs, HDD devices hdd_coeffs", "device type -> coefficients is %s" % seen)


def psi_tables(ctx):
    """PSI parsing: which token feeds which field (both formats), which line is read for some/full."""
    P, cg = ctx.prog, ctx.cg
    f = ctx.fn1("Oomd::Fs::readRespressureFromLines")
    ctx.anchor(f, "toks", "pressure_line_index", "type_name")
    fl = Flow(P, f, cg=cg)
    X = Expander(P, f)
    rp = P.classes.get("Oomd::ResourcePressure", {})
    ctx.check([x["name"] for x in rp.get("fields", [])] == ["sec_10", "sec_60", "sec_300", "total"], "psi:struct-field-order", "type", "oomd/include/Types.h",
              "ResourcePressure is {sec_10, sec_60, sec_300, total}", "ResourcePressure fields are " + str([x["name"] for x in rp.get("fields", [])]))
    lines = {}
    for w in local_writes(f, "pressure_line_index"):
        case = [p[5:] for k, p in fl.guards(w) if isinstance(p, str) and p.startswith("case:")]
        lines[case[0] if case else "?"] = f.text(write_rhs(f, w))
    if not lines:
        # single-expression spelling: pressure_line_index = (type == FULL) ? 1 : 0
        init_, v_ = local_init(f, "pressure_line_index", must=False)
        t_ = f.text(init_) if v_ is not None and init_ is not None and init_ >= 0 else ""
        if re.match(r"^\(\(type == Oomd::Fs::PressureType::FULL\) \? 1 : 0\)$", t_) or re.match(r"^\(\(type == Oomd::Fs::PressureType::SOME\) \? 0 : 1\)$", t_):
            lines = {"SOME": "0", "FULL": "1"}
        else:
            lines = {"?": t_}
    # the default + override spelling: `idx = 0; if (type == FULL) idx = 1;` (the enumeration has exactly these two values)
    init0_, v0_ = local_init(f, "pressure_line_index", must=False)
    t0_ = f.text(init0_) if v0_ is not None and init0_ is not None and init0_ >= 0 else None
    if lines == {"FULL": "1"} and t0_ == "0":
        lines = {"SOME": "0", "FULL": "1"}
    elif lines == {"SOME": "0"} and t0_ == "1":
        lines = {"SOME": "0", "FULL": "1"}
    ctx.check(lines == {"SOME": "0", "FULL": "1"}, "psi:line-of-type", "switch_table", f.loc(), "'some' is the first line, 'full' the second", "line selection is %s" % lines)
    KEYS = ["avg10", "avg60", "avg300", "total"]
    n = 0
    for r in returns(f):
        g = fl.guards(r)
        fmt = [p[5:] for k, p in g if isinstance(p, str) and p.startswith("case:") and "getPsiFormat" in k]
        v = f.nodes[f.strip(f.nodes[r]["val"])] if "val" in f.nodes[r] else {}
        il = None
        for x in f.walk(f.nodes[r]["val"]) if "val" in f.nodes[r] else []:
            if f.nodes[x]["k"] == "initlist" and len(f.nodes[x].get("kids", [])) == 4:
                il = f.nodes[x]
                break
        if il is None:
            continue
        n += 1
        # the record is returned as parsed: directly, or through a helper every return of which hands its argument back unchanged
        top = f.nodes[f.strip(f.nodes[r]["val"])]
        wrapped_ok, wrapper = True, None
        cur = top
        while cur["k"] in ("construct", "cast") and len(cur.get("args", cur.get("kids", []))) == 1:
            cur = f.nodes[f.strip((cur.get("args") or cur.get("kids"))[0])]
        if cur["k"] == "call" and cur.get("cusr"):
            hs = [P.fns[u] for u in P.resolve(cur["cusr"]) if u in P.fns and P.fns[u].file.startswith("oomd/")]
            if hs and len({(h_.pq, h_.line) for h_ in hs}) == 1 and len(hs[0].params) == 1:
                wrapper = hs[0]
                hv = [Expander(P, wrapper)(wrapper.nodes[r_]["val"]) for r_ in returns(wrapper) if "val" in wrapper.nodes[r_]]
                wrapped_ok = bool(hv) and all(re.match(r"^(Oomd::SystemMaybe\()?param:%s\)?$" % re.escape(wrapper.params[0]["name"]), t_) for t_ in hv)
        ctx.check(wrapped_ok, "psi:record-returned-as-parsed@%d" % f.nodes[r].get("line", 0), "provenance (helpers followed)", f.loc(r),
                  "a record that parsed is the statistic (no value-based rejection or rewriting on the way out)",
                  "the parsed pressure record goes through %s, which does not always hand it back (some return of it is an error or another value): a valid "
                  "reading - e.g. an average of exactly 100.00 - makes the statistic unavailable, and plugins fall back to 0 for that cgroup" % (wrapper.pq if wrapper else "?"))
        els = [f.text(k) for k in il["kids"]]
        if fmt == ["UPSTREAM"]:
            ok, why = True, []
            for pos, (e, key) in enumerate(zip(els, KEYS)):
                m = re.search(r"sto\w+\(\*?(\w+)\[1\]", e)
                if not m:
                    ok = False
                    why.append("field %d is %s" % (pos, e[:40]))
                    continue
                var = m.group(1)
                init, vv = local_init(f, var, must=False)
                src = X(init) if vv is not None else "?"
                if not re.match(r"^Oomd::Util::split\(var:toks(@\d+)?\[%d\], 61\)$|^Oomd::Util::split\(Oomd::Util::split\(.*\)\[%d\], 61\)$" % (pos + 1, pos + 1), src):
                    ok = False
                    why.append("%s comes from %s (expected token %d)" % (var, src[:60], pos + 1))
                def expand_key(k_):
                    def sub(m_):
                        i2, v2 = local_init(f, m_.group(1), must=False)
                        return (X(i2) if v2 is not None and i2 is not None and i2 >= 0 else m_.group(1)) + "[0]"
                    return re.sub(r"\b([A-Za-z_]\w*)\[0\]", sub, k_)
                tested = any(p is True and expand_key(k) in ('("%s" == %s[0])' % (key, src), '(%s[0] == "%s")' % (src, key)) for k, p in g if isinstance(k, str))
                if not tested:
                    ok = False
                    why.append("no test %s[0] == \"%s\" dominates" % (var, key))
            ctx.check(ok, "psi:upstream-token-to-field", "table agreement (token / key / field)", f.loc(r),
                      "avg10/avg60/avg300/total are tokens 1-4, each checked by name, and fill sec_10/sec_60/sec_300/total in that order", "; ".join(why))
            ctx.check(any(p is True and re.match(r"^\(toks(@\d+)?\[0\] == type_name\)$|^\(type_name == toks(@\d+)?\[0\]\)$", k) for k, p in g), "psi:upstream-line-label-checked", "guarded_by", f.loc(r),
                      "the line's label (some/full) is checked", "the some/full label is not checked")
        elif fmt == ["EXPERIMENTAL"]:
            want = [r"^std::stof\(toks(@\d+)?\[%d\]" % k for k in (1, 2, 3)]
            ctx.check(all(re.match(w_, e) for w_, e in zip(want, els[:3])) and els[3] == "std::nullopt", "psi:experimental-token-to-field", "table agreement (token / field)", f.loc(r),
                      "tokens 1-3 fill sec_10/sec_60/sec_300, no total", "fields are %s" % els)
            toks_init = [X(v_["init"]) for d_ in f.all("decl") for v_ in f.nodes[d_].get("vars", []) if v_["name"] == "toks" and "init" in v_ and f.pos_of(d_) is not None and
                         any(isinstance(p, str) and p == "case:EXPERIMENTAL" for k, p in fl.guards(d_))]
            ctx.check(toks_init and all("(var:pressure_line_index + 1)" in t or "pressure_line_index + 1" in t or
                                        re.search(r"\[\(\(\(param:type == Oomd::Fs::PressureType::FULL\) \? 1 : 0\) \+ 1\)\]", t) for t in toks_init), "psi:experimental-skips-aggr-line", "value-shape", f.loc(r),
                      "the experimental format has one leading 'aggr' line", "experimental line index is %s" % toks_init)
    ctx.counters["psi_value_returns"] = n
    ctx.floor("psi_value_returns", 2, "value returns of readRespressureFromLines (upstream, experimental)")


def refresh_keeps_nothing(ctx):
    """'A new tick re-reads everything': after CgroupContext::refresh has emptied the per-tick cache nothing is written back into it
    (shared with C03: kill preference marks set between two ticks take effect on the next one)."""
    P, cg = ctx.prog, ctx.cg
    rf = ctx.fn1("Oomd::CgroupContext::refresh")
    from ..callgraph import node_writes
    clear = [i for i, nn in enumerate(rf.nodes) if nn["k"] in ("bin", "call") and nn.get("op") == "=" and rf.pos_of(i) is not None and
             rf.text(nn.get("l", nn.get("recv", -1))).replace("->", "").replace("this", "") in ("*data_",)]
    fl = Flow(P, rf, events={c: [("set", "cleared")] for c in clear}, cg=cg)
    late = []
    for i, nn in enumerate(rf.nodes):
        if rf.pos_of(i) is None or i in clear:
            continue
        if nn["k"] in ("bin", "call", "un") and any(t == "F:Oomd::CgroupContext::data_" or t.startswith("F:Oomd::CgroupContext::CgroupData::") for t in node_writes(rf, i)):
            if fl.may(i, "cleared"):
                late.append(i)
        elif nn["k"] == "bin" and nn.get("op", "").endswith("=") and "data_" in rf.text(nn["l"]) and fl.may(i, "cleared"):
            late.append(i)
    # ... and nothing the accessors remember lives anywhere else: between two ticks a CgroupContext method (the accessors are const, a
    # `mutable` member gets round that) writes only the per-tick cache data_, which refresh() empties - refresh itself also the archive.
    # A flag kept beside data_ ("this file was missing") is never reset: one tick without io.pressure, and the cgroup's io pressure
    # reads as unavailable (0 for the detectors) for as long as the context lives.
    n_m = 0
    for g_ in sorted(P.fns.values(), key=lambda x: (x.file, x.line, x.usr)):
        owner_ = g_
        while owner_.kind == "lambda" and owner_.d.get("parentfn") in P.fns:
            owner_ = P.fns[owner_.d["parentfn"]]
        if owner_.cls != "Oomd::CgroupContext" or owner_.kind in ("ctor", "dtor") or owner_.name.startswith("operator"):
            continue
        n_m += 1
        for i_ in range(len(g_.nodes)):
            if g_.nodes[i_]["k"] not in ("bin", "call", "un") or g_.pos_of(i_) is None:
                continue
            for t_ in node_writes(g_, i_):
                if not t_.startswith("F:Oomd::CgroupContext::") or t_.startswith("F:Oomd::CgroupContext::CgroupData::") or t_ == "F:Oomd::CgroupContext::data_":
                    continue
                fld_ = t_.split("::")[-1]
                ft_ = next((x_.get("type", "") for x_ in P.classes.get("Oomd::CgroupContext", {}).get("fields", []) if x_["name"] == fld_), "")
                if ft_.rstrip().endswith("&"):
                    continue          # a reference member (the owning OomdContext): what is done through it is not this object's state
                if owner_ is rf and fld_ == "archive_" or t_.startswith("F:Oomd::CgroupContext::CgroupArchivedData::") and owner_ is rf:
                    continue
                ctx.violation("context-state-is-cache-or-archive:%s:%s" % (short(owner_), fld_), "who-may-write (fields of CgroupContext)", g_.loc(i_),
                              "%s writes CgroupContext::%s, which is neither the per-tick cache (emptied by refresh) nor the archive (rewritten by refresh): what it "
                              "remembers survives every later tick - a statistic that was unavailable once stays unavailable for the lifetime of the context" % (owner_.pq, fld_))
    ctx.counters["cgroupcontext_methods"] = n_m
    ctx.floor("cgroupcontext_methods", 20, "methods of CgroupContext examined for writes outside the per-tick cache")
    ctx.check(len(clear) == 1 and not late, "refresh:nothing-survives-the-clear", "never_after", rf.loc(late[0]) if late else rf.loc(),
              "after the cache is emptied refresh writes nothing back into it: every value is read again on the new tick",
              "refresh writes '%s' into the per-tick cache after clearing it: that value is carried over from the previous tick and never re-read "
              "(e.g. a kill preference mark set or removed between two ticks is ignored)" % (rf.text(late[0])[:70] if late else "no clear found"))


WIDE_PRODUCT_OK = {
    ("Oomd::CgroupContext::effective_usage", "memory_scale"): "memory_scale is a small configuration factor (default 1), not a byte count",
}


def no_wide_products(ctx):
    """Derived statistics multiply byte counts only in floating point: an int64 x int64 product of two byte counts overflows (UB, in
    practice a negative or tiny result) from a few GiB on."""
    from ..misc import wide_products
    P = ctx.prog
    n_fn, n_ok = 0, 0
    for f in sorted(P.fns.values(), key=lambda x: (x.file, x.line)):
        if f.file not in ("oomd/CgroupContext.cpp", "oomd/OomdContext.cpp") or f.kind == "globalinit":
            continue
        n_fn += 1
        for i in wide_products(f):
            t = f.text(i)
            aud = [why for (q, frag), why in WIDE_PRODUCT_OK.items() if q == f.pq and frag in t]
            if aud:
                n_ok += 1
                ctx.ok("no-64bit-products:%s" % short(f), "E-TYPE overflow(audited)", f.loc(i), aud[0])
            else:
                ctx.violation("no-64bit-products:%s@%d" % (short(f), f.nodes[i].get("line", 0)), "E-TYPE overflow", f.loc(i),
                              "'%s' multiplies two 64-bit quantities in integer arithmetic: for byte counts of a few GiB the product exceeds 2^63 (signed overflow), "
                              "the statistic comes out negative or near zero" % t[:80])
    ctx.counters["statistics_functions_scanned_for_wide_products"] = n_fn
    ctx.floor("statistics_functions_scanned_for_wide_products", 30, "functions of CgroupContext.cpp / OomdContext.cpp")
    ctx.ok("no-64bit-products", "E-TYPE overflow", "-", "%d functions scanned, %d audited product(s)" % (n_fn, n_ok))


def rate_definitions(ctx):
    """io_cost_rate and pg_scan_rate are 'this tick's cumulative counter minus the archived one' (0 for the I/O rate when nothing is
    archived yet) - a plain difference, whatever its sign.  kill_by_io_cost and kill_by_pg_scan rank by these values and keep only
    positive ones, so a getter that turns a negative difference into something else changes who is eligible (shared by C09 and C15)."""
    P, cg = ctx.prog, ctx.cg
    def _cur(x):
        return r"(?:\*this->%s\([^()]*\)|this->%s\([^()]*\)\.value\(\))" % (x, x)

    def _arch(x):
        return r"(?:\*this->archive_\.%s|this->archive_\.%s\.value\(\))" % (x, x)
    DIFF = {"getIoCostRate": r"^\(%s - %s\)$" % (_cur("io_cost_cumulative"), _arch("io_cost_cumulative")),
            "getPgScanRate": r"^\(%s - %s\)$" % (_cur("pg_scan_cumulative"), _arch("pg_scan_cumulative"))}
    shapes = {
        "getIoCostRate": r"^\(!this->archive_\.io_cost_cumulative(\.operator bool\(\)|\.has_value\(\))? \? 0(\.0)? : %s\)$" % DIFF["getIoCostRate"][1:-1],
        "getPgScanRate": DIFF["getPgScanRate"],
    }
    for nm, rx in shapes.items():
        f = ctx.fn1("Oomd::CgroupContext::" + nm)
        Xr_ = Expander(P, f)
        rt_ = lambda r_: Xr_(f.nodes[r_]["val"]) if "val" in f.nodes[r_] else ""
        last = [rt_(r) for r in returns(f) if "archive_" in rt_(r)]
        ok_ = len(last) == 1 and re.match(rx, last[0]) is not None
        if not ok_ and len(last) == 1 and re.match(DIFF[nm], last[0]) is not None and nm == "getIoCostRate":
            # if/return spelling of the same table: the difference where an archived value exists, 0 where it does not
            ft_ = Flow(P, f, cg=cg)
            fld = "this->archive_.io_cost_cumulative"
            r_diff = [r for r in returns(f) if "archive_" in ret_text(f, r)][0]
            zero = [r for r in returns(f) if ret_text(f, r) in ("0", "0.0", "std::optional(0.0)", "std::optional(0)")]
            has = lambda g_, pol: any(p is pol and k in (fld, fld + ".has_value()", fld + ".operator bool()") for k, p in g_)
            ok_ = has(ft_.guards(r_diff), True) and len(zero) == 1 and has(ft_.guards(zero[0]), False)
        ctx.check(ok_, "temporal:" + nm, "value-shape", f.loc(), nm + " = current cumulative - archived cumulative", nm + " returns " + str(last))


def every_context_refreshed(ctx):
    """Shared by C15 and C18 (Senpai decides on the per-tick pressure / usage readings): OomdContext::refresh visits every cached context."""
    from ..misc import double_advance
    P, cg = ctx.prog, ctx.cg
    orf = ctx.fn1("Oomd::OomdContext::refresh")
    da = double_advance(P, cg, orf)
    ctx.check(not da, "context-refresh:every-context-visited", "at_most_once (iterator advance per iteration)", orf.loc(da[0][0]) if da else orf.loc(),
              "every cached context is visited: the iterator advances once per iteration (erase() already yields the next element)",
              (da[0][1] if da else "") + " - the cached cgroup after a removed one is not refreshed on that tick and keeps serving last tick's values and identity")
    # ... and a context whose own refresh() said 'this cgroup is gone' is dropped in that iteration, whatever a second opinion (a lookup
    # by PATH) says: the context is addressed by its directory handle, and a cgroup re-created under the same name is a different
    # cgroup - the stale entry would answer every read with 'unavailable' (0 for the detectors) for as long as the new cgroup lives.
    ls_ = [l for l in loops(orf) if l["stmt"] is not None]
    er_ = [i for i in orf.calls("erase") if "recv" in orf.nodes[i] and orf.text(orf.nodes[i]["recv"]).endswith("cgroups_") and orf.pos_of(i) is not None]
    if len(ls_) == 1 and er_:
        INV = lambda k: isinstance(k, str) and re.search(r"(\.|->)refresh\(\)$", k) is not None
        f0_ = Flow(P, orf, cg=cg)
        starts = [blk["succ"][j_] for blk in orf.cfg for j_ in range(len(blk["succ"])) if isinstance(blk["succ"][j_], int)
                  and any(INV(k) and p_ is False for k, p_ in f0_.edge_facts(blk["id"], j_))]
        kept = not starts
        for st0 in starts:
            # everything reachable from the 'refresh() said false' edge within this iteration passes the erase
            fi_ = Flow(P, orf, events={i: [("set", "erased")] for i in er_}, start=st0, cut=set(ls_[0]["back_edges"]), cg=cg)
            for b_ in back_sources(ls_[0]):
                for st_ in (fi_.OUT.get(b_) or {}).values():
                    if "erased" not in st_.must:
                        kept = True
            for e_ in fi_.exits():
                if e_[0] in ("return", "fallthrough") and not all("erased" in st_.must for st_ in e_[3].values()):
                    kept = True
        ctx.check(not kept, "context-refresh:invalid-context-is-dropped", "per-iteration must_follow (passed edge)", orf.loc(ls_[0]["stmt"]),
                  "an iteration in which CgroupContext::refresh() returned false erases that context",
                  "OomdContext::refresh can finish an iteration in which the context's own refresh() reported the cgroup gone WITHOUT erasing it (a second test keeps "
                  "it): the entry keeps its dead directory handle, addToCacheAndGet keeps returning it, and a cgroup re-created under that name reads as "
                  "'statistic unavailable' on every later tick")
    else:
        ctx.broken("context-refresh:invalid-context-is-dropped", "anchor", orf.loc(), "expected one loop with an erase on cgroups_ in OomdContext::refresh")


def memory_protection_scheme(ctx):
    """Shared by C09 and C15: P(cgroup) = R(cgroup) * min(1, P(parent) / sum of the siblings' R).  getMemoryProtection answers with the
    cgroup's own raw claim only where the documentation says so (the root: its usage; a top-level cgroup: P == R); every other value it
    returns comes out of normalizedProtection(), i.e. has been scaled by the siblings' sum."""
    P, cg = ctx.prog, ctx.cg
    f = ctx.fn1("Oomd::CgroupContext::getMemoryProtection")
    fl = Flow(P, f, cg=cg)
    X = Expander(P, f)
    n_norm = 0
    for r, leaf in return_leaves(f):
        t = X(leaf)
        if t in ("std::nullopt", "{}"):
            continue
        g = expanded_guards(P, f, fl, leaf, X)
        at_root = any(isinstance(k, str) and re.search(r"cgroup_\.isRoot\(\)$", k) and p is True for k, p in g)
        top_level = any(isinstance(k, str) and re.search(r"(getParent\(\)|parent\w*)\.isRoot\(\)$", k) and p is True for k, p in g)
        if at_root or top_level:
            ctx.ok("memory-protection:documented-shortcut@%d" % f.nodes[r].get("line", 0), "return_table", f.loc(r), "the root / a top-level cgroup answers with its own value")
            continue
        scaled = re.search(r"\bnormalizedProtection\(", t) is not None
        if not scaled:
            # the same formula written out in place: claim * min(1, P(parent) / sum), and 0 when the siblings claim nothing
            sums = {f.text(n_["l"]) for n_ in f.nodes if n_["k"] == "bin" and n_.get("op") == "+=" and re.match(r"^\w+$", f.text(n_["l"]))}
            for d_ in f.all("decl"):
                for v_ in f.nodes[d_].get("vars", []):
                    if v_.get("init") is not None and v_.get("init", -1) >= 0 and "std::accumulate(" in f.text(v_["init"]):
                        sums.add(v_["name"])
            if t == "0":
                scaled = any(isinstance(k, str) and p is True and (any(k in ("(0 == %s)" % s_, "(%s == 0)" % s_) for s_ in sums) or
                                                                    re.match(r"^\(0 == std::accumulate\(", k)) for k, p in g)
            else:
                scaled = "std::min(1" in t and "memory_protection(" in t and "rawProtection(" in t and \
                    (any(re.search(r"/ (var:)?%s\b" % re.escape(s_), t) for s_ in sums) or "/ std::accumulate(" in t)
        n_norm += scaled
        ctx.check(scaled, "memory-protection:scaled-by-siblings@%d" % f.nodes[r].get("line", 0), "return_table (helpers named)", f.loc(r),
                  "below the top level the protection is the claim scaled by the parent's protection over the siblings' sum",
                  "getMemoryProtection returns '%s' for a cgroup below the top level without going through normalizedProtection(): the claim is not "
                  "scaled by P(parent) / sum of the siblings' claims, so children of an over-committed parent keep their full claim and "
                  "(usage - protection) ranks them too low" % t[:80])
    ctx.check(n_norm >= 1, "memory-protection:normalised-return-present", "return_table", f.loc(), "a normalised return exists", "no return of getMemoryProtection goes through normalizedProtection()")


def cached_slot_types_agree(ctx):
    """Shared by C01, C07 and C15: what a reader returns is cached unchanged.  Every hand-over of a SystemMaybe<T> into a per-tick slot
    std::optional<U> (the PROXY accessors' helper, whatever it is called) has T == U, and the identity slot holds the full 64-bit inode
    number: on cgroup2 the low 32 bits are a recycled slot number and the high bits a generation counter, so a truncated id makes a
    re-created cgroup indistinguishable from its predecessor (the deferred-victim re-resolution and the per-cgroup history rely on it)."""
    P = ctx.prog
    n = 0
    for f in sorted(P.fns.values(), key=lambda x: x.usr):
        if f.file not in ("oomd/CgroupContext.cpp", "oomd/CgroupContext.h"):
            continue
        for i in f.calls():
            pt = f.nodes[i].get("ptypes") or []
            if len(pt) < 2:
                continue
            m1 = re.match(r"^(?:Oomd::)?SystemMaybe<(.*)>$", pt[0].replace("const ", "").strip())
            m2 = re.match(r"^std::optional<(.*)> &$", pt[1].strip())
            if not (m1 and m2):
                continue
            n += 1
            ctx.use(f)
            unq = lambda t_: re.sub(r"\b(?:\w+::)+", "", t_).replace(" ", "")
            ctx.check(unq(m1.group(1)) == unq(m2.group(1)), "cached-slot-type-agrees:%s@%d" % (short(f), f.nodes[i].get("line", 0)), "E-TYPE (reader / slot agreement)", f.loc(i),
                      "the slot holds the reader's type",
                      "%s hands a %s to a slot of type std::optional<%s>: the value is converted silently on its way into the cache (an inode number "
                      "loses its upper 32 bits - the generation counter of a re-created cgroup - a byte count its range)" % (short(f), pt[0], m2.group(1)))
    ctx.counters["cached_slot_handovers"] = n
    ctx.floor("cached_slot_handovers", 10, "reader-to-slot hand-overs in CgroupContext (PROXY accessors)")
    idf = ctx.fn1("Oomd::CgroupContext::id")
    slot = None
    for i in idf.calls():
        pt = idf.nodes[i].get("ptypes") or []
        if len(pt) >= 2 and re.match(r"^std::optional<(.*)> &$", pt[1].strip()):
            slot = re.match(r"^std::optional<(.*)> &$", pt[1].strip()).group(1)
    if slot is None:
        ctx.broken("identity-is-the-64-bit-inode", "anchor", idf.loc(), "cannot find the slot CgroupContext::id() fills")
    else:
        ctx.check(slot in ("unsigned long", "uint64_t", "unsigned long long", "ino_t", "__ino_t", "ino64_t"), "identity-is-the-64-bit-inode", "E-TYPE (declared width)", idf.loc(),
                  "the cgroup identity is the 64-bit inode number", "CgroupContext::id() caches the inode number as '%s'" % slot)



def refresh_archives_one_tick(ctx):
    """CgroupContext::refresh archives exactly the ending tick's three temporal inputs (verbatim, nothing of the old archive), then clears
    the cache, then reports validity: the rates and the moving average the ranking and the detectors use are deltas over ONE tick."""
    P, cg = ctx.prog, ctx.cg
    # ------------------------------------------------ refresh
    rf = ctx.fn1("Oomd::CgroupContext::refresh")
    aw = field_writes(rf, "archive_")
    clear = [i for i, nn in enumerate(rf.nodes) if nn["k"] in ("bin", "call") and nn.get("op") == "=" and rf.pos_of(i) is not None and
             rf.text(nn.get("l", nn.get("recv", -1))).replace("->", "") in ("*thisdata_", "*this->data_".replace("->", ""))]
    ev = {w: [("set", "archived")] for w in aw}
    ev.update({c: [("set", "cleared")] for c in clear})
    fr = Flow(P, rf, events=ev, cg=cg)
    ok = len(aw) == 1 and len(clear) == 1
    if ok:
        ok = fr.must(clear[0], "archived") and not fr.may(aw[0], "cleared")
    Xrf = Expander(P, rf)
    for r in returns(rf):
        t = Xrf(rf.nodes[r]["val"]) if "val" in rf.nodes[r] else ""
        ok = ok and fr.must(r, "cleared") and t == "Oomd::Fs::isCgroupValid(this->cgroup_dir_)"
    ctx.check(ok, "refresh:archive-then-clear-then-validate", "order", rf.loc(), "refresh archives, then clears the per-tick cache, then reports validity of the held fd",
              "refresh does not (archive, clear cache, return isCgroupValid(cgroup_dir_)) in that order")
    for w in aw:
        t = rf.text(write_rhs(rf, w)).replace("->->", "->")
        want = ["this->data_->average_usage", "this->data_->io_cost_cumulative", "this->data_->pg_scan_cumulative"]
        ctx.check(all(x in t for x in want) and t.index(want[0]) < t.index(want[1]) < t.index(want[2]), "refresh:archives-the-three-temporal-inputs", "value-shape", rf.loc(w),
                  "archive = {average_usage, io_cost_cumulative, pg_scan_cumulative} of the ending tick", "archive is built from " + t[:160])
        # one-tick memory: the new archive is a function of the ending tick's cache only (not of the old archive)
        old_reads = [x for x in rf.walk(write_rhs(rf, w)) if rf.nodes[x]["k"] == "member" and rf.nodes[x].get("qname") == "Oomd::CgroupContext::archive_"]
        ctx.check(not old_reads, "refresh:archive-has-one-tick-memory", "field-read", rf.loc(old_reads[0]) if old_reads else rf.loc(w),
                  "the new archive does not depend on the old one: rates are deltas over exactly one tick",
                  "the new archive is computed from the previous archive: a value that was not sampled in the ending tick keeps an older baseline, "
                  "so io-cost / pgscan rates can span several ticks")
        il = rf.nodes[rf.strip(write_rhs(rf, w))]
        if il["k"] == "initlist":
            got = [rf.text(k).replace("->->", "->") for k in il.get("kids", [])]
            ctx.check(got == want, "refresh:archive-fields-copied-verbatim", "value-shape", rf.loc(w), "each archive field is the cache slot of the same name, unmodified",
                      "archive fields are " + str(got)[:200])
    # designated initialiser order matches the struct
    ac = P.classes.get("Oomd::CgroupContext::CgroupArchivedData", {})
    names = [x["name"] for x in ac.get("fields", [])]
    ctx.check(names == ["average_usage", "io_cost_cumulative", "pg_scan_cumulative"], "archive-struct-fields", "type", "oomd/CgroupContext.h", "archive holds the three temporal inputs", "archive fields are " + str(names))
    # nobody else writes archive_ / clears data_
    for f in P.fns.values():
        if f is rf or f.kind == "ctor":
            continue
        for w in field_writes(f, "archive_"):
            q = f.nodes[f.strip(f.nodes[w].get("l", f.nodes[w].get("recv", -1)))].get("qname", "")
            if q == "Oomd::CgroupContext::archive_":
                ctx.violation("archive-writer:" + short(f), "who-may-write", f.loc(w), "archive_ written outside refresh()")
    ctx.ok("archive-writers", "who-may-write", rf.loc(), "archive_ is written only by refresh()")

def readers_return_values_as_parsed(ctx):
    """'Raw values (memory.current, memory.stat, cgroup.stat, io.stat, ...) parse exactly': the kernel-file readers of Fs hand out what the
    file says.  None of them passes a parsed number through std::min / std::max / std::clamp (a 'sanity' bound between two counters the
    kernel keeps separately - dying vs live descendants, say - replaces a true reading by another number), and the single-key readers
    return the map entry itself."""
    P, cg = ctx.prog, ctx.cg
    n = 0
    for f in sorted(P.fns.values(), key=lambda x: (x.file, x.line, x.usr)):
        owner = f
        while owner.kind == "lambda" and owner.d.get("parentfn") in P.fns:
            owner = P.fns[owner.d["parentfn"]]
        if f.file != "oomd/util/Fs.cpp" or not re.match(r"^Oomd::Fs::(read|get)\w+", owner.pq):
            continue
        n += 1
        for i in f.calls():
            c = plain(f.nodes[i].get("callee") or "")
            if re.match(r"^std::(min|max|clamp|abs)$", c):
                ctx.use(f)
                ctx.violation("readers-return-values-as-parsed:%s@%d" % (short(owner), f.nodes[i].get("line", 0)), "who-may-call (value-rewriting calls in the readers)", f.loc(i),
                              "%s passes what it read through %s (%s): the statistic handed out is no longer the number in the kernel file whenever the bound is "
                              "the smaller / larger one" % (owner.pq, c, f.text(i)[:70]))
    ctx.counters["fs_reader_functions"] = n
    ctx.floor("fs_reader_functions", 20, "reader functions of Fs (read* / get*)")
    g = ctx.fn1("Oomd::Fs::getNrDyingDescendantsAt")
    X = Expander(P, g)
    def unwrap(v):
        # the converting constructor of the SystemMaybe around the value returned
        for _ in range(4):
            nd = g.nodes[g.strip(v)]
            if nd["k"] == "construct" and len(nd.get("args", [])) == 1:
                v = nd["args"][0]
            elif nd["k"] == "cast" and "sub" in nd:
                v = nd["sub"]
            else:
                break
        return v
    leaves = []
    for r, leaf in return_leaves(g):
        alts = value_leaves(g, unwrap(leaf))
        # `found ? it->second : 0` - the documented 0 for a missing entry next to the entry itself
        if len(alts) > 1:
            alts = [a for a in alts if const_int(g, a) != 0] or alts
        leaves.extend((r, a) for a in alts)
    for r, leaf in leaves:
        t = X(leaf)
        if "systemError" in t or "SYSTEM_ERROR" in t or t.startswith("Oomd::systemError"):
            continue
        ctx.check(re.search(r'\[(const )?(std::[\w:]+\()?"nr_dying_descendants"|\.at\((const )?(std::[\w:]+\()?"nr_dying_descendants"|find\((const )?(std::[\w:]+\()?"nr_dying_descendants"[^)]*\)*->second', t) is not None
                  and "min(" not in t and "max(" not in t,
                  "readers-return-values-as-parsed:nr_dying_descendants@%d" % g.nodes[r].get("line", 0), "provenance (Expander)", g.loc(r),
                  "the reader returns the nr_dying_descendants entry of cgroup.stat", "getNrDyingDescendantsAt returns %s - not the nr_dying_descendants entry as parsed" % t[:400])


def archive_holds_the_slot_type(ctx):
    """'Per-tick deltas follow their recurrence': value(t) - value(t-1) uses the previous tick's value as it was - the archived copy of a
    per-tick slot (CgroupArchivedData::x, filled from CgroupData::x in refresh) has the slot's own type.  An archive field declared
    narrower or integral (optional<int64_t> for the fractional io-cost sum) converts silently in the aggregate initialisation and
    every delta is off by the truncated fraction."""
    P = ctx.prog
    live = {x["name"]: x for x in P.classes.get("Oomd::CgroupContext::CgroupData", {}).get("fields", [])}
    arch = P.classes.get("Oomd::CgroupContext::CgroupArchivedData", {}).get("fields", [])
    ctx.counters["archived_fields"] = len(arch)
    ctx.floor("archived_fields", 3, "fields of CgroupArchivedData")
    unq = lambda t_: re.sub(r"\b(?:\w+::)+", "", t_ or "").replace(" ", "")
    for x in arch:
        l = live.get(x["name"])
        if l is None:
            ctx.broken("archive-holds-the-slot-type:" + x["name"], "anchor", "oomd/CgroupContext.h:%d" % x.get("line", 0), "no per-tick slot named %s to compare the archived field with" % x["name"])
            continue
        ctx.check(unq(x["type"]) == unq(l["type"]), "archive-holds-the-slot-type:" + x["name"], "E-TYPE (slot / archive agreement)", "oomd/CgroupContext.h:%d" % x.get("line", 0),
                  "the archived field has the slot's type (%s)" % l["type"],
                  "CgroupArchivedData::%s is declared %s but the per-tick slot it is copied from is %s: the previous tick's value is converted silently when "
                  "it is archived, and the delta value(t) - value(t-1) built from it is off by what the conversion dropped" % (x["name"], x["type"], l["type"]))


def run(ctx):
    archive_holds_the_slot_type(ctx)
    readers_return_values_as_parsed(ctx)
    cached_slot_types_agree(ctx)
    memory_protection_scheme(ctx)
    borrowed_fd_not_consumed(ctx)
    iostat_line_accepted_as_parsed(ctx)
    P, cg = ctx.prog, ctx.cg
    # ------------------------------------------------ cached accessors
    n = 0
    for f in sorted(P.fns.values(), key=lambda x: x.line):
        if f.cls != "Oomd::CgroupContext" or f.kind != "method":
            continue
        pcalls = [i for i in f.calls() if f.callee(i).endswith("::proxy") or f.callee(i) == "proxy"]
        if not pcalls:
            continue
        n += 1
        ctx.use(f)
        slot = "this->data_->%s" % f.name
        # history predicate: the path to the computation took the 'slot is empty' edge
        # (the computation itself may fill slots of other contexts, which must not hide that)
        fl = Flow(P, f, cg=cg, edge_tokens=lambda k, p: ["slot-empty"] if (k.replace("->->", "->") == slot and p is False) else None)
        okc = len(pcalls) == 1
        for i in pcalls:
            a = [f.text(x) for x in f.nodes[i]["args"]]
            first = min([x for x in f.walk(i) if f.pos_of(x) is not None and f.pos_of(x)[0] == f.pos_of(i)[0]], key=lambda x: f.pos_of(x)[1])
            okc = okc and a[1].replace("->->", "->") == slot and fl.must(first, "slot-empty")
        rets = [ret_text(f, r).replace("->->", "->") for r in returns(f)]
        okr = rets == [slot]
        ctx.check(okc and okr, "cached-accessor:" + f.name, "sibling_agreement", f.loc(),
                  "%s() fills data_->%s only while it is empty and returns that slot" % (f.name, f.name),
                  "%s() does not follow the compute-once-per-tick shape (proxy args %s, returns %s)" % (
                      f.name, [[f.text(x) for x in f.nodes[i]["args"]][1:2] for i in pcalls], rets))
    ctx.counters["cached_accessors"] = n
    ctx.floor("cached_accessors", 29, "cached accessors (PROXY expansions) of CgroupContext")
    # ... and nobody else fills a slot: 'once obtained, a value does not change within the tick' needs every write of data_->X to be the
    # guarded one in X()'s own accessor.  A reader that also drops a second result into a neighbouring slot (handed over by reference, "while
    # we have the file open") overwrites a value that may already have been handed out this tick.
    from ..callgraph import node_writes as _nw
    for f in sorted(P.fns.values(), key=lambda x: (x.file, x.line, x.usr)):
        owner_ = f
        while owner_.kind == "lambda" and owner_.d.get("parentfn") in P.fns:
            owner_ = P.fns[owner_.d["parentfn"]]
        if owner_.cls != "Oomd::CgroupContext" or owner_.kind in ("ctor", "dtor") or owner_.name in ("refresh", "proxy") or owner_.name.startswith("operator"):
            continue
        is_accessor = any(owner_.callee(i).endswith("::proxy") or owner_.callee(i) == "proxy" for i in owner_.calls())
        for i in range(len(f.nodes)):
            nd = f.nodes[i]
            if nd["k"] not in ("bin", "call", "un") or f.pos_of(i) is None:
                continue
            slots = sorted(t_.split("::")[-1] for t_ in _nw(f, i) if t_.startswith("F:Oomd::CgroupContext::CgroupData::"))
            # mutable-reference hand-over of a slot to anything but proxy()
            if nd["k"] == "call" and not (f.callee(i).endswith("::proxy") or f.callee(i) == "proxy"):
                for a_, pt_ in zip(nd.get("args", []), nd.get("ptypes", [])):
                    if pt_.rstrip().endswith("&") and not pt_.lstrip().startswith("const ") and re.match(r"^this->data_->(->)?(\w+)$", f.text(a_)):
                        slots.append(re.match(r"^this->data_->(->)?(\w+)$", f.text(a_)).group(2))
            for sl_ in sorted(set(slots)):
                if is_accessor and sl_ == owner_.name:
                    continue
                ctx.violation("slot-filled-only-by-its-accessor:%s:%s" % (short(owner_), sl_), "who-may-write (per-tick slots)", f.loc(i),
                              "%s writes the per-tick slot data_->%s (%s), which only %s() may fill, once, while it is empty: a value already handed out this tick "
                              "can change under the caller's feet" % (owner_.pq, sl_, f.text(i)[:70], sl_))
    # the slot writer: proxy() assigns its `field` parameter on every path
    for f in P.fns.values():
        if f.name == "proxy" and f.file.endswith("CgroupContext.cpp"):
            ctx.use(f)
            ws = [i for i, nn in enumerate(f.nodes) if (nn["k"] == "bin" and nn["op"] == "=" and f.text(nn["l"]) == "field") or
                  (nn["k"] == "call" and nn.get("op") == "=" and "recv" in nn and f.text(nn["recv"]) == "field")]
            ws = [w for w in ws if f.pos_of(w) is not None]
            fp = Flow(P, f, events={w: [("set", "stored")] for w in ws}, cg=cg)
            ok = all(all("stored" in st.must for st in e[3].values()) for e in fp.exits() if e[0] in ("return", "fallthrough"))
            ctx.count("proxy_instances")
            ctx.check(ok and bool(ws), "proxy-stores-on-every-path:" + f.d.get("params", [{}])[0].get("type", "")[:40], "must_follow", f.loc(),
                      "proxy() stores a value (or nullopt) into the slot on every path", "proxy() can return without storing into the slot")
    ctx.floor("proxy_instances", 5, "instantiations of proxy()")

    refresh_keeps_nothing(ctx)
    no_wide_products(ctx)
    effective_swap_scheme(ctx)
    io_cost_tables(ctx)
    psi_tables(ctx)
    # prefer/avoid xattrs parse exactly: the same reader rule as C03 (prefer probed before avoid in both namespaces)
    from .C03 import kill_preference_reader
    kill_preference_reader(ctx)
    refresh_archives_one_tick(ctx)
    rf = ctx.fn1("Oomd::CgroupContext::refresh")

    # ------------------------------------------------ temporal getters
    rate_definitions(ctx)
    ga = ctx.fn1("Oomd::CgroupContext::getAverageUsage")
    txt = " ".join(ret_text(ga, r) for r in returns(ga))
    X = Expander(P, ga)
    full = " ".join(X(ga.nodes[r]["val"]) for r in returns(ga) if "val" in ga.nodes[r])
    ctx.check("this->archive_.average_usage" in full and "current_usage(" in full and "average_size_decay" in full, "temporal:getAverageUsage", "value-shape", ga.loc(),
              "moving average combines the archived average, the current usage and the decay parameter", "getAverageUsage returns " + full[:200])
    # every value the moving average hands out is the recurrence (archived average, THIS tick's usage, decay); without a usage there is no
    # average for the tick - the archive alone is last tick's value and would be archived again as if it were this tick's
    for r in returns(ga):
        if "val" not in ga.nodes[r]:
            continue
        t_ = X(ga.nodes[r]["val"])
        none_ = re.fullmatch(r"(std::optional\()?(std::nullopt|\{\}|std::nullopt_t\(.*\))\)?", t_) is not None or "nullopt" in ret_text(ga, r)
        ctx.check(none_ or ("this->archive_.average_usage" in t_ and "current_usage(" in t_ and "average_size_decay" in t_),
                  "temporal:getAverageUsage:every-value-is-the-recurrence@%d" % ga.nodes[r].get("line", 0), "return_table", ga.loc(r),
                  "returns 'unavailable' or the recurrence over this tick's usage",
                  "getAverageUsage returns %s at line %d - not 'unavailable' and not the recurrence over this tick's usage: a tick without a readable memory.current "
                  "reports the previous average as current, and refresh() archives it as this tick's value" % (t_[:80], ga.nodes[r].get("line", 0)))
    for nm in ("getIoCostRate", "getPgScanRate", "getAverageUsage"):
        f = P.fn1("Oomd::CgroupContext::" + nm)
        other = [f.text(i) for i, nn in enumerate(f.nodes) if nn["k"] == "member" and nn.get("qname", "").startswith("Oomd::CgroupContext::CgroupData::")]
        ctx.check(not other, "temporal-reads-only-archive-and-accessors:" + nm, "field-read", f.loc(), nm + " does not read cache slots directly", nm + " reads " + str(other))

    # ------------------------------------------------ OomdContext::refresh / tick
    orf = ctx.fn1("Oomd::OomdContext::refresh")
    bad = erase_in_iteration(P, orf, cg)
    ctx.check(not bad, "context-refresh:erase-safe", "erase_in_iteration", orf.loc(), "invalid contexts are erased without using an invalidated iterator", bad[0][1] if bad else "")
    every_context_refreshed(ctx)
    er = orf.calls("erase")
    rfc = orf.calls("CgroupContext::refresh")
    fo = Flow(P, orf, cg=cg)
    ok = len(er) == 1 and len(rfc) == 1
    if ok:
        g = fo.guards(er[0])
        ok = any(p is False and "refresh()" in k for k, p in g) or ok and "refresh() ?" in orf.text(orf.parent.get(er[0], er[0])) or \
            any(orf.nodes[a]["k"] == "cond" and "refresh()" in orf.text(orf.nodes[a]["c"]) and er[0] in set(orf.walk(orf.nodes[a]["f"])) for a in orf.ancestors(er[0]))
    ctx.check(ok, "context-refresh:drops-exactly-invalid", "guarded_by", orf.loc(), "a context is erased exactly when its refresh() returned false", "erase is not tied to refresh() == false")
    ls = loops(orf)
    ctx.check(len(ls) == 1 and "cgroups_.end()" in loop_header(orf, ls[0]) or (len(ls) == 1 and "end()" in orf.text(orf.nodes[ls[0]["stmt"]]["c"])), "context-refresh:all-contexts", "loop-shape", orf.loc(),
              "every cached context is refreshed", "refresh loop does not cover the whole cache")
    if ls:
        per_iter_once(ctx, orf, ls[0], rfc, "context-refresh:each-once", "CgroupContext::refresh")
    uc = ctx.fn1("Oomd::Oomd::updateContext")
    rc = uc.calls("OomdContext::refresh")
    fu = Flow(P, uc, events={i: [("set", "refreshed")] for i in rc}, cg=cg)
    okt = bool(rc) and all(all("refreshed" in st.must for st in e[3].values()) for e in fu.exits() if e[0] in ("return", "fallthrough"))
    ctx.check(okt, "tick-refreshes-context", "must_follow", uc.loc(), "every path through updateContext refreshes the context (a new tick re-reads everything)",
              "updateContext can return without ctx_.refresh(): stale values would survive the tick")
    # ------------------------------------------------ identity
    ctor = [f for f in P.fns.values() if f.pq == "Oomd::CgroupContext::CgroupContext" and f.kind == "ctor" and len(f.params) == 3]
    for f in ctor:
        ctx.use(f)
        inits = {i["field"].split("::")[-1]: f.text(i["n"]) for i in f.d.get("inits", [])}
        ctx.check("archive_" not in inits or inits["archive_"] in ("{}", "Oomd::CgroupContext::CgroupArchivedData()") or
                  re.match(r"^\{(std::optional\(\)(, )?)+\}$", inits["archive_"]) is not None, "new-context-empty-archive", "ctor-init", f.loc(),
                  "a new context starts without history", "archive_ initialised with " + inits.get("archive_", ""))
        ctx.check("std::make_unique" in inits.get("data_", ""), "new-context-fresh-cache", "ctor-init", f.loc(), "a new context gets its own cache", "data_ initialised with " + inits.get("data_", ""))
        ctx.check(inits.get("cgroup_dir_", "").replace("std::move(", "").rstrip(")") == "dirFd" or "dirFd" in inits.get("cgroup_dir_", ""), "context-holds-its-fd", "ctor-init", f.loc(),
                  "the context holds the directory fd it was created with", "cgroup_dir_ initialised with " + inits.get("cgroup_dir_", ""))
    ctx.counters["context_ctors"] = len(ctor)
    ctx.floor("context_ctors", 1, "CgroupContext constructor")
    idf = ctx.fn1("Oomd::CgroupContext::id")
    pc = [i for i in idf.calls() if idf.callee(i).endswith("proxy")]
    ctx.check(len(pc) == 1 and idf.text(idf.nodes[pc[0]]["args"][0]) == "this->cgroup_dir_.inode()", "identity-is-inode-of-held-fd", "provenance", idf.loc(),
              "the identity is the inode of the context's own held fd", "id is computed from " + (idf.text(idf.nodes[pc[0]]["args"][0]) if pc else "?"))
    mk = ctx.fn1("Oomd::CgroupContext::make")
    Xm = Expander(P, mk)
    for r in returns(mk):
        t = Xm(mk.nodes[r]["val"])
        if "CgroupContext(" in t:
            ctx.check("Oomd::Fs::DirFd::open(param:cgroup.absolutePath())" in t, "make-opens-fresh-fd", "provenance", mk.loc(r), "make() opens a fresh directory fd for the path",
                      "make builds the context from " + t[:120])
    # ------------------------------------------------ reader agreement
    nmax = 0
    for nm in ("readMemminAt", "readMemlowAt", "readMemhighAt", "readMemmaxAt", "readSwapMaxAt"):
        f = ctx.fn1("Oomd::Fs::" + nm)
        d = f.calls("Fs::readMinMaxLowHighFromLines")
        nmax += 1
        Xf = Expander(P, f)
        ok = len(d) == 1 and re.match(r"^\*Oomd::Fs::readFileByLine\(Oomd::Fs::Fd::openat\(param:dirfd, (const std::string\()?Oomd::Fs::k\w+", Xf(f.nodes[d[0]]["args"][0])) is not None
        sto = [i for i in f.calls() if re.match(r"^std::sto", f.callee(i))]
        if not ok and not d and not sto:
            # delegation through a shared helper: return H(dirfd, kXxxFile) where H reads that file by line and hands the lines to
            # readMinMaxLowHighFromLines (and parses nothing itself)
            for i in f.calls():
                n_ = f.nodes[i]
                hs = [P.fns[u] for u in P.resolve(n_.get("cusr", "")) if u in P.fns] if n_.get("cusr") else []
                if len(hs) != 1 or not hs[0].file.startswith("oomd/") or hs[0] is f or len(n_.get("args", [])) != len(hs[0].params):
                    continue
                h = hs[0]
                filearg = [k for k, a_ in enumerate(n_["args"]) if re.match(r"^(const std::string\()?Oomd::Fs::k\w+File", f.text(a_))]
                fdarg = [k for k, a_ in enumerate(n_["args"]) if Xf(a_) == "param:dirfd"]
                dh = h.calls("Fs::readMinMaxLowHighFromLines")
                if len(filearg) == 1 and len(fdarg) == 1 and len(dh) == 1 and not [j for j in h.calls() if re.match(r"^std::sto", h.callee(j))]:
                    want = r"^\*Oomd::Fs::readFileByLine\(Oomd::Fs::Fd::openat\(param:%s, (const std::string\()?param:%s" % (
                        re.escape(h.params[fdarg[0]]["name"]), re.escape(h.params[filearg[0]]["name"]))
                    if re.match(want, Expander(P, h)(h.nodes[dh[0]]["args"][0])):
                        ok = True
                        ctx.use(h)
        ctx.check(ok and not sto, "max-grammar-reader:" + nm, "sibling_agreement", f.loc(), nm + " delegates to readMinMaxLowHighFromLines on its own file",
                  nm + " parses its file itself (%s): 'max' would not be understood" % [f.callee(i) for i in sto])
    ctx.counters["max_grammar_readers"] = nmax
    ht = ctx.fn1("Oomd::Fs::readMemhightmpFromLines")
    ctx.check(bool(ht.calls("Fs::readMinMaxLowHighFromLines")) or "max" in " ".join(nn.get("v", "") for nn in ht.nodes if nn["k"] == "lit"), "max-grammar-reader:readMemhightmpFromLines", "sibling_agreement", ht.loc(),
              "memory.high.tmp understands 'max'", "memory.high.tmp reader does not handle 'max'")
    mm = ctx.fn1("Oomd::Fs::readMinMaxLowHighFromLines")
    lits = [nn.get("v", "") for nn in mm.nodes if nn["k"] == "lit" and nn.get("lk") == "str"]
    ctx.check("max" in lits, "max-grammar-parser", "value-shape", mm.loc(), "the shared parser recognises the literal 'max'", "shared parser has no 'max' case")
    # raw integer statistics are parsed as integers: a reader that hands out 64-bit values never goes through floating point
    # (a double holds 53 bits: limits above 2^53 would be rounded) nor through the config-size grammar (suffixes, fractions)
    FLOATY = re.compile(r"^(std::sto(d|f|ld)|strto(d|f|ld)|atof|Oomd::Util::parseSize(OrPercent)?)$")
    n_int = 0
    for f in sorted(P.fns.values(), key=lambda x: x.line):
        if not f.pq.startswith("Oomd::Fs::") or not f.cfg or not re.search(r"\b(u?int64_t|long|unsigned long)\b", f.d.get("ret", "")):
            continue
        if "ResourcePressure" in f.d.get("ret", ""):
            continue
        n_int += 1
        ctx.use(f)
        bad = [f.callee(i).split("(")[0] for i in f.calls() if FLOATY.match(f.callee(i).split("(")[0])]
        bad += ["cast %s -> %s" % (n_.get("fromtw"), n_.get("tw")) for n_ in f.nodes if n_["k"] == "cast" and n_.get("ck") == "FloatingToIntegral"]
        ctx.check(not bad, "raw-integers-parsed-exactly:" + short(f) + ("@%d" % f.line if f.pq.endswith("readFileByLine") else ""), "effect (no floating-point detour)", f.loc(),
                  "64-bit values are converted with an integer parser", "%s converts a 64-bit statistic through %s: values above 2^53 are rounded (and the "
                  "config-size grammar accepts suffixes / rejects values near INT64_MAX), so a raw value is no longer reported exactly" % (short(f), ", ".join(sorted(set(bad)))))
    ctx.counters["int64_readers"] = n_int
    ctx.floor("int64_readers", 10, "Fs readers that return 64-bit integer statistics")
    readdir_does_not_follow_links(ctx, "C15")
    # readDirFromDIR sibling agreement (shared with C10)
    readdir_classification(ctx, "C15")
    # children come from the held fd
    gc = ctx.fn1("Oomd::CgroupContext::getChildren")
    Xg = Expander(P, gc)
    t = " ".join(Xg(gc.nodes[r]["val"]) for r in returns(gc) if "val" in gc.nodes[r])
    ctx.check(("Oomd::Fs::readDirAt(this->fd(), " in t or "Oomd::Fs::readDirAt(this->cgroup_dir_, " in t) and ".dirs" in t.replace("->->", "->").replace("->", "."), "children-from-held-fd", "provenance", gc.loc(), "children are the directories listed through the held fd",
              "children are " + t[:120])


def _disjuncts(fn, i):
    n = fn.nodes[fn.strip(i)]
    if n["k"] == "bin" and n.get("op") == "||":
        return _disjuncts(fn, n["l"]) + _disjuncts(fn, n["r"])
    return [fn.strip(i)]


def iostat_line_accepted_as_parsed(ctx):
    """io.stat 'parses exactly': a line whose eight fields were scanned is accepted.  An additional rejecting test on the scanned values may
    only refuse what the kernel cannot print: negative numbers, a major of 2^12 or more, a minor of 2^20 or more (dev_t is 12 + 20 bits).
    The bounds are read as constants (constexpr names and shifts folded by the front end)."""
    P = ctx.prog
    f = ctx.fn1("Oomd::Fs::readIostatAt")
    sc = [i for i in f.calls("sscanf")]
    if len(sc) != 1:
        ctx.broken("iostat:line-accepted-as-parsed", "anchor", f.loc(), "expected one sscanf in readIostatAt")
        return
    outs = []
    for a in f.nodes[sc[0]].get("args", [])[2:]:
        an = f.nodes[f.strip(a)]
        outs.append(f.text(an["sub"]) if an["k"] == "un" and an.get("op") == "&" else f.text(a))
    LIMIT = {0: 1 << 12, 1: 1 << 20}
    lp = [l for l in loops(f) if f.pos_of(sc[0]) is not None and f.pos_of(sc[0])[0] in l["body"]]
    bad, unknown, n_err = [], [], 0
    for r in f.all("return"):
        if f.pos_of(r) is None or not lp or lp[0].get("stmt") not in list(f.ancestors(r)) or "systemError(" not in ret_text(f, r):
            continue
        # the if statement the return sits in
        cond = None
        for a_ in f.ancestors(r):
            an = f.nodes[a_]
            if an["k"] == "if":
                cond = an.get("c")
                break
        if cond is None:
            unknown.append(f.loc(r))
            continue
        n_err += 1
        for at in _disjuncts(f, cond):
            n = f.nodes[at]
            t = f.text(at)
            which = [k for k, o in enumerate(outs) if re.search(r"(?<![\w.])%s(?![\w])" % re.escape(o), t)]
            if not which:
                continue            # the field-count test and the like
            if n["k"] != "bin" or n.get("op") not in ("<", "<=", ">", ">=", "==", "!="):
                unknown.append("%s at %s" % (t[:60], f.loc(at)))
                continue
            lt, rt_ = f.text(n["l"]), f.text(n["r"])
            var_left = any(re.fullmatch(re.escape(o), lt.strip("()")) for o in outs)
            c = const_int(f, n["r"] if var_left else n["l"])
            op = n["op"] if var_left else {"<": ">", "<=": ">=", ">": "<", ">=": "<=", "==": "==", "!=": "!="}[n["op"]]
            if c is None or len(which) != 1:
                unknown.append("%s at %s" % (t[:60], f.loc(at)))
                continue
            k = which[0]
            if op in ("<", "<=") and (c <= 0 if op == "<" else c < 0):
                continue            # negative values only
            lim = LIMIT.get(k)
            if op in (">", ">=") and lim is not None and (c >= lim if op == ">=" else c >= lim - 1):
                continue            # beyond what dev_t can hold
            bad.append("%s (rejects %s %s %d) at %s" % (t[:70], outs[k], op, c, f.loc(at)))
    inst = "iostat:line-accepted-as-parsed"
    if bad:
        ctx.violation(inst, "value-shape (constants folded)", f.loc(sc[0]),
                      "a well-formed io.stat line is refused: " + "; ".join(bad) + " - the kernel prints majors up to 4095 and minors up to 1048575 and "
                      "64-bit counters; the whole read fails and the cgroup's io statistics (io cost included) become unavailable")
    elif unknown:
        ctx.broken(inst, "value-shape (constants folded)", f.loc(sc[0]), "cannot evaluate the extra test(s) on scanned io.stat fields: " + "; ".join(unknown))
    else:
        ctx.ok(inst, "value-shape (constants folded)", f.loc(sc[0]), "the only refusals of a scanned line are for values the kernel cannot print (%d rejecting exit(s) in the line loop)" % n_err)
