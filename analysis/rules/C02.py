"""C02 Engine firing rule (DESIGN 4/C02)."""
import re
from .common import *

EXPLANATION = (
    "Decides the control structure that the statement paraphrases, on the CFGs of "
    "DetectorGroup::check/prerun, Ruleset::prerun/runOnce/runOnceImpl/run_action_chain, "
    "Engine::prerun/runOnce and Oomd::run: every detector and prerun is executed exactly once per "
    "loop iteration with no early exit; a group's verdict is cleared only on STOP; the action "
    "context is set for the first firing group; a chain starts only past the pause gate, when a "
    "group fired, and never after a resumed chain; the chain's CONTINUE/STOP/ASYNC switch; "
    "forward iteration with drop-ins before their base; main-loop call order.  Plugin code "
    "sharing global state is outside the rule (not decided).")
RULE_SUMMARY = "E-PATH per-iteration exactly-once, loop_has_no_early_exit, switch tables, guard dominance, call order"
NOT_DECIDED = ["plugins that influence each other through global state"]
ASSUMPTIONS = ["range-for iterates a container front to back"]


def engine_evaluation_order(ctx):
    """Engine::prerun / Engine::runOnce visit the base rulesets in configuration order and, for each, all its drop-ins front (newest) to
    back before the base itself.  Shared by C02 (tick structure) and C13 (LIFO evaluation of drop-ins).  Loops may be range-for, iterator
    or index loops; which ruleset a call runs is read off the call's provenance."""
    P = ctx.prog
    for q, callee in (("Oomd::Engine::Engine::prerun", "Ruleset::prerun"),
                      ("Oomd::Engine::Engine::runOnce", "Ruleset::runOnce")):
        f = ctx.fn1(q)
        outer = loop_over(f, "rulesets_")
        inner = loop_over(f, "dropins")
        if len(outer) != 1 or len(inner) != 1:
            ctx.violation(short(f) + ":loops", "anchor", f.loc(), "expected loops over rulesets_ and dropins")
            continue
        O, I = outer[0], inner[0]
        wo, wi = loop_walk(f, O), loop_walk(f, I)
        fwd = wo is not None and wi is not None and wo["dir"] == "forward" and wi["dir"] == "forward" and wo["container"] == "this->rulesets_" and \
            re.match(wo["elem"], wi["container"].lstrip("*(")) is not None and re.search(r"(\.|->)dropins\)?$", wi["container"]) is not None
        ctx.check(fwd, short(f) + ":forward", "loop-shape",
                  f.loc(O["stmt"]), "rulesets in configuration order, each one's drop-ins front to back",
                  "iteration is not a forward traversal of rulesets_ and of the current base's dropins")
        no_early_exit(ctx, f, O, short(f) + ":no-early-exit:rulesets_", "rulesets_")
        no_early_exit(ctx, f, I, short(f) + ":no-early-exit:dropins", "dropins")
        calls = f.calls(callee)
        # which ruleset a call runs is read off its provenance, not off variable names: the element of rulesets_ (base) or the element of
        # that element's dropins (drop-in), whether the loops are range-for, iterator or index loops
        Xf = Expander(P, f)
        prov = {i: Xf(f.nodes[i].get("recv", -1)).replace("->", ".").rstrip(".") for i in calls}
        BASE_P = re.compile(r"^(elem\(this\.rulesets_\)|this\.rulesets_\[[^\]]*\])\.ruleset$")
        DROP_P = re.compile(r"^(elem\((elem\(this\.rulesets_\)|this\.rulesets_\[[^\]]*\])\.dropins\)|(elem\(this\.rulesets_\)|this\.rulesets_\[[^\]]*\])\.dropins\[[^\]]*\])\.ruleset$")
        base = [i for i in calls if BASE_P.match(prov[i])]
        drop = [i for i in calls if DROP_P.match(prov[i])]
        for i in calls:
            if i not in base and i not in drop:
                ctx.violation(short(f) + ":runs-configured-rulesets", "provenance", f.loc(i), "%s is called on %s, which is neither a base ruleset nor one of its drop-ins" % (callee, prov[i]))
        ctx.count("engine_calls", len(calls))
        per_iter_once(ctx, f, O, base, short(f) + ":base-every-iteration", "the base ruleset's " + callee)
        # drop-in call once per inner iteration when the pointer is set
        fi = iter_flow(ctx, f, I, {d: [("set", "D")] for d in drop})
        for d in drop:
            g = [(k, p) for k, p in fi.guards(d) if not is_loop_control_fact(k)]
            ptr = re.sub(r"(->|\.)$", "", f.text(f.nodes[d].get("recv", -1)))
            ctx.check(all(k == ptr and p is True for k, p in g) and not fi.may(d, "D"),
                      short(f) + ":dropin-unconditional", "guarded_by", f.loc(d),
                      "each drop-in runs once, conditioned only on being non-null",
                      "drop-in call is conditioned on %s" % g)
        # inner loop completes before the base call in each outer iteration
        rng = loop_entry_node(f, I)
        fo = iter_flow(ctx, f, O, {rng: [("set", "dropins-visited")]} if rng is not None else {})
        for b_ in base:
            ctx.check(fo.must(b_, "dropins-visited"), short(f) + ":dropins-before-base", "must_precede", f.loc(b_),
                      "a base ruleset runs after all of its drop-ins",
                      "the base ruleset can run before its drop-ins")


def disabled_does_nothing(ctx):
    """A disabled ruleset (disable-on-drop-in while a drop-in targets it) does nothing: every call of a program function in
    Ruleset::prerun and Ruleset::runOnce is dominated by enabled_ being true.  Shared by C02 and C13."""
    P = ctx.prog
    rpre = ctx.fn1("Oomd::Engine::Ruleset::prerun")
    for fn_, nm in ((rpre, "prerun"), (ctx.fn1("Oomd::Engine::Ruleset::runOnce"), "runOnce")):
        f2 = Flow(P, fn_, cg=ctx.cg)
        bad = []
        for i in fn_.calls():
            n = fn_.nodes[i]
            if not ctx.prog.resolve(n.get("cusr", "")) and not n.get("virt"):
                continue     # library-external helper calls (logging, containers)
            if not has_fact(f2.guards(i), True, "this->enabled_"):
                bad.append(fn_.loc(i))
        ctx.check(not bad, "Ruleset::%s:disabled-does-nothing" % nm, "guarded_by", fn_.loc(),
                  "every library call is dominated by enabled_ == true",
                  "calls reachable while the ruleset is disabled: %s" % ", ".join(bad[:4]))


def engine_keeps_every_ruleset(ctx):
    """'Each prerun and each detector of every enabled ruleset executes exactly once per tick': the engine runs the rulesets it holds, so its
    constructor has to hold every ruleset the compiler hands it - the only reason to pass one over is a null pointer."""
    from ..cfg import CondNorm
    P = ctx.prog
    cs = [f for f in P.fns.values() if f.pq == "Oomd::Engine::Engine::Engine" and f.kind == "ctor"]
    if len(cs) != 1:
        ctx.broken("engine-keeps-every-ruleset", "anchor", "-", "expected one Engine constructor")
        return
    f = ctx.use(cs[0])
    pn = f.params[0]["name"] if f.params else "rulesets"
    ls = [l for l in loops(f) if (loop_walk_any(f, l) or {}).get("container", "").replace("param:", "") == pn]
    keeps = [i for i in f.calls("emplace_back", "push_back") if "rulesets_" in f.text(f.nodes[i].get("recv", -1))]
    if len(ls) != 1 or not keeps:
        ctx.broken("engine-keeps-every-ruleset", "anchor", f.loc(), "expected one walk over the constructor's rulesets that appends to rulesets_")
        return
    L = ls[0]
    wk = loop_walk_any(f, L)
    var = wk.get("var") or "rs"
    cn = CondNorm(f, P)
    bad = []

    def reasons(node):
        facts = []
        for a in f.ancestors(node):
            if a == L["stmt"]:
                break
            an = f.nodes[a]
            if an["k"] == "if" and "c" in an:
                in_then = an.get("then") is not None and (an["then"] == node or node in set(f.walk(an["then"])))
                facts += cn.decompose(an["c"], in_then)
        return facts
    for i, n in enumerate(f.nodes):
        if n["k"] == "continue" and L["stmt"] in list(f.ancestors(i)):
            fs = reasons(i)
            if not any(isinstance(k, str) and re.fullmatch(r"\*?%s(\.get\(\))?|\(nullptr == %s\)" % (re.escape(var), re.escape(var)), k) and p is (False if not k.startswith("(") else True) for k, p in fs):
                bad.append((i, fs))
    for i in keeps:
        fs = [(k, p) for k, p in reasons(i) if not (isinstance(k, str) and re.fullmatch(r"\*?%s(\.get\(\))?" % re.escape(var), k) and p is True)]
        if fs:
            bad.append((i, fs))
    ctx.check(not bad, "engine-keeps-every-ruleset", "guarded_by (lexical)", f.loc(bad[0][0]) if bad else f.loc(L["stmt"]),
              "every non-null ruleset the compiler produced is kept by the engine",
              "the Engine constructor passes a ruleset over under %s: a configured (enabled) ruleset that is not held is never prerun, checked or run, "
              "although the configuration was accepted" % ([(k, p) for k, p in (bad[0][1] if bad else [])][:3]))


REORDERING = re.compile(r"^std::(ranges::)?(sort|stable_sort|partial_sort|nth_element|reverse|rotate|shuffle|random_shuffle|partition|stable_partition|"
                        r"next_permutation|prev_permutation|swap_ranges|iter_swap|make_heap|push_heap|pop_heap|sort_heap|unique|inplace_merge|reverse_copy|"
                        r"rotate_copy|partial_sort_copy)$")


def compiled_order_is_configuration_order(ctx):
    """Rulesets, detector groups, detectors and actions reach the engine in the order the configuration lists them: the compile functions
    (Config2::compile / compileDropIn and everything of the config layer they reach) append one compiled element per configured element
    and never call a reordering algorithm, nor insert anywhere but at the back.  (A sort by some new key - even one documented as
    'equal keys keep their order' - reorders: std::sort is not stable.)"""
    P, cg = ctx.prog, ctx.cg
    roots = [f.usr for q in ("Oomd::Config2::compile", "Oomd::Config2::compileDropIn", "Oomd::Config2::JsonConfigParser::parse") for f in P.fn(q)]
    ctx.counters["compile_roots"] = len(roots)
    ctx.floor("compile_roots", 3, "Config2::compile, compileDropIn and JsonConfigParser::parse")
    scope_ = [P.fns[u] for u in cg.reach(roots) if P.fns[u].file.startswith("oomd/config/")]
    ctx.counters["compile_scope_functions"] = len(scope_)
    ctx.floor("compile_scope_functions", 5, "functions of the config layer reachable from compile / compileDropIn")
    n_app = 0
    for f in sorted(scope_, key=lambda x: (x.file, x.line)):
        ctx.use(f)
        for i in f.calls():
            c = plain(f.nodes[i].get("callee") or "")
            if REORDERING.match(c):
                ctx.violation("compiled-order-is-configuration-order:%s@%d" % (short(f), f.nodes[i].get("line", 0)), "who-may-call (reordering algorithms in the compile scope)", f.loc(i),
                              "%s calls %s on what it compiles: the engine evaluates rulesets (and a ruleset its detector groups and actions) in the order it is handed "
                              "them, so the configured order is no longer the evaluation order (std::sort does not even keep equal keys in place beyond 16 elements)" % (f.pq, c))
            if f.nodes[i].get("cname") in ("push_front", "emplace_front") or (f.nodes[i].get("cname") in ("insert", "emplace") and f.nodes[i].get("args") and
                                                                                re.search(r"\.c?begin\(\)", f.text(f.nodes[i]["args"][0])) and "vector" in (f.nodes[i].get("callee") or "")):
                ctx.violation("compiled-order-is-configuration-order:%s@%d" % (short(f), f.nodes[i].get("line", 0)), "who-may-call (reordering algorithms in the compile scope)", f.loc(i),
                              "%s inserts a compiled element at the front (%s): the configured order is reversed on the way to the engine" % (f.pq, f.text(i)[:60]))
            if f.nodes[i].get("cname") in ("emplace_back", "push_back"):
                n_app += 1
    ctx.counters["compile_scope_appends"] = n_app
    ctx.floor("compile_scope_appends", 4, "append sites in the compile scope (rulesets, detector groups, detectors, actions)")
    ctx.ok("compiled-order-is-configuration-order", "who-may-call (reordering algorithms in the compile scope)", "-",
           "%d functions of the config layer reachable from compile / compileDropIn: no reordering algorithm, no front insertion; %d append sites" % (len(scope_), n_app))



def action_chain_table(ctx):
    """Ruleset::run_action_chain: one action per iteration, in configured order; CONTINUE goes on to the next action, STOP ends the chain,
    ASYNC_PAUSED saves (plugin, context) and returns with nothing else run.  Shared by C02 and C06 (a resumed chain continues by this table)."""
    P = ctx.prog
    # ------------------------------------------------ Ruleset::run_action_chain
    chain = ctx.fn1("Oomd::Engine::Ruleset::run_action_chain")
    ls = loops(chain)
    runs = virtual_run_calls(chain, prog=P)
    ctx.count("virtual_run_sites", len(runs))
    if len(ls) != 1 or len(runs) != 1:
        ctx.violation("chain:single-loop", "anchor", chain.loc(),
                      "run_action_chain has %d loops and %d run() sites (expected 1/1)" % (len(ls), len(runs)))
    else:
        L = ls[0]
        ev = {runs[0]: [("set", "ran")]}
        fi = iter_flow(ctx, chain, L, ev)
        ctx.check(not fi.may(runs[0], "ran"), "chain:one-run-per-iteration", "at_most_once", chain.loc(runs[0]),
                  "one action per iteration", "an action can run twice per iteration")
        # iteration is forward over [start, end)
        s = chain.nodes[L["stmt"]]
        it = " ".join(chain.text(s[k]) for k in ("c", "inc") if k in s)
        # the loop walks [first iterator parameter, second iterator parameter) upwards, whatever the parameters are called
        itp = [p_["name"] for p_ in chain.params if "iterator" in (p_.get("type") or "") or "__normal_iterator" in (p_.get("type") or "")]
        if len(itp) < 2 and len(chain.params) == 3:
            itp = [p_["name"] for p_ in chain.params[:2]]       # the range is (first, last, context) whatever the iterator type is called
        walkers = list(itp[:1])
        if len(itp) >= 2 and isinstance(s.get("init"), int) and s["init"] >= 0 and chain.nodes[s["init"]]["k"] == "decl":
            # `for (auto it = first; it != last; ++it)`: a local copy of the first iterator walks the range
            for v_ in chain.nodes[s["init"]].get("vars", []):
                if v_.get("init") is not None and v_.get("init", -1) >= 0 and chain.text(v_["init"]) == itp[0]:
                    walkers.append(v_["name"])
        fwd = len(itp) >= 2 and any(("++" + w_ in it or w_ + "++" in it) for w_ in walkers) and itp[1] in it and "--" not in it
        ctx.check(fwd, "chain:forward-order", "loop-shape", chain.loc(L["stmt"]),
                  "actions run in configured order from start to end", "loop header is: " + it)
        cb = case_blocks(chain)
        for nm in ("CONTINUE", "STOP", "ASYNC_PAUSED"):
            if nm not in cb:
                ctx.violation("chain:case:" + nm, "switch_table", chain.loc(), "no case %s" % nm)
        sw = [i for i in chain.all("switch")]
        if sw:
            ctx.check(len(sw) == 1 and chain.nodes[sw[0]].get("allenum"), "chain:switch-exhaustive", "switch_table",
                      chain.loc(sw[0]) if sw else chain.loc(), "switch covers every PluginRet",
                      "switch over the action result is not exhaustive")
        else:
            # if / else-if chain: the three outcomes are tested (checked above); whatever is left falls out of the chain like today's
            # switch without default does
            ctx.ok("chain:switch-exhaustive", "switch_table", chain.loc(), "CONTINUE, STOP and ASYNC_PAUSED are each tested (if-chain form)")
        if all(nm in cb for nm in ("CONTINUE", "STOP", "ASYNC_PAUSED")):
            saves = field_writes(chain, "active_action_chain_state_")
            evs = {runs[0]: [("set", "ran")]}
            evs.update({w: [("set", "saved")] for w in saves})
            # CONTINUE: next iteration, never leaves the function
            fc = Flow(P, chain, events=evs, start=cb["CONTINUE"], cut=set(L["back_edges"]), cg=ctx.cg)
            ex = [e for e in fc.exits() if e[0] in ("return", "fallthrough")]
            reach_back = any(b in fc.OUT for b in back_sources(L))
            ctx.check(not ex and reach_back, "chain:CONTINUE-next-action", "switch_table", chain.loc(),
                      "CONTINUE proceeds to the next action", "CONTINUE can leave the chain")
            # STOP: leaves the loop, runs nothing more
            fs = Flow(P, chain, events=evs, start=cb["STOP"], cut=set(L["back_edges"]), cg=ctx.cg)
            reach_back = any(b in fs.OUT for b in back_sources(L))
            ex = [e for e in fs.exits() if e[0] in ("return", "fallthrough")]
            ran_again = any(any("ran" in st.may for st in e[3].values()) for e in ex)
            ctx.check(ex and not reach_back and not ran_again, "chain:STOP-ends-chain", "switch_table", chain.loc(),
                      "STOP terminates the chain", "after STOP another action can run")
            # ASYNC: save (plugin, context) then return, nothing runs
            fa = Flow(P, chain, events=evs, start=cb["ASYNC_PAUSED"], cut=set(L["back_edges"]), cg=ctx.cg)
            reach_back = any(b in fa.OUT for b in back_sources(L))
            ex = [e for e in fa.exits()]
            good = ex and not reach_back and all(
                e[0] == "return" and all("saved" in st.must and "ran" not in st.may for st in e[3].values())
                for e in ex)
            ctx.check(good, "chain:ASYNC-suspends", "switch_table", chain.loc(),
                      "ASYNC_PAUSED saves the chain state and returns",
                      "ASYNC_PAUSED does not save-and-return on every path")

def run(ctx):
    from .C05 import pause_actions_writes_both
    pause_actions_writes_both(ctx)
    compiled_order_is_configuration_order(ctx)
    engine_keeps_every_ruleset(ctx)
    from .C11 import instances_kept_only_if_ran
    instances_kept_only_if_ran(ctx)
    saved_context_is_a_copy(ctx, "C02")
    resume_follows_clear(ctx, "C02")
    detector_walk_every_tick(ctx, "C02")
    ruleset_state_is_per_instance(ctx)
    # locals / parameters the rules below refer to by name (a rename makes the analysis 'broken', never a violation)
    ctx.anchor(ctx.fn1('Oomd::Engine::Ruleset::runOnceImpl'), 'run_actions', 'dg', 'context')
    ctx.anchor(ctx.fn1('Oomd::Engine::Engine::runOnce'), 'base', 'dropin')
    ctx.anchor(ctx.fn1('Oomd::Engine::Engine::prerun'), 'base', 'dropin')
    P = ctx.prog
    # 'not inside its post-action pause': how the pause deadline is computed (same rule as C05)
    from .C05 import pause_value_rule
    pause_value_rule(ctx)
    # ------------------------------------------------ DetectorGroup::check
    chk = ctx.fn1("Oomd::Engine::DetectorGroup::check")
    ls = loop_over(chk, "detectors_")
    if len(ls) != 1:
        ctx.broken("check-loop", "anchor", chk.loc(), "expected one loop over detectors_ in check, found %d" % len(ls))
    else:
        L = ls[0]
        runs = [i for i in virtual_run_calls(chk, prog=P) if chk.pos_of(i)[0] in L["body"]]
        ctx.count("virtual_run_sites", len(runs))
        per_iter_once(ctx, chk, L, runs, "check:every-detector-runs", "the detector's run()")
        no_early_exit(ctx, chk, L, "check:no-early-exit", "detectors_")
        # verdict variable: the local that is returned
        rets = returns(chk)
        rv = {ret_text(chk, r) for r in rets}
        if len(rv) != 1:
            ctx.violation("check:returns-verdict", "return_table", chk.loc(), "check returns %s" % sorted(rv))
        else:
            var = rv.pop()
            init, v = local_init(chk, var)
            ctx.check(v is not None and chk.text(init) == "true", "check:verdict-init-true", "vardecl",
                      chk.loc(), "verdict '%s' starts true" % var, "verdict '%s' is not initialised to true" % var)
            ws = local_writes(chk, var)
            fl = Flow(P, chk, cg=ctx.cg)
            # the value a branch tests must be the result of this iteration's run(): a local initialised from it, or the call itself
            def is_run_result(txt):
                if re.match(r"^\w+$", txt):
                    init_, v_ = local_init(chk, txt, must=False)
                    return v_ is not None and init_ is not None and init_ >= 0 and chk.strip(init_) in runs
                return any(chk.text(r_) == txt for r_ in runs)
            STOPK = re.compile(r"^\((?:Oomd::Engine::)?PluginRet::STOP == (.+)\)$|^\((.+) == (?:Oomd::Engine::)?PluginRet::STOP\)$")

            def on_stop(k, p):
                if p == "case:STOP":
                    return True
                m_ = STOPK.match(k) if isinstance(k, str) else None
                return bool(m_) and p is True and is_run_result(m_.group(1) or m_.group(2))
            good = bool(ws)
            for w in ws:
                rhs = chk.text(write_rhs(chk, w))
                g = fl.guards(w)
                if rhs != "false" or not any(on_stop(k, p) for k, p in g):
                    good = False
                    ctx.violation("check:verdict-cleared-only-on-STOP", "switch_table", chk.loc(w),
                                  "verdict written with '%s' outside the STOP outcome of run() (guards: %s)" % (
                                      rhs[:60], ", ".join("%s=%s" % x for x in g if isinstance(x[1], str)) or "none"))
            if good:
                ctx.ok("check:verdict-cleared-only-on-STOP", "switch_table", chk.loc(ws[0]),
                       "verdict is only ever set to false, under the STOP outcome")
            # on STOP the verdict IS cleared before the iteration ends
            cb = case_blocks(chk)
            sw = [i for i in chk.all("switch")]
            if "STOP" in cb:
                fs = Flow(P, chk, events={w: [("set", "cleared")] for w in ws}, start=cb["STOP"],
                          cut=set(L["back_edges"]), cg=ctx.cg)
                okc = True
                for b in back_sources(L):
                    parts = fs.OUT.get(b)
                    if parts is not None and not all("cleared" in st.must for st in parts.values()):
                        okc = False
                for kind, node, b, parts in fs.exits():
                    if kind in ("return", "fallthrough") and not all("cleared" in st.must for st in parts.values()):
                        okc = False
                ctx.check(okc, "check:stop-clears-verdict", "must_follow", chk.loc(),
                          "a STOP verdict always clears the group's trigger",
                          "a detector STOP can leave the trigger set")
                # the switch scrutinee is the run() result
                okv = False
                scrut = [chk.nodes[s_]["c"] for s_ in sw]
                if not sw:
                    # if-chain form: the expression compared with PluginRet::STOP
                    for b_ in chk.all("bin"):
                        nb = chk.nodes[b_]
                        if nb.get("op") in ("==", "!="):
                            for x_, y_ in ((nb["l"], nb["r"]), (nb["r"], nb["l"])):
                                cy = chk.nodes[chk.strip(y_)]
                                if cy["k"] == "ref" and cy.get("dk") == "enumconst" and cy["name"] == "STOP":
                                    scrut.append(x_)
                for sc_ in scrut:
                    c = chk.nodes[chk.strip(sc_)]
                    if c["k"] == "ref":
                        okv = okv or is_run_result(c["name"])
                    elif chk.strip(sc_) in runs:
                        okv = True
                ctx.check(okv, "check:switch-on-run-result", "dataflow", chk.loc(),
                          "the switch scrutinee is the value returned by run()",
                          "the switch in check does not test the value returned by run()")
            else:
                # if-form: if (ret == STOP) verdict = false;
                fs = iter_flow(ctx, chk, L, {w: [("set", "cleared")] for w in ws},
                               edge_tokens=lambda k, p: ["on-stop"] if on_stop(k, p) else None)
                seen_edge, okc = False, True
                for b in back_sources(L):
                    for st in (fs.OUT.get(b) or {}).values():
                        if "on-stop" in st.may:
                            seen_edge = True
                            if "cleared" not in st.must and "on-stop" in st.must:
                                okc = False
                if not seen_edge:
                    ctx.violation("check:stop-clears-verdict", "switch_table", chk.loc(), "no branch on the STOP outcome of run() in check")
                else:
                    ctx.check(okc, "check:stop-clears-verdict", "must_follow", chk.loc(), "a STOP verdict always clears the group's trigger",
                              "a detector STOP can leave the trigger set")
    # ------------------------------------------------ DetectorGroup::prerun
    dpre = ctx.fn1("Oomd::Engine::DetectorGroup::prerun")
    ls = loop_over(dpre, "detectors_")
    if len(ls) != 1:
        ctx.broken("dgprerun-loop", "anchor", dpre.loc(), "expected one loop over detectors_ in DetectorGroup::prerun")
    else:
        pr = [i for i in virtual_run_calls(dpre, "prerun", prog=P)]
        per_iter_once(ctx, dpre, ls[0], pr, "DetectorGroup::prerun:every-detector", "the detector's prerun()")
        no_early_exit(ctx, dpre, ls[0], "DetectorGroup::prerun:no-early-exit", "detectors_")
        ctx.count("virtual_prerun_sites", len(pr))

    # ------------------------------------------------ Ruleset::prerun / runOnce
    rpre = ctx.fn1("Oomd::Engine::Ruleset::prerun")
    fl = Flow(P, rpre, cg=ctx.cg)
    for name, callee, virt in (("detector_groups_", "DetectorGroup::prerun", False),
                               ("action_group_", "BasePlugin::prerun", True)):
        ls = loop_over(rpre, name)
        if len(ls) != 1:
            ctx.violation("Ruleset::prerun:loop:" + name, "loop-shape (every plugin is prerun)", rpre.loc(),
                          "Ruleset::prerun has no single loop over %s" % name)
            continue
        L = ls[0]
        calls = [i for i in rpre.calls(callee) if rpre.pos_of(i)[0] in L["body"]]
        per_iter_once(ctx, rpre, L, calls, "Ruleset::prerun:every:" + name, "prerun() of each element of " + name)
        no_early_exit(ctx, rpre, L, "Ruleset::prerun:no-early-exit:" + name, name)
        if virt:
            ctx.count("virtual_prerun_sites", len(calls))
        # the loop is reached whenever the ruleset is enabled
        hd = rpre.blocks[L["head"]]
        parts = fl.IN.get(L["head"])
        conds = None
        if parts:
            for st in parts.values():
                conds = st.conds if conds is None else conds & st.conds
        extra = [(k, p) for k, p in (conds or ()) if "enabled_" not in k and "__begin" not in k and "__end" not in k]
        ctx.check(parts is not None and not extra, "Ruleset::prerun:unconditional:" + name, "guarded_by",
                  rpre.loc(L["stmt"]), "loop runs whenever the ruleset is enabled",
                  "loop over %s is conditioned on %s" % (name, extra))
    disabled_does_nothing(ctx)
    ronce = ctx.fn1("Oomd::Engine::Ruleset::runOnce")
    impl_calls = ronce.calls("Ruleset::runOnceImpl")
    ctx.count("runOnceImpl_calls", len(impl_calls))
    ctx.floor("runOnceImpl_calls", 2, "calls of runOnceImpl in runOnce")

    # ------------------------------------------------ Ruleset::runOnceImpl
    impl = ctx.fn1("Oomd::Engine::Ruleset::runOnceImpl")
    ls = loop_over(impl, "detector_groups_")
    if len(ls) != 1:
        ctx.broken("impl-loop", "anchor", impl.loc(), "expected one loop over detector_groups_ in runOnceImpl")
    else:
        L = ls[0]
        cks = [i for i in impl.calls("DetectorGroup::check") if impl.pos_of(i)[0] in L["body"]]
        per_iter_once(ctx, impl, L, cks, "runOnceImpl:every-group-checked", "DetectorGroup::check")
        no_early_exit(ctx, impl, L, "runOnceImpl:no-early-exit", "detector_groups_")
        # every way out of runOnceImpl has been through the detector-group loop
        rng = impl.nodes[L["stmt"]].get("range", -1)
        fr_ = Flow(P, impl, events={rng: [("set", "groups-visited")]} if rng >= 0 else {}, cg=ctx.cg)
        bad = [impl.loc(e[1]) if e[1] is not None else e[0] for e in fr_.exits()
               if e[0] in ("return", "fallthrough") and not all("groups-visited" in st.must for st in e[3].values())]
        ctx.check(rng >= 0 and not bad, "runOnceImpl:detectors-run-unconditionally", "must_precede", impl.loc(L["stmt"]),
                  "every exit of runOnceImpl is preceded by the detector-group loop",
                  "runOnceImpl can return before running its detector groups: %s" % ", ".join(bad[:3]))
        fl = Flow(P, impl, cg=ctx.cg)
        sac = [i for i in impl.calls("OomdContext::setActionContext") if impl.pos_of(i)[0] in L["body"]]
        ctx.count("setActionContext_in_loop", len(sac))
        ctx.floor("setActionContext_in_loop", 1, "setActionContext in the detector-group loop")
        for i in sac:
            a = impl.text(impl.nodes[i]["args"][0])
            ctx.check("this->name_" in a and "dg->name()" in a.replace("dg->->", "dg->"),
                      "runOnceImpl:action-context-names", "value-shape", impl.loc(i),
                      "action context carries the ruleset name and the firing group's name",
                      "action context is built from: " + a[:120])
            # history predicate: this iteration took the check()==true edge and the
            # run_actions==false edge (the flag itself is set before the call)
            fe = iter_flow(ctx, impl, L, {}, edge_tokens=lambda k, p: (
                ["fired"] if ("check(" in k and p is True) else
                ["first"] if (k == "run_actions" and p is False) else None))
            first = fe.must(i, "first")
            fired = fe.must(i, "fired")
            ctx.check(first and fired, "runOnceImpl:first-firing-group", "passed_edge", impl.loc(i),
                      "context is set only for the first group whose check() is true",
                      "setActionContext is not guarded by (check() && !run_actions)", witness_path(impl, fl, i))
        # chain starts
        rac = impl.calls("Ruleset::run_action_chain")
        begin = [i for i in rac if "begin()" in impl.text(impl.nodes[i]["args"][0])]
        resume = [i for i in rac if i not in begin]
        ctx.count("run_action_chain_refs", len(rac))
        ctx.floor("run_action_chain_refs", 2, "run_action_chain calls in runOnceImpl")
        ev = {i: [("set", "resumed")] for i in resume}
        f3 = Flow(P, impl, events=ev, cg=ctx.cg)
        for i in begin:
            g = f3.guards(i)
            ctx.check(has_fact(g, True, "run_actions"), "runOnceImpl:chain-starts-iff-fired", "guarded_by",
                      impl.loc(i), "a fresh chain starts only when a group fired",
                      "run_action_chain(begin) is reachable when no group fired", witness_path(impl, f3, i))
            ctx.check(has_fact(g, False, "steady_clock::now() < this->pause_actions_until_"),
                      "runOnceImpl:chain-start-past-pause", "guarded_by", impl.loc(i),
                      "a fresh chain starts only outside the post-action pause",
                      "run_action_chain(begin) is reachable inside the pause", witness_path(impl, f3, i))
            ctx.check(not f3.may(i, "resumed"), "runOnceImpl:no-second-chain", "never_after", impl.loc(i),
                      "no fresh chain after a resumed one in the same tick",
                      "a fresh chain can start after the suspended chain was resumed in the same tick")
        for i in resume:
            g = f3.guards(i)
            ctx.check(has_fact(g, True, "active_action_chain_state_") or
                      any("target" in k and p is True for k, p in g),
                      "runOnceImpl:resume-only-suspended", "guarded_by", impl.loc(i),
                      "resume only for the saved plugin",
                      "run_action_chain(resume) is not tied to the saved plugin", witness_path(impl, f3, i))
        # a fired group leads to the chain when not paused and nothing suspended:
        # the only returns before run_action_chain(begin) are the gate, the resume and !run_actions
        f4 = Flow(P, impl, cg=ctx.cg)
        for kind, node, b, parts in f4.exits():
            if kind != "return":
                continue
            v = impl.nodes[impl.strip(impl.nodes[node]["val"])] if "val" in impl.nodes[node] else None
            if v is not None and v["k"] == "call":
                continue     # return run_action_chain(...)
            g = f4.guards(node)
            okr = has_fact(g, True, "steady_clock::now() < this->pause_actions_until_") or \
                has_fact(g, False, "run_actions")
            ctx.check(okr, "runOnceImpl:early-returns", "return_table", impl.loc(node),
                      "early return only inside the pause or when nothing fired",
                      "runOnceImpl returns without running actions although a group fired outside the pause",
                      witness_path(impl, f4, node))

    action_chain_table(ctx)
    engine_evaluation_order(ctx)
    from .C11 import instance_keeps_order
    instance_keeps_order(ctx)
    ctx.floor("engine_calls", 4, "Ruleset::prerun/runOnce calls in Engine")
    ctx.floor("virtual_run_sites", 2, "virtual BasePlugin::run call sites")
    ctx.floor("virtual_prerun_sites", 2, "virtual BasePlugin::prerun call sites")
    # nobody else runs plugins
    for f in P.fns.values():
        if f.pq in ("Oomd::Engine::DetectorGroup::check", "Oomd::Engine::Ruleset::run_action_chain"):
            continue
        for i in virtual_run_calls(f, prog=P):
            ctx.violation("plugin-run-outside-engine:" + short(f), "who-may-call", f.loc(i),
                          "BasePlugin::run invoked outside DetectorGroup::check / run_action_chain")
    ctx.ok("plugin-run-sites", "who-may-call", "-", "plugins are run only by check and run_action_chain")

    # ------------------------------------------------ Oomd::run main loop
    main = ctx.fn1("Oomd::Oomd::run")
    # (while (true) / for (;;) / do-while: the outermost loop of run())
    ls = [l for l in loops(main) if l["stmt"] is not None and main.nodes[l["stmt"]]["k"] in ("while", "for", "do")
          and not any(main.nodes[a]["k"] in ("while", "for", "do", "rangefor") for a in main.ancestors(l["stmt"]))]
    if len(ls) != 1:
        ctx.broken("main-loop", "anchor", main.loc(), "expected one while loop in Oomd::run")
    else:
        L = ls[0]
        seq = [("updateDropIns", main.calls("updateDropIns")),
               ("updateContext", main.calls("Oomd::updateContext")),
               ("prerun", main.calls("Engine::prerun")),
               ("runOnce", main.calls("Engine::runOnce"))]
        ev = {}
        for nm, cs in seq:
            ctx.count("main_loop_calls", len(cs))
            for c in cs:
                ev[c] = [("set", nm)]
        fl = iter_flow(ctx, main, L, ev, split=lambda k: "fs_drop_in_service_" in k)
        for idx in range(1, 4):
            nm, cs = seq[idx]
            for c in cs:
                ctx.check(fl.must(c, seq[idx - 1][0]) if idx > 1 else True,
                          "main-loop:order:%s-before-%s" % (seq[idx - 1][0], nm), "order", main.loc(c),
                          "%s precedes %s in every iteration" % (seq[idx - 1][0], nm),
                          "%s can execute without %s before it" % (nm, seq[idx - 1][0]))
                ctx.check(not fl.may(c, nm), "main-loop:once:" + nm, "at_most_once", main.loc(c),
                          nm + " runs once per iteration", nm + " can run twice per iteration")
        # updateDropIns precedes updateContext whenever the service exists
        for c in seq[1][1]:
            parts = fl.at(c) or {}
            okd = bool(parts)
            for val, st in parts.items():
                d = dict(val)
                has = any(k.startswith("C:") and v is True for k, v in d.items())
                if has and "updateDropIns" not in st.must:
                    okd = False
            ctx.check(okd, "main-loop:order:updateDropIns-before-updateContext", "order", main.loc(c),
                      "drop-ins are applied before the context is refreshed",
                      "updateContext can run before updateDropIns")
        # ... stated from the other side as well (the test of fs_drop_in_service_ may sit anywhere): when the drop-ins are applied, neither
        # the context refresh nor the preruns of this iteration have happened yet - a ruleset that enters (or is re-enabled) between
        # prerun and runOnce would run its detectors and actions on this tick without its prerun
        for c in seq[0][1]:
            early = not fl.may(c, "updateContext") and not fl.may(c, "prerun")
            ctx.check(early, "main-loop:dropins-applied-before-prerun", "order", main.loc(c),
                      "the set of rulesets does not change between prerun and runOnce of one iteration",
                      "updateDropIns can run after %s of the same iteration: a drop-in added on that tick runs without its prerun, and a base ruleset "
                      "re-enabled by a removal runs detectors whose prerun was skipped" % ("the preruns" if fl.may(c, "prerun") else "the context refresh"))
        # every iteration that is not an exit runs the engine
        for nm, cs in seq[1:]:
            per_iter_once(ctx, main, L, cs, "main-loop:every-iteration:" + nm, nm)
    ctx.floor("main_loop_calls", 4, "ordered calls in the main loop")
