"""C16 Cgroup path algebra: the three structural clauses within reach (DESIGN 4/C16)."""
import re
from .common import *
from ..callgraph import node_writes

EXPLANATION = (
    "Decides structural necessary conditions of C16 and nothing else: (1) equality and hashing "
    "are both defined through absolutePath() (so they agree with absolute-path equality); (2) every "
    "member function or constructor of CgroupPath that modifies the component vector or the fs root - "
    "on its own object or on a local copy it returns - calls recomputeReadCache() on that object after "
    "its last such modification on every path to the return, given that absolutePath()/relativePath() "
    "are plain getters of the cache fields (if that precondition changes the rule reports 'analysis "
    "broken'); (3) resolveWildcard emits a result only for glob results that start with the fs root and "
    "either equal it or continue with '/', and strips exactly root + '/'; (4) the prekill-hook pattern match reads only the component vectors, returns false "
    "only on a mismatch of a common component whose pattern component is not '*', and true after the "
    "common prefix (this fixes the three-case relation for the implementation as written; a different "
    "algorithm is reported, not judged); (5) Fs::glob with dir_only emits a path only after isDir() "
    "confirmed it (GLOB_ONLYDIR is a hint); (6) the component vector is only ever written with pieces of "
    "Util::split(text, '/') (which are non-empty and slash-free, see C01's split rule), by removing "
    "components or by memberwise copy, and getParent removes exactly one component.  Canonical form, the "
    "parent/child inverse law, the three-case pattern relation, glob(3) exactness and comma splitting "
    "are statements about string values and are not decided - this is the bulk of the property.")
RULE_SUMMARY = "expression shape of operator== and std::hash, class-invariant recompute rule (E-PATH must-follow per modified object), guard dominance in resolveWildcard"
NOT_DECIDED = ["the joined string forms (separator placement in recomputeReadCache)", "getChild/getParent inverse law as an equation", "the three-case pattern relation for an algorithm other than the component loop",
               "exactness of glob(3) resolution", "comma splitting of the cgroup argument"]
ASSUMPTIONS = ["std::hash<std::string> and operator== on std::string are consistent"]

FIELDS = ("Oomd::CgroupPath::cgroup_path_", "Oomd::CgroupPath::cgroup_fs_")


def pattern_match_rule(ctx):
    """CgroupPath::hasDescendantWithPrefixMatching decides component-wise (shared by C16 and C07: which prekill hook matches the victim)."""
    P, cg = ctx.prog, ctx.cg
    # ---- (4) pattern match decided component-wise
    hm = ctx.fn1("Oomd::CgroupPath::hasDescendantWithPrefixMatching")
    ctx.anchor(hm, "pattern")
    fh = Flow(P, hm, cg=cg)
    other = sorted({n_.get("qname", "").split("::")[-1] for n_ in hm.nodes if n_["k"] == "member" and n_.get("dk") == "field" and n_.get("qname") != "Oomd::CgroupPath::cgroup_path_"})
    strcalls = [hm.text(i) for i in hm.calls("CgroupPath::absolutePath", "CgroupPath::relativePath")]
    ctx.check(not other and not strcalls, "pattern-match:reads-components-only", "field-read", hm.loc(),
              "the pattern match reads only the component vectors of path and pattern ('*' can only stand for a whole component)",
              "the pattern match reads %s: a decision on the joined strings has no component boundaries (web.service2 would match web.service)" % (other + strcalls))
    for r in returns(hm):
        t = ret_text(hm, r)
        g = fh.guards(r)
        if t == "false":
            IDX = r"(\w+)"
            def m_any(pats, pol):
                out = set()
                for k, p in g:
                    if p is pol:
                        for pat in pats:
                            mm = re.match(pat, k)
                            if mm:
                                out.add(mm.group(1))
                return out
            star = m_any([r'^\("\*" == pattern\.cgroup_path_\[%s\]\)$' % IDX, r'^\(pattern\.cgroup_path_\[%s\] == "\*"\)$' % IDX], False)
            diff = m_any([r"^\(pattern\.cgroup_path_\[%s\] == this->cgroup_path_\[\1\]\)$" % IDX, r"^\(this->cgroup_path_\[%s\] == pattern\.cgroup_path_\[\1\]\)$" % IDX], False) | \
                m_any([r"^\(pattern\.cgroup_path_\[%s\] != this->cgroup_path_\[\1\]\)$" % IDX, r"^\(this->cgroup_path_\[%s\] != pattern\.cgroup_path_\[\1\]\)$" % IDX], True)
            inb = m_any([r"^\(%s < .+\)$" % IDX], True)
            ctx.check(bool(star & diff & inb), "pattern-match:false-only-on-component-mismatch", "return_table", hm.loc(r),
                      "false only when a common component differs and the pattern's component is not '*'", "false returned under %s" % sorted(g, key=str))
        else:
            ctx.check(t == "true" and any(p is False and re.match(r"^\(\w+ < .+\)$", k) for k, p in g), "pattern-match:true-after-all-common-components", "return_table", hm.loc(r),
                      "true once all common components matched", "returns %s under %s" % (t, sorted(g, key=str)))
    Xh = Expander(P, hm)
    lh = [l for l in loops(hm) if l["stmt"] is not None]
    hdr = Xh(hm.nodes[lh[0]["stmt"]]["c"]) if len(lh) == 1 and "c" in hm.nodes[lh[0]["stmt"]] else "?"
    ctx.check(re.match(r"^\((?:var:)?\w+ < std::min\((?:this->cgroup_path_\.size\(\), (?:param:)?pattern\.cgroup_path_\.size\(\)|(?:param:)?pattern\.cgroup_path_\.size\(\), this->cgroup_path_\.size\(\))\)\)$", hdr) is not None,
              "pattern-match:over-common-prefix", "loop-shape", hm.loc(), "components are compared over the common prefix length (ancestor / descendant cases fall out as true)",
              "loop bound is " + hdr)


def resolve_rule(ctx):
    """Which cgroups a pattern resolves to: the directories glob(3) returns for the absolute path (every one confirmed to be a
    directory), mapped back to (root, rest) only below the fs root.  Shared by C16 (path algebra) and C11 (a ruleset-level pattern is
    evaluated for every existing cgroup that matches it - exactly what resolveWildcard returns)."""
    P, cg = ctx.prog, ctx.cg
    # ---- (5) glob(dir_only): GLOB_ONLYDIR is only a hint - every result is confirmed to be a directory
    gl = ctx.fn1("Oomd::Fs::glob")
    ctx.anchor(gl, "dir_only", "ret")
    fgl = Flow(P, gl, cg=cg, split=lambda k: k == "dir_only")
    emits = [i for i in gl.calls("emplace_back", "push_back") if gl.text(gl.nodes[i].get("recv", -1)) == "ret"]
    ctx.counters["glob_emit_sites"] = len(emits)
    ctx.floor("glob_emit_sites", 1, "result emission in Fs::glob")
    # a result that fails its re-check (it vanished, or is no directory) is passed over: the walk over glob(3)'s results has no exit of
    # its own.  resolveWildcard turns a glob error into "no cgroup matches", and Ruleset::runOnce drops every instance that is not in
    # this tick's list - one cgroup removed at the wrong moment would cost all its siblings their windows, pauses and suspended chains.
    # the match set is glob(3)'s shell-glob semantics: the flags are NOSORT | BRACE | ERR (+ ONLYDIR for directories) and nothing that changes
    # WHAT matches (GLOB_PERIOD lets `*` match a leading dot, GLOB_NOCHECK returns the pattern itself, GLOB_NOESCAPE / GLOB_TILDE change parsing)
    for i in [x for x in gl.calls("glob") if plain(gl.nodes[x].get("callee") or "") in ("glob", "glob64") and len(gl.nodes[x].get("args", [])) >= 2]:
        fa = gl.nodes[i]["args"][1]
        fv = const_int(gl, fa)
        if fv is None:
            nm = gl.text(fa)
            init_, v_ = local_init(gl, nm, must=False) if re.fullmatch(r"\w+", nm) else (None, None)
            fv = const_int(gl, init_) if v_ is not None and init_ is not None and init_ >= 0 else None
            ors = [const_int(gl, write_rhs(gl, w)) for w in local_writes(gl, nm, must=False)] if v_ is not None else [None]
            if fv is not None and all(o is not None for o in ors) and all(gl.nodes[w].get("op") == "|=" for w in local_writes(gl, nm, must=False)):
                for o in ors:
                    fv |= o
            else:
                fv = None
        BASE, ONLYDIR = 1 | 4 | 1024, 8192
        if fv is None:
            # a spelling the folder does not follow (a conditional expression, a helper): look for the semantic-changing flags by value instead
            vals = {const_int(gl, x) for x in range(len(gl.nodes)) if gl.nodes[x].get("k") in ("bin", "ref", "lit")}
            bad_bits = [v for v in vals if isinstance(v, int) and v in (128, 16, 64, 4096, 2048, 512)]      # PERIOD, NOCHECK, NOESCAPE, TILDE, NOMAGIC, ALTDIRFUNC
            if not bad_bits:
                ctx.broken("glob:flags-keep-shell-glob-semantics", "anchor", gl.loc(i), "the flags argument of glob(3) (%s) cannot be folded to a constant" % gl.text(fa)[:60])
                continue
        ctx.check(fv is not None and (fv | ONLYDIR) == (BASE | ONLYDIR), "glob:flags-keep-shell-glob-semantics", "call-site argument (folded constant)", gl.loc(i),
                  "glob(3) is called with GLOB_NOSORT | GLOB_BRACE | GLOB_ERR (| GLOB_ONLYDIR)",
                  "Fs::glob calls glob(3) with flags %s - not GLOB_NOSORT | GLOB_BRACE | GLOB_ERR (| GLOB_ONLYDIR): a flag that changes what a pattern matches "
                  "(GLOB_PERIOD: `*` and `?` match a leading '.') makes resolveWildcard return directories the shell-glob pattern does not match" % (hex(fv) if fv is not None else "that cannot be folded"))
    # whatever Fs::glob answers, it has asked glob(3): no verdict about a pattern (too long, odd characters, ...) of its own in front.
    # resolveWildcard turns any error into 'no cgroup matches'.
    g3 = [i for i in gl.calls("glob") if plain(gl.nodes[i].get("callee") or "") in ("glob", "glob64") and gl.pos_of(i) is not None]
    ctx.counters["glob3_calls"] = len(g3)
    ctx.floor("glob3_calls", 1, "glob(3) call in Fs::glob")
    if g3:
        fg3 = Flow(P, gl, events={i: [("set", "asked")] for i in g3}, cg=cg)
        early = [gl.loc(node) for kind, node, b, parts in fg3.exits() if kind == "return" and node is not None and not all("asked" in st.must for st in parts.values())]
        ctx.check(not early, "glob:every-answer-comes-from-glob3", "must_pass_through", gl.loc(),
                  "every return of Fs::glob is preceded by the glob(3) call",
                  "Fs::glob returns at %s without having called glob(3): a pattern is refused (or answered) by a test of Fs::glob's own, and resolveWildcard "
                  "reads that as 'no cgroup matches' although matching directories exist" % ", ".join(early))
    gll = [l for l in loops(gl) if l["stmt"] is not None and any(gl.pos_of(i) is not None and (gl.pos_of(i)[0] in l["body"] or l["stmt"] in list(gl.ancestors(i))) for i in emits)]
    if len(gll) == 1:
        no_early_exit(ctx, gl, gll[0], "glob:a-failed-recheck-skips-one-entry", "glob(3)'s results")
    else:
        ctx.broken("glob:a-failed-recheck-skips-one-entry", "anchor", gl.loc(), "expected one loop over the glob results holding the emission")
    for i in emits:
        arg = gl.text(gl.strip(gl.nodes[i]["args"][0])) if gl.nodes[i].get("args") else "?"
        arg = re.sub(r"^std::move\((.*)\)$", r"\1", arg)
        bad = []
        for key, st_ in (fgl.at(i) or {}).items():
            conds = set(st_.conds)
            if ("dir_only", False) in conds:
                continue
            confirmed = any(p is True and re.match(r"^(Oomd::Fs::)?isDir\(%s\)$" % re.escape(arg), k) for k, p in conds)
            # isDir() written out: a stat of that path succeeded and (st_mode & S_IFMT) == S_IFDIR
            inl = any(p is True and re.match(r"^\(\(\w+\.st_mode & 61440\) == 16384\)$|^\(16384 == \(\w+\.st_mode & 61440\)\)$", k) for k, p in conds if isinstance(k, str)) and \
                any(isinstance(k, str) and re.search(r"\bl?stat\(%s(\.c_str\(\))?, " % re.escape(arg), k) and ((p is False and "-1 ==" in k) or (p is True and "0 ==" in k)) for k, p in conds)
            if not (confirmed or inl):
                bad.append(sorted(conds, key=str))
        ctx.check(not bad and fgl.at(i), "glob:dir-only-results-are-directories", "guarded_by (split on dir_only)", gl.loc(i),
                  "with dir_only every emitted path passed isDir()", "with dir_only a path can be emitted without the isDir() confirmation (GLOB_ONLYDIR is only a hint: "
                  "a literal last component naming a regular file is returned by glob(3)): facts %s" % (bad[0] if bad else "none"))
    # ---- (3) resolveWildcard prefix filter
    rw = ctx.fn1("Oomd::CgroupPath::resolveWildcard")
    ctx.anchor(rw, "path", "ret")
    fl = Flow(P, rw, cg=cg)
    em = [i for i in rw.calls("emplace_back", "push_back") if rw.text(rw.nodes[i].get("recv", -1)) == "ret"]
    ctx.counters["resolve_emit_sites"] = len(em)
    ctx.floor("resolve_emit_sites", 2, "result emission sites in resolveWildcard")
    # every result is made from a path glob(3) returned: emissions sit inside the walk over the glob results and carry (root, rest of that path)
    glp = [l for l in loops(rw) if l["stmt"] is not None and rw.nodes[l["stmt"]]["k"] in ("rangefor", "for") and "glob" in Expander(P, rw)(rw.nodes[l["stmt"]].get("range", rw.nodes[l["stmt"]].get("init", -1)))]
    stray = [i for i in em if not any(l["stmt"] in list(rw.ancestors(i)) for l in glp) or len(rw.nodes[i].get("args", [])) != 2]
    for i in stray:
        ctx.violation("resolve:results-come-from-glob@%d" % rw.nodes[i].get("line", 0), "provenance", rw.loc(i),
                      "resolveWildcard emits %s outside the walk over the glob(3) results: the pattern is not expanded by glob for that path, so "
                      "metacharacters glob understands ('?', '[...]', '{a,b}', '*') are taken literally or a non-directory is accepted" % rw.text(i)[:80])
    em = [i for i in em if i not in stray]
    if not stray:
        ctx.ok("resolve:results-come-from-glob", "provenance", rw.loc(), "every result is emitted inside the walk over the glob results")
    for i in em:
        g = fl.guards(i)
        pref = any(k in ("(0 == path.find(this->cgroup_fs_, 0))", "(path.find(this->cgroup_fs_, 0) == 0)") and p is True for k, p in g)
        same = any(k in ("(path.size() == this->cgroup_fs_.size())", "(this->cgroup_fs_.size() == path.size())") and p is True for k, p in g)
        slash = any(re.match(r"^\((47 == path\[this->cgroup_fs_\.size\(\)\]|path\[this->cgroup_fs_\.size\(\)\] == 47)\)$", k) and p is True for k, p in g)
        a = [hoist_text(rw, x).replace("std::basic_string<char>::npos", "std::string::npos") for x in rw.nodes[i]["args"]]
        ctx.check(pref and (same or slash), "resolve:only-under-the-fs-root", "guarded_by", rw.loc(i),
                  "a result is emitted only for paths that start with the fs root and equal it or continue with '/'",
                  "a glob result is accepted without the root-prefix / component-boundary test (names sharing a prefix with the root would match)", witness_path(rw, fl, i))
        if same:
            ctx.check(a[1] in ('""', "std::string(\"\")") or a[1].endswith('("")') or '""' in a[1], "resolve:root-maps-to-empty", "value-shape", rw.loc(i), "the root itself resolves to the empty relative path", "root emitted as " + a[1])
        else:
            ctx.check(a[1].replace(", 18446744073709551615", "") in ("path.substr((this->cgroup_fs_.size() + 1))", "path.substr((this->cgroup_fs_.size() + 1), std::string::npos)") or
                      re.match(r"^path\.substr\(\(this->cgroup_fs_\.size\(\) \+ 1\)", a[1]) is not None, "resolve:strip-root-and-slash", "value-shape", rw.loc(i),
                      "the relative part is what follows root + '/'", "relative part is " + a[1])
        ctx.check(a[0] == "this->cgroup_fs_", "resolve:same-fs-root", "value-shape", rw.loc(i), "results keep this path's fs root", "result root is " + a[0])
    X = Expander(P, rw)
    lp = [l for l in loops(rw) if l["stmt"] is not None and rw.nodes[l["stmt"]]["k"] == "rangefor"]
    ctx.check(len(lp) == 1 and X(rw.nodes[lp[0]["stmt"]]["range"]).startswith("*Oomd::Fs::glob(this->absolutePath(), true)"), "resolve:glob-of-absolute-path-dirs-only", "provenance", rw.loc(),
              "candidates are glob(absolutePath(), dir_only=true)", "candidates are " + (X(rw.nodes[lp[0]["stmt"]]["range"]) if lp else "?"))


def split_pieces_are_the_text_between_delimiters(ctx):
    """'Only empty, duplicate, leading and trailing slashes are ignored': a piece Util::split emits is exactly the text between two
    delimiters (or the ends of the input).  The positions handed to the emitting code are used as they are - not re-assigned - and
    nothing in split looks at a character other than to compare it with the delimiter (no trimming, no character classes).  Cgroup
    names may begin or end with blanks; CgroupPath builds its components with split(text, '/')."""
    P, cg = ctx.prog, ctx.cg
    sp = ctx.use(ctx.fn1("Oomd::Util::split"))
    if len(sp.params) != 2:
        ctx.broken("split-pieces-are-the-text-between-delimiters", "anchor", sp.loc(), "Util::split no longer takes (text, delimiter)")
        return
    scope_ = [sp] + list(P.lambdas_in(sp))
    CLASSY = ("find_first_not_of", "find_last_not_of", "find_first_of", "find_last_of", "isspace", "isblank", "isalnum", "isprint", "isgraph", "ispunct",
              "trim", "ltrim", "rtrim", "remove_if", "erase_if", "regex_replace")
    n_emit = 0
    for g in scope_:
        ctx.use(g)
        for i in g.calls(*CLASSY):
            ctx.violation("split-pieces-are-the-text-between-delimiters:%s@%d" % (g.nodes[i].get("cname"), g.nodes[i].get("line", 0)), "who-may-call (character classes in split)", g.loc(i),
                          "Util::split calls %s: a piece is no longer the text between two delimiters (characters are dropped or skipped by class), so "
                          "CgroupPath(\"a/ b\") and CgroupPath(\"a/b\") become the same path and a component made of blanks disappears" % g.text(i)[:70])
        for i in g.calls("emplace_back", "push_back"):
            if "recv" not in g.nodes[i] or g.text(g.nodes[i]["recv"]) not in ("ret",):
                continue
            n_emit += 1
            ends = [re.sub(r"^\(?\w+\.c?begin\(\) \+ (\w+)\)?$", r"\1", g.text(x)) for x in g.nodes[i].get("args", [])][:2]
            if len(ends) != 2 or not all(re.match(r"^\w+$", e_) for e_ in ends):
                # another spelling (substr, a string_view slice) is not followed
                ctx.broken("split-pieces-are-the-text-between-delimiters:emit@%d" % g.nodes[i].get("line", 0), "anchor", g.loc(i),
                           "cannot read the emitted piece as [begin + a, begin + b): " + g.text(i)[:70])
                continue
            for e_ in ends:
                pr = [p_ for p_ in g.params if p_["name"] == e_]
                if pr:
                    w_ = local_writes(g, e_, must=False)
                    ctx.check(not w_, "split-pieces-are-the-text-between-delimiters:%s-as-given@%d" % (e_, g.nodes[i].get("line", 0)), "no-write (parameter)", g.loc(w_[0]) if w_ else g.loc(i),
                              "the emitted piece ends at the position the caller found (%s)" % e_,
                              "the emitting code of Util::split moves its boundary '%s' before emitting: the piece is shorter than the text between the delimiters" % e_)
    ctx.counters["split_emit_sites"] = n_emit
    ctx.floor("split_emit_sites", 1, "emission sites in Util::split")
    # the delimiter test itself: some comparison of a character of the input with the parameter
    dn = sp.params[1]["name"]
    cmp_ = [i for g in scope_ for i, n in enumerate(g.nodes) if n["k"] == "bin" and n.get("op") in ("==", "!=") and re.search(r"\b%s\b" % re.escape(dn), g.text(i))]
    finds = [i for g in scope_ for i in g.calls("find") if re.search(r"\b%s\b" % re.escape(dn), g.text(i))]
    ctx.check(bool(cmp_) or bool(finds), "split-pieces-are-the-text-between-delimiters:delimiter-test", "value-shape", sp.loc(),
              "the input is cut where a character equals the delimiter parameter", "no comparison with the delimiter parameter found in Util::split")



def components_come_from_split(ctx):
    """Every component a CgroupPath ever stores is a piece of Util::split(text, '/') of the text it was given - as given, not trimmed or
    otherwise rewritten first.  resolveWildcard builds its results with the same constructor from the directory names glob(3) found: a
    constructor that edits the text turns an existing cgroup's name into another cgroup's (shared by C01: the victim is a cgroup matched
    by the configured pattern)."""
    P, cg = ctx.prog, ctx.cg
    # ---- (6) canonical components: every component ever stored comes out of Util::split(text, '/') (never empty, never containing '/')
    n_cw = 0
    for f in sorted(P.fns.values(), key=lambda x: x.line):
        if f.cls != "Oomd::CgroupPath":
            continue
        Xc = Expander(P, f, mark_modified=True)
        for i in range(len(f.nodes)):
            if "F:Oomd::CgroupPath::cgroup_path_" not in node_writes(f, i) or f.pos_of(i) is None:
                continue
            n_ = f.nodes[i]
            nm = n_.get("cname") or n_.get("op") or ""
            t = Xc(i)
            n_cw += 1
            if nm in ("pop_back", "reserve", "clear", "shrink_to_fit"):
                ok_ = True
            elif nm in ("operator=", "="):
                rhs = t.split("=", 1)[1] if "=" in t else t
                ok_ = re.search(r"Oomd::Util::split\(param:\w+, 47\)", t) is not None or re.search(r"(param:)?other\.cgroup_path_", t) is not None
            elif nm in ("emplace_back", "push_back"):
                a = Xc(f.nodes[i]["args"][0]) if f.nodes[i].get("args") else ""
                a = re.sub(r"^std::move\((.*)\)$", r"\1", a)
                # an element of the split result, whichever way it is addressed (range-for, iterator, index)
                ok_ = re.match(r"^elem\(Oomd::Util::split\(param:\w+, 47\)\)$", a) is not None or \
                    re.match(r"^Oomd::Util::split\(param:\w+, 47\)(\[[^\[\]]*\]|\.at\([^()]*\))$", a) is not None
            elif nm in ("insert", "assign", "append_range", "insert_range") and len(f.nodes[i].get("args", [])) >= 2:
                # a whole range appended at once: [split(..).begin(), split(..).end()) (move iterators or not), at the vector's end
                aa = [re.sub(r"^std::make_move_iterator\((.*)\)$", r"\1", Xc(x)) for x in f.nodes[i]["args"]]
                rng = aa[-2:]
                SPL = r"Oomd::Util::split\(param:\w+, 47\)"
                ok_ = re.match(r"^%s\.c?begin\(\)$" % SPL, rng[0]) is not None and re.match(r"^%s\.c?end\(\)$" % SPL, rng[1]) is not None and \
                    (nm != "insert" or re.search(r"cgroup_path_\.c?end\(\)\)?$", aa[0]) is not None)
            elif nm == "back_inserter":
                # std::move / std::copy(split(..).begin(), split(..).end(), std::back_inserter(components)): the same whole-range append
                par_ = f.parent.get(i)
                while par_ is not None and f.nodes[par_]["k"] in ("cast", "paren", "other", "construct"):
                    par_ = f.parent.get(par_)
                pn_ = f.nodes[par_] if par_ is not None else {}
                SPL = r"Oomd::Util::split\(param:\w+, 47\)"
                ok_ = pn_.get("k") == "call" and (pn_.get("callee") or "").split("(")[0] in ("std::move", "std::copy") and len(pn_.get("args", [])) == 3 and \
                    re.match(r"^%s\.c?begin\(\)$" % SPL, Xc(pn_["args"][0])) is not None and re.match(r"^%s\.c?end\(\)$" % SPL, Xc(pn_["args"][1])) is not None
            else:
                ok_ = False
            ctx.check(ok_, "components-come-from-split:%s@%s:%d" % (f.name, nm, n_.get("line", 0)), "who-may-write + provenance", f.loc(i),
                      "%s stores only pieces of Util::split(text, '/') (or removes / copies components)" % f.name,
                      "%s writes the component vector with %s: a component may be empty or contain '/', so equal paths get different canonical forms" % (f.name, t[:120]))
    ctx.counters["component_vector_writes"] = n_cw
    ctx.floor("component_vector_writes", 4, "writes of cgroup_path_ (constructor, getParent, getChild)")

def run(ctx):
    split_pieces_are_the_text_between_delimiters(ctx)
    P, cg = ctx.prog, ctx.cg
    # 'paths are canonical': the constructors normalise the caller's text, not what is left of it after a move
    members = [f for f in P.fns.values() if f.pq.startswith("Oomd::CgroupPath::") and f.file.startswith("oomd/")]
    ctx.counters["cgroup_path_members"] = len(members)
    ctx.floor("cgroup_path_members", 10, "member functions of CgroupPath")
    no_use_after_move(ctx, members, "C16")
    from .C07 import can_run_is_the_pattern_loop
    can_run_is_the_pattern_loop(ctx)
    # precondition: plain getters
    for nm, fld in (("absolutePath", "absolute_cache_"), ("relativePath", "relative_cache_")):
        f = ctx.fn1("Oomd::CgroupPath::" + nm)
        rets = [ret_text(f, r) for r in returns(f)]
        if rets != ["this->" + fld] or len(f.calls()) > 0:
            ctx.broken("precondition:%s-is-a-getter" % nm, "anchor", f.loc(), "%s() is no longer a plain getter of %s: the recompute rule does not apply" % (nm, fld))
        else:
            ctx.ok("precondition:%s-is-a-getter" % nm, "anchor", f.loc(), "%s() returns the cache field" % nm)
    # ---- (1) equality and hash through absolutePath()
    eq = ctx.fn1("Oomd::CgroupPath::operator==")
    ctx.anchor(eq, "other")
    # absolutePath() is a plain getter of absolute_cache_ (precondition above): both spellings are the same comparison
    t = [ret_text(eq, r).replace(".absolutePath()", ".absolute_cache_").replace("this->absolutePath()", "this->absolute_cache_") for r in returns(eq)]
    ctx.check(t in (["(this->absolute_cache_ == other.absolute_cache_)"], ["(other.absolute_cache_ == this->absolute_cache_)"]), "equality-by-absolute-path", "expression-tree", eq.loc(),
              "operator== compares absolute paths", "operator== is " + str(t))
    ne = ctx.fn1("Oomd::CgroupPath::operator!=")
    t = [ret_text(ne, r).replace(".absolutePath()", ".absolute_cache_").replace("this->absolutePath()", "this->absolute_cache_") for r in returns(ne)]
    ctx.check(t in (["!this->operator==(other)"], ["!(*this == other)"], ["!(other == *this)"], ["(this->absolute_cache_ != other.absolute_cache_)"], ["(other.absolute_cache_ != this->absolute_cache_)"],
                    ["!(this->absolute_cache_ == other.absolute_cache_)"], ["!(other.absolute_cache_ == this->absolute_cache_)"]), "inequality-is-negated-equality", "expression-tree", ne.loc(),
              "operator!= is the negation of operator==", "operator!= is " + str(t))
    hs = [f for f in P.fns.values() if f.pq == "std::hash::operator()" and f.params and "CgroupPath" in f.params[0]["type"]]
    ctx.counters["hash_specialisations"] = len(hs)
    ctx.floor("hash_specialisations", 1, "std::hash<CgroupPath>")
    for f in hs:
        ctx.use(f)
        pn = f.params[0]["name"]
        t = [ret_text(f, r) for r in returns(f)]
        ctx.check(len(t) == 1 and re.match(r"^(std::)?hash(<[^>]*>)?\(\)\(%s\.absolutePath\(\)\)$" % re.escape(pn), t[0].replace("std::hash", "hash")) is not None or
                  (len(t) == 1 and t[0].endswith("(%s.absolutePath())" % pn) and "hash" in t[0]),
                  "hash-of-absolute-path", "expression-tree", f.loc(), "std::hash<CgroupPath> hashes the absolute path", "hash is " + str(t))
    # containers keyed by CgroupPath rely on both
    # ---- (2) recompute after modification
    n_mod = 0
    for f in sorted(P.fns.values(), key=lambda x: x.line):
        if f.cls != "Oomd::CgroupPath" or f.name == "recomputeReadCache":
            continue
        # objects modified: 'this' or a local of type CgroupPath
        mods = {}       # object text -> [nodes]
        for i in range(len(f.nodes)):
            for tok in node_writes(f, i):
                if tok[2:] in FIELDS:
                    # which object?
                    n = f.nodes[i]
                    tgt = n.get("l", n.get("sub", n.get("recv", -1)))
                    # find the member node of the field inside the target expression
                    obj = None
                    for x in f.walk(tgt if isinstance(tgt, int) and tgt >= 0 else i):
                        m = f.nodes[x]
                        if m["k"] == "member" and m.get("qname") in FIELDS:
                            obj = f.text(m["base"])
                            break
                    if obj is not None and f.pos_of(i) is not None:
                        mods.setdefault(obj, []).append(i)
        for ini in f.d.get("inits", []):
            pass    # constructor initialisers precede the body: covered by the body's recompute below
        if not mods and not (f.kind == "ctor" and any(i["field"] in FIELDS and i.get("written") for i in f.d.get("inits", []))):
            continue
        if f.kind == "ctor" and not mods:
            mods = {"this": []}
        # memberwise copies (defaulted copy/move) transfer the caches together with the fields
        cache_w = set()
        for i in range(len(f.nodes)):
            for tok in node_writes(f, i):
                if tok[2:] in ("Oomd::CgroupPath::absolute_cache_", "Oomd::CgroupPath::relative_cache_"):
                    cache_w.add(tok[2:])
        if len(cache_w) == 2 and f.name in ("operator=", "CgroupPath"):
            ctx.ok("memberwise-copy:%s@%d" % (f.name, f.line), "class_invariant_recompute", f.loc(), "copies the caches together with the path fields")
            continue
        for obj, nodes in mods.items():
            n_mod += 1
            ctx.use(f)
            rc = [i for i in f.calls("CgroupPath::recomputeReadCache") if f.text(f.nodes[i].get("recv", -1)) == obj]
            ev = {i: [("clear", "fresh")] for i in nodes}
            for i in rc:
                ev.setdefault(i, []).append(("set", "fresh"))
            fl = Flow(P, f, events=ev, cg=cg)
            bad = []
            for kind, node, b, parts in fl.exits():
                if kind not in ("return", "fallthrough"):
                    continue
                if not all("fresh" in st.must for st in parts.values()):
                    bad.append(f.loc(node) if node is not None else "end of function")
            ctx.check(bool(rc) and not bad, "recompute-after-modification:%s:%s" % (short(f), obj), "class_invariant_recompute", f.loc(),
                      "%s modifies the path of '%s' and recomputes its read cache afterwards on every path" % (f.name, obj),
                      "%s modifies cgroup_path_/cgroup_fs_ of '%s' and can return (%s) without recomputeReadCache(): absolutePath()/relativePath(), "
                      "equality and hash would describe the old path" % (f.name, obj, ", ".join(bad) if bad else "no recompute call at all"))
    ctx.counters["modifying_functions"] = n_mod
    ctx.floor("modifying_functions", 3, "CgroupPath members that modify the path (constructor, getParent, getChild)")
    # nobody outside the class touches the fields
    for f in P.fns.values():
        if f.cls == "Oomd::CgroupPath":
            continue
        for i, n in enumerate(f.nodes):
            if n["k"] == "member" and n.get("qname") in FIELDS + ("Oomd::CgroupPath::absolute_cache_", "Oomd::CgroupPath::relative_cache_"):
                ctx.violation("path-fields-private:" + short(f), "who-may-write", f.loc(i), "CgroupPath internals accessed outside the class")
    # recompute writes both caches from the two fields
    rcf = ctx.fn1("Oomd::CgroupPath::recomputeReadCache")
    wa = [i for i in range(len(rcf.nodes)) if "F:Oomd::CgroupPath::absolute_cache_" in node_writes(rcf, i)]
    wr = [i for i in range(len(rcf.nodes)) if "F:Oomd::CgroupPath::relative_cache_" in node_writes(rcf, i)]
    reads = {n.get("qname") for n in rcf.nodes if n["k"] == "member"}
    ctx.check(bool(wa) and bool(wr) and set(FIELDS) <= reads, "recompute-rebuilds-both-caches", "field-write", rcf.loc(), "recomputeReadCache rebuilds both caches from the components and the root",
              "recomputeReadCache does not rebuild both caches from cgroup_path_ and cgroup_fs_")
    # absolute path = root + "/" + relative (just the root when the relative path is empty): the pieces appended to absolute_cache_
    APP = ("operator+=", "append", "push_back")
    app = [(i, rcf.text(rcf.nodes[i]["args"][0])) for i in range(len(rcf.nodes)) if rcf.nodes[i]["k"] == "call" and rcf.pos_of(i) is not None and
           (rcf.nodes[i].get("cname") in APP or rcf.nodes[i].get("op") == "+=") and rcf.nodes[i].get("args") and rcf.text(rcf.nodes[i].get("recv", -1)) == "this->absolute_cache_"]
    root_a = [i for i, t in app if t == "this->cgroup_fs_"]
    sep_a = [i for i, t in app if t in ("47", '"/"')]
    rel_a = [i for i, t in app if t == "this->relative_cache_"]
    other = [t for i, t in app if i not in root_a + sep_a + rel_a]
    frc = Flow(P, rcf, events={**{i: [("set", "root")] for i in root_a}, **{i: [("set", "sep")] for i in sep_a}}, cg=cg)
    NONEMPTY = lambda k, p: (k in ("this->relative_cache_.size()",) and p is True) or (k == "this->relative_cache_.empty()" and p is False)
    ok_abs = len(root_a) == 1 and len(sep_a) == 1 and len(rel_a) == 1 and not other
    why = "appends: " + str([t for _, t in app])
    if ok_abs:
        # facts about the object's state (exit conditions of the earlier loops over purely local counters hold on every path here)
        gs = [(k, p) for k, p in frc.guards(sep_a[0]) if not is_loop_control_fact(k) and "this->" in k]
        gr = [(k, p) for k, p in frc.guards(rel_a[0]) if not is_loop_control_fact(k) and "this->" in k]
        # the separator depends on nothing but 'the relative path is not empty'; the relative path always follows root and separator
        if not all(NONEMPTY(k, p) for k, p in gs):
            ok_abs, why = False, "the '/' between root and relative path is appended only under %s" % sorted((k, p) for k, p in gs if not NONEMPTY(k, p))
        elif not (frc.must(rel_a[0], "root") and frc.must(rel_a[0], "sep")):
            ok_abs, why = False, "the relative path can be appended without the root or the '/' before it"
        elif not frc.must(sep_a[0], "root") or [1 for k, p in frc.guards(root_a[0]) if not is_loop_control_fact(k) and "this->" in k]:
            ok_abs, why = False, "the root is not appended unconditionally before the '/'"
    ctx.check(ok_abs, "absolute-is-root-slash-relative", "value-shape + must_precede", rcf.loc(sep_a[0]) if sep_a else rcf.loc(),
              "absolute path = root, then '/' + relative path exactly when the relative path is non-empty",
              "recomputeReadCache does not build root + '/' + relative: %s (resolveWildcard maps glob results back by the character after the root, "
              "and equality / hashing go through this text)" % why)
    pattern_match_rule(ctx)
    components_come_from_split(ctx)
    gp = ctx.fn1("Oomd::CgroupPath::getParent")
    pops = gp.calls("pop_back")
    fgp = Flow(P, gp, events={i: [("set", "popped")] for i in pops}, cg=cg)
    okp = len(pops) == 1 and not fgp.may(pops[0], "popped")
    for kind, node, b, parts in fgp.exits():
        if kind == "return" and not all("popped" in st.must for st in parts.values()):
            okp = False
    ctx.check(okp, "getParent-drops-exactly-one-component", "per-path exactly-once", gp.loc(), "getParent removes exactly the last component on every returning path",
              "getParent does not remove exactly one component")
    resolve_rule(ctx)
