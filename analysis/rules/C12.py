"""C12 Configuration: rejected cleanly or honoured exactly (DESIGN 4/C12)."""
import re
from .common import *
from ..escape import Escape

EXPLANATION = (
    "Decides for every configuration text / IR: (i) no exception (any trigger class: text "
    "conversions, jsoncpp shape errors, container/optional access, explicit throws) escapes from the "
    "configuration-loading call edges of main(), from the drop-in watcher thread's entry, or from "
    "DropInServiceAdaptor::updateDropIns - exception-escape propagation over the whole call graph "
    "with try/handler types; (ii) every std::sto* conversion of configuration text passes a position "
    "argument that is compared with the input length (full-consumption idiom); (iii) Util::parseSize "
    "converts a floating value to an integer only under a finiteness test and an upper bound, adds a "
    "term to the running total only where total + term is bounded by a constant that evaluates to at "
    "most 2^63 with the matching strictness (so the total cannot wrap or reach INT64_MIN), and "
    "parseSizeOrPercent shifts only range-checked values; (iv) for every addArgumentCustom the "
    "parser's own result type agrees with the destination (no integer parser for a fractional "
    "destination, no unsigned conversion for a signed 64-bit value); (v) every plugin init tests the "
    "result of argument parsing and fails on its failure edge (or delegates), and PluginArgParser::parse "
    "reaches an error return on missing-required, unknown-name and conversion failure; (vi) the JSON "
    "front end returns the invalid plugin when an argument value is not a scalar; (vii) compile "
    "functions return null on every validation failure and fill plugin vectors in IR order; a "
    "drop-in is enqueued only if it compiled.  Exact byte values of valid size strings are not decided.")
RULE_SUMMARY = "E-ESCAPE from configuration roots, deviant-behaviour rule on sto* (full consumption), guard dominance in parseSize, E-TYPE parser/destination agreement, sibling rule over init overrides"
NOT_DECIDED = ["exact byte values produced for valid size strings (arithmetic)"]
ASSUMPTIONS = ["jsoncpp accessors throw Json::LogicError (a std::exception) on shape mismatch"]

STO = re.compile(r"^std::sto(i|l|ll|ul|ull|f|d|ld)$")


def config_scope(ctx):
    """Functions that handle configuration text: closure of compile/compileDropIn/parse, every
    init override, PluginArgParser and Util::parseSize*; kernel-file readers (Fs::) excluded."""
    P, cg = ctx.prog, ctx.cg
    roots = []
    for q in ("Oomd::Config2::compile", "Oomd::Config2::compileDropIn", "Oomd::Config2::JsonConfigParser::parse"):
        roots += [f.usr for f in P.fn(q)]
    for f in P.fns.values():
        if f.name in ("init", "initPlugin") or f.pq.startswith(("Oomd::PluginArgParser::", "Oomd::Util::parseSize")):
            roots.append(f.usr)
    scope = cg.reach(roots)
    return {u for u in scope if not P.fns[u].pq.startswith(("Oomd::Fs::", "Oomd::CgroupContext", "Oomd::OomdContext", "Oomd::Stats",
                                                            "Oomd::Log", "Oomd::CgroupPath", "Oomd::Engine::Ruleset::Ruleset",
                                                            "Oomd::SystemMaybe", "Oomd::systemError"))}


def scalar_class(t):
    t = t.replace("const ", "").strip()
    if t in ("float", "double", "long double"):
        return "float", {"float": 32, "double": 64, "long double": 80}[t]
    m = {"int": ("int", 32), "long": ("int", 64), "long long": ("int", 64), "int64_t": ("int", 64), "int32_t": ("int", 32),
         "unsigned int": ("uint", 32), "unsigned long": ("uint", 64), "unsigned long long": ("uint", 64), "uint64_t": ("uint", 64),
         "uint32_t": ("uint", 32), "bool": ("bool", 1), "short": ("int", 16), "size_t": ("uint", 64)}
    if t in m:
        return m[t]
    m2 = re.match(r"^std::optional<(.+)>$", t)
    if m2:
        return scalar_class(m2.group(1))
    return None, None


def ruleset_settings_text(ctx):
    """Shared by C05 and C12: every text setting of a ruleset (post_action_delay, prekill_hook_timeout, silence-logs, cgroup, xattr_filter,
    name) reaches the IR as the JSON value's own asString() - numbers included, `"post_action_delay": 20` and `"20"` are the same setting
    (docs/configuration.md spells it <int>).  Helpers are followed: each value a helper can return is the member's asString(); a constant
    stands in only where the member is absent / null."""
    P = ctx.prog
    fs = [f for f in P.fns.values() if (f.pq == "parseRuleset" or f.pq.endswith("::parseRuleset")) and f.file.startswith("oomd/")]
    ctx.counters["parseRuleset_instances"] = len(fs)
    ctx.floor("parseRuleset_instances", 1, "parseRuleset in the JSON front end")
    JSONTYPE = re.compile(r"\.(isString|isNumeric|isInt|isUInt|isInt64|isUInt64|isIntegral|isDouble|isBool|isConvertibleTo)\(")
    ABSENT = re.compile(r"(\.isNull\(\)|\.isMember\(|\.empty\(\)|\.find\()")
    n_set = 0
    for f in fs:
        ctx.use(f)
        X = Expander(P, f)
        for i, n in enumerate(f.nodes):
            if not ((n["k"] == "bin" and n.get("op") == "=") or (n["k"] == "call" and (n.get("callee") or "").endswith("operator="))):
                continue
            lhs = n.get("l", n.get("recv"))
            rhs = n["r"] if "r" in n else (n.get("args") or [None])[0]
            if lhs is None or rhs is None or f.pos_of(i) is None:
                continue
            ln = f.nodes[f.strip(lhs)]
            if ln["k"] != "member" or "string" not in (ln.get("type") or "") or "IR::Ruleset" not in (f.nodes[f.strip(ln.get("base", -1))].get("type") or "") if "base" in ln else True:
                continue
            field = ln.get("name") or f.text(lhs).split(".")[-1]
            n_set += 1
            # the alternative values, helpers followed one level
            leaves = []        # (function, leaf node, guards)
            for lf in value_leaves(f, rhs):
                cn_ = f.nodes[f.strip(lf)]
                hs_ = [P.fns[u] for u in P.resolve(cn_.get("cusr", "")) if u in P.fns] if cn_["k"] == "call" and cn_.get("cusr") else []
                hs_ = [h_ for h_ in hs_ if h_.file.startswith("oomd/")]
                if hs_ and len({(h_.pq, h_.line) for h_ in hs_}) == 1:
                    h_ = hs_[0]
                    ctx.use(h_)
                    fh = Flow(P, h_, cg=ctx.cg)
                    Xh = Expander(P, h_)
                    for r_, v_ in return_leaves(h_):
                        leaves.append((h_, v_, expanded_guards(P, h_, fh, v_, Xh), Xh(v_)))
                else:
                    leaves.append((f, lf, frozenset(), X(lf)))
            bad, unknown = [], []
            for g_, v_, gd, txt in leaves:
                if re.search(r"\.asString\(\)$", txt):
                    # ... and not behind a type test that keeps numbers out
                    drops = [k for k, p_ in gd if isinstance(k, str) and JSONTYPE.search(k) and ".isString(" in k and p_ is True]
                    if drops:
                        pass        # asString() under isString(): fine for that branch; the other branch is judged below
                    continue
                typed = [(k, p_) for k, p_ in gd if isinstance(k, str) and JSONTYPE.search(k)]
                absent = [(k, p_) for k, p_ in gd if isinstance(k, str) and ABSENT.search(k)]
                if typed and not absent:
                    bad.append("%s under %s" % (txt[:40] or "an empty string", ", ".join("%s is %s" % (k, p_) for k, p_ in typed)))
                elif absent:
                    continue
                else:
                    unknown.append(txt[:60])
            inst = "settings:text-is-the-json-scalar:" + field
            if bad:
                ctx.violation(inst, "provenance (helpers followed)", f.loc(i),
                              "ruleset setting '%s' is not the JSON value's own text: it becomes %s - a setting written as a JSON number (as the "
                              "documentation spells it) is dropped or replaced silently and the default is used" % (field, "; ".join(bad)))
            elif unknown:
                ctx.broken(inst, "provenance (helpers followed)", f.loc(i), "cannot tell where the text of '%s' comes from: %s" % (field, "; ".join(unknown)))
            else:
                ctx.ok(inst, "provenance (helpers followed)", f.loc(i), "ruleset setting '%s' is the JSON member's own asString()" % field)
    ctx.counters["ruleset_text_settings"] = n_set
    ctx.floor("ruleset_text_settings", 4, "text settings assigned in parseRuleset (post_action_delay, prekill_hook_timeout, silence-logs, cgroup, ...)")


def one_name_per_destination(ctx):
    """Shared by C01 and C12: every plugin member is the destination of one argument name.  (For the kill plugins: `recursive`, `cgroup`,
    `always_continue`, `dry` ... each land in their own member - a name bound to a neighbour's member switches that neighbour's
    behaviour on, e.g. always_continue=true making the plugin descend as if recursive were set.)"""
    P = ctx.prog
    # ------------------------------------------------ (iv-a) one destination, one argument name: PluginArgParser::parse fills values in the
    # iteration order of an unordered_map, so two names bound to the same member make the result depend on the hash order
    n_dest = 0
    for f in sorted(P.fns.values(), key=lambda x: (x.file, x.line)):
        regs = [i for i in f.calls("PluginArgParser::addArgument", "PluginArgParser::addArgumentCustom") if len(f.nodes[i].get("args", [])) >= 2]
        if not regs:
            continue
        by_dest = {}
        for i in regs:
            a = f.nodes[i]["args"]
            by_dest.setdefault(f.text(a[1]), []).append((f.text(a[0]), i))
        for dest, lst in by_dest.items():
            n_dest += 1
            names = sorted({nm for nm, _ in lst})
            if len(lst) > 1:
                ctx.violation("one-name-per-destination:%s:%s" % (short(f), dest), "table (argument name -> destination)", f.loc(lst[1][1]),
                              "%s is the destination of %d registrations (%s): when both names are given the stored value is whichever the unordered "
                              "argument map yields last, not the documented one" % (dest, len(lst), ", ".join(names)))
    ctx.counters["argument_destinations"] = n_dest
    ctx.floor("argument_destinations", 40, "distinct (init, destination) pairs registered with PluginArgParser")
    ctx.ok("one-name-per-destination", "table (argument name -> destination)", "-", "%d destinations, each registered once" % n_dest)


def settings_numbers_not_narrowed(ctx):
    """A number read from the configuration text reaches its setting without being cut to fewer bits on the way: inside the configuration
    scope no 64-bit integer is implicitly converted to 32 bits or less - neither by an IntegralCast nor inside std::optional<int>'s
    converting constructor (`return v;` with v a long long) - unless a dominating range test mentions the value.  A cut value makes
    "4294967296" a valid timeout of 0 instead of a configuration error."""
    P, cg = ctx.prog, ctx.cg

    def bits(t):
        m = re.match(r"[iu](\d+)$", t or "")
        return int(m.group(1)) if m else None
    n_opt = n_cast = 0
    for u in sorted(config_scope(ctx)):
        f = P.fns[u]
        if not f.file.startswith("oomd/") or f.pq.startswith("Oomd::OOMD_TIME_STR"):
            continue
        sites = []
        for i, n in enumerate(f.nodes):
            if n["k"] == "cast" and n.get("implicit") and n.get("ck") == "IntegralCast":
                fb, tb = bits(n.get("fromtw")), bits(n.get("tw"))
                src = f.nodes[f.strip(n["sub"])]
                if fb and tb and fb > tb and tb <= 32 and src["k"] != "lit" and "cval" not in src:
                    sites.append((i, n["sub"], "%d-bit value is implicitly cut to %d bits" % (fb, tb)))
            if n["k"] == "construct" and (n.get("type") or "").startswith("std::optional<") and n.get("ptypes") and n.get("args"):
                dc, dw = scalar_class(n["type"])
                sc_, sw = scalar_class(n["ptypes"][0].replace("&&", "").replace("&", "").strip())
                if dc in ("int", "uint") and sc_ in ("int", "uint", "float"):
                    n_opt += 1
                    if sc_ == "float" or (sw and dw and sw > dw):
                        sites.append((i, n["args"][0], "%s is built from a %s: the conversion inside the optional's constructor cuts it to %d bits" % (
                            n["type"], n["ptypes"][0], dw)))
        if not sites:
            continue
        ctx.use(f)
        fl = Flow(P, f, cg=cg)
        for i, src, why in sites:
            n_cast += 1
            txt = f.text(src)
            g = fl.guards(i) if f.pos_of(i) is not None else []
            ranged = any(isinstance(k, str) and re.search(r"(?<![\w.])%s(?![\w])" % re.escape(txt), k) and re.search(r"max\(\)|INT_MAX|UINT_MAX|[<>]=? ?\d{4,}", k) for k, p in g)
            ctx.check(ranged, "settings-number-not-narrowed:%s@%d" % (short(f), f.nodes[i].get("line", 0)), "E-TYPE narrowing", f.loc(i),
                      "the wider value is range-tested before it is cut", "%s: %s, with no dominating range test on %s - a number that does not fit is "
                      "accepted as a different number instead of being refused" % (f.pq, why, txt))
    ctx.counters["optional_int_constructions"] = n_opt
    ctx.floor("optional_int_constructions", 1, "constructions of an optional integer in the configuration scope")
    ctx.ok("settings-number-not-narrowed:scan", "E-TYPE narrowing", "-", "%d optional-integer constructions, %d narrowing sites examined" % (n_opt, n_cast))


def config_text_is_converted_whole(ctx):
    """'Every value has a valid reading in its argument's type' - of the WHOLE text: a converter in the configuration scope does not
    cut the text at the first occurrence of a character (`str.substr(0, str.find('%'))`) and convert the head: whatever follows the
    first occurrence - "20%x", "20%5", "20% 80" - is then never looked at and a malformed value is accepted as its leading number.
    Cutting a known suffix off by length (`substr(0, size() - 1)` after testing the last character) is the accepted idiom."""
    P = ctx.prog
    n = 0
    scope_ = set(config_scope(ctx))
    for u in list(scope_):
        scope_ |= {l.usr for l in P.lambdas_in(P.fns[u])}
    for u in sorted(scope_):
        f = P.fns[u]
        if not f.file.startswith("oomd/"):
            continue
        X = None
        for i in f.calls("substr"):
            nd = f.nodes[i]
            a = nd.get("args", [])
            if not (nd.get("callee") or "").startswith("std::") or len(a) != 2 or const_int(f, a[0]) != 0:
                continue
            n += 1
            X = X or Expander(P, f)
            t = X(a[1])
            ctx.use(f)
            ctx.check(re.search(r"\.(find|find_first_of|find_first_not_of|rfind|find_last_of)\(", t) is None, "config-text-converted-whole:%s@%d" % (short(f), nd.get("line", 0)),
                      "value-shape (cut position)", f.loc(i), "a converter cuts its text by length only",
                      "%s converts the head of the text up to the first match (%s): what follows the match is never examined, so a value with "
                      "trailing garbage after it is accepted as its leading number instead of being refused" % (f.pq, f.text(i)[:90]))
    ctx.counters["config_text_head_cuts"] = n
    ctx.ok("config-text-converted-whole:scan", "value-shape (cut position)", "-", "%d substr(0, n) calls in the configuration scope examined" % n)


def failed_part_refuses_the_whole(ctx, tag):
    """'Rejected cleanly or honoured exactly': in the compile functions (Config2::compile, compileDropIn and the compile* helpers of the
    config layer they reach) a part that failed to compile - a ruleset, detector group, plugin, prekill hook - makes the function fail:
    from the 'result is null' edge nothing but a failure return (nullptr / nullopt) is reachable, and no further iteration.  Skipping
    the failed part ("ignore and continue") yields an engine that silently lacks a hook, action or detector the configuration names."""
    P, cg = ctx.prog, ctx.cg
    roots = [f.usr for q in ("Oomd::Config2::compile", "Oomd::Config2::compileDropIn") for f in P.fn(q)]
    scope_ = [P.fns[u] for u in cg.reach(roots) if P.fns[u].file.startswith("oomd/config/") and P.fns[u].kind != "lambda"]
    n_parts = 0
    for f in sorted(scope_, key=lambda x: (x.file, x.line)):
        parts = locals_receiving(f, r"(?<![\w:])(Oomd::Config2::)?compile\w*\(")
        if not parts:
            continue
        ctx.use(f)
        n_parts += len(parts)
        tok = lambda k, p, parts=parts: ["part-failed"] if (isinstance(k, str) and ((k in parts and p is False) or
                                                                                     (re.fullmatch(r"\((%s) == nullptr\)|\(nullptr == (%s)\)" % (("|".join(map(re.escape, parts)),) * 2), k) and p is True))) else None
        fl = Flow(P, f, cg=cg, edge_tokens=tok)
        bad = []
        for kind, node, b, st_parts in fl.exits():
            if kind not in ("return", "fallthrough"):
                continue
            if any("part-failed" in st.may for st in st_parts.values()):
                t = ret_text(f, node) if node is not None and kind == "return" else "end of function"
                if not re.fullmatch(r"nullptr|std::nullopt|\{\}|std::unique_ptr\(nullptr\)|std::optional\(std::nullopt\)", t) and "nullopt" not in t and "nullptr" not in t:
                    bad.append("returns %s at %s" % (t[:40], f.loc(node) if node is not None else f.loc()))
        for l in loops(f):
            for b in back_sources(l):
                if any("part-failed" in st.may for st in (fl.OUT.get(b) or {}).values()):
                    bad.append("goes on to the next iteration of the loop at %s" % (f.loc(l["stmt"]) if l["stmt"] is not None else f.loc()))
        ctx.check(not bad, "%s:failed-part-refuses-the-whole:%s" % (tag, short(f)), "passed_edge + return_table", f.loc(),
                  "a part that failed to compile fails %s" % f.pq,
                  "%s goes on after a part failed to compile (%s): the configuration is accepted although a ruleset / plugin / prekill hook it names is missing "
                  "from the engine - the remaining hooks move up in priority, the remaining actions run without the one that was dropped" % (f.pq, "; ".join(sorted(set(bad))[:3])))
    ctx.counters[tag + "_compiled_parts"] = n_parts
    ctx.floor(tag + "_compiled_parts", 6, "locals holding the result of a compile* call in the compile scope")


def run(ctx):
    config_text_is_converted_whole(ctx)
    from .C11 import instance_action_args
    instance_action_args(ctx)      # an instance's action is initialised with the arguments the configuration gives it
    failed_part_refuses_the_whole(ctx, "C12")
    from .C13 import compile_dropin_refuses_whole_unit
    compile_dropin_refuses_whole_unit(ctx)
    from .C13 import compile_keeps_nothing_between_calls
    compile_keeps_nothing_between_calls(ctx, "C12")
    integer_text_is_decimal(ctx, "C12")
    from .C13 import dropin_unit_holds_merged_targets
    dropin_unit_holds_merged_targets(ctx)
    size_components_kept_in_double(ctx, "C12")
    from .C13 import merge_writes_only_overridable_parts
    merge_writes_only_overridable_parts(ctx)
    ruleset_settings_text(ctx)
    settings_numbers_not_narrowed(ctx)
    # locals / parameters the rules below refer to by name (a rename makes the analysis 'broken', never a violation)
    ctx.anchor(ctx.fn1('Oomd::Util::parseSize'), 'v')
    ctx.anchor(ctx.fn1('Oomd::Util::parseSizeOrPercent'), 'v')
    ctx.anchor(ctx.fn1('Oomd::PluginArgParser::parse'), 'args', 'argName', 'funcRes')
    P, cg = ctx.prog, ctx.cg
    E = Escape(P, cg)
    ALL = {"text", "absent", "explicit", "shape", "assert", "strpos"}

    # ------------------------------------------------ (i) escapes
    mains = [f for f in P.fns.values() if f.pq == "main"]
    if len(mains) != 1:
        ctx.broken("main", "anchor", "-", "function main not found")
        return
    main = ctx.use(mains[0])
    edges = []
    for nm in ("parseConfig", "Oomd::Config2::compile", "Oomd::Oomd::Oomd"):
        for i in main.calls(nm):
            edges.append((nm, i))
    ctx.counters["main_config_edges"] = len(edges)
    ctx.floor("main_config_edges", 4, "configuration-loading call edges in main()")
    n_sites = 0

    def report(root_name, found):
        nonlocal n_sites
        seen, fam = set(), {}
        for s, chain in found:
            if s.key in seen:
                continue
            seen.add(s.key)
            n_sites += 1
            if s.fn.pq == "Oomd::Stats::Stats" and s.cls == "explicit":
                # Stats::get() constructs its singleton inside Stats::init (which catches this);
                # every other caller is guarded by Stats::isInit()
                ctx.ok("escape-accepted:Stats-singleton:" + root_name, "E-ESCAPE(accepted)", s.loc(),
                       "stats singleton construction happens in Stats::init, callers are guarded by isInit()")
                continue
            fam.setdefault(s.exc, []).append((s, chain))
        for exc, lst in sorted(fam.items()):
            s, chain = lst[0]
            ex = "; ".join("%s at %s" % (x.what, x.loc()) for x, _ in lst[:4])
            ctx.violation("escape:%s:%s" % (root_name, exc), "E-ESCAPE", s.loc(),
                          "%d throw site(s) of %s escape from %s (e.g. %s): a configuration that triggers one is not "
                          "rejected cleanly but terminates the %s" % (
                              len(lst), exc, root_name, ex,
                              "watcher thread (std::terminate)" if "FsDropInService::run" in root_name else "process"),
                          chain)
        if not seen:
            ctx.ok("escape:%s" % root_name, "E-ESCAPE", main.loc(), "no throw site escapes from " + root_name)
    for nm, i in edges:
        report("main->%s@%s" % (nm.split("::")[-1], "check" if main.nodes[i]["line"] < 450 else "daemon"),
               E.from_call(main, i, classes=ALL))
    for q in ("Oomd::FsDropInService::run", "Oomd::DropInServiceAdaptor::updateDropIns", "Oomd::Stats::init"):
        f = ctx.fn1(q)
        cls = ALL if "Stats" not in q else {"explicit"}
        report(q.replace("Oomd::", ""), E.from_root(f, classes=cls))

    # ------------------------------------------------ (ii) full-consumption idiom
    scope = config_scope(ctx)
    ctx.counters["config_scope_functions"] = len(scope)
    ctx.floor("config_scope_functions", 60, "functions handling configuration text")
    n_sto = 0
    for u in sorted(scope):
        f = P.fns[u]
        for i in f.calls():
            c = f.callee(i)
            if not STO.match(c):
                continue
            n_sto += 1
            ctx.use(f)
            a = f.nodes[i]["args"]
            pos = f.text(a[1]) if len(a) > 1 else "nullptr"
            owner = f
            while owner.kind == "lambda" and owner.d.get("parentfn") in P.fns:
                owner = P.fns[owner.d["parentfn"]]
            inst = "full-consumption:%s:%s(%s)" % (short(owner), c.split("::")[-1], f.text(a[0])[:30])
            ok = False
            why = "no position argument: trailing garbage ('12abc', '1.5' for an integer) is accepted silently"
            pnode = f.nodes[f.strip(a[1])] if len(a) > 1 else None
            if pnode is not None and pnode["k"] == "ref" and pnode.get("dk") == "param" and pnode.get("tw") == "p":
                # the position is handed in by the caller: every invocation of this callable must
                # pass the address of a local that is compared with the input length
                pidx = pnode["pidx"]
                sites = [e for e in cg.inn.get(f.usr, []) if isinstance(e.node, int)]
                good = bool(sites)
                for e in sites:
                    h = P.fns[e.src]
                    cargs = h.nodes[e.node].get("args", [])
                    at = h.text(cargs[pidx]) if pidx < len(cargs) else "?"
                    if not at.startswith("&"):
                        good = False
                        continue
                    pv2 = at[1:]
                    cmp_ok = any(n2["k"] == "bin" and n2["op"] in ("==", "!=", "<", ">=") and
                                 re.search(r"\b%s\b" % re.escape(pv2), h.text(j2)) and re.search(r"\.(length|size)\(\)", h.text(j2))
                                 for j2, n2 in enumerate(h.nodes))
                    good = good and cmp_ok
                    ctx.use(h)
                ok = good
                why = "the position parameter is not checked against the input length by every caller"
            if not ok and pos.startswith("&"):
                pv = pos[1:]
                src = f.text(a[0])
                # a comparison of the position with the input's length must exist
                for j, n in enumerate(f.nodes):
                    if n["k"] == "bin" and n["op"] in ("==", "!=", "<", ">="):
                        t = f.text(j)
                        if re.search(r"\b%s\b" % re.escape(pv), t) and re.search(r"\.(length|size)\(\)", t):
                            ok = True
                if not ok:
                    why = "position '%s' is never compared with the input length" % pv
            ctx.check(ok, inst, "deviant-behaviour(full-consumption)", f.loc(i),
                      "conversion checks that the whole text was consumed", why)
    ctx.counters["sto_sites_in_config_scope"] = n_sto
    ctx.floor("sto_sites_in_config_scope", 3, "std::sto* sites in configuration scope")

    # ------------------------------------------------ (iii) parseSize / parseSizeOrPercent
    ps = ctx.fn1("Oomd::Util::parseSize")
    fl = Flow(P, ps, cg=cg)
    conv = []
    for i, n in enumerate(ps.nodes):
        if n["k"] == "bin" and n["op"] in ("+=", "=") and ps.nodes[ps.strip(n["l"])].get("tw", "").startswith(("u", "i")):
            r = ps.nodes[ps.strip(n["r"])]
            if r.get("tw", "").startswith("f") or (r["k"] == "cast" and r.get("fromtw", "").startswith("f")):
                conv.append(i)
        elif n["k"] == "cast" and n.get("ck") == "FloatingToIntegral":
            conv.append(i)
    conv = [i for i in conv if ps.pos_of(i) is not None]
    ctx.counters["parseSize_float_to_int"] = len(conv)
    ctx.floor("parseSize_float_to_int", 1, "floating->integer conversion in parseSize")
    for i in conv[:1]:
        g = fl.guards(i)
        finite = any((("isfinite(" in k or "isnan(" in k or "isinf(" in k)) for k, p in g)
        bounded = any(re.match(r"^\(.+ < v\)$", k) and p is False or re.match(r"^\(v < .+\)$", k) and p is True for k, p in g)
        ctx.check(finite and bounded, "parseSize:float-to-int-guarded", "guarded_by", ps.loc(i),
                  "the value is converted only when finite and below an upper bound",
                  "a floating value is added to the integer size without a finiteness test and an upper bound "
                  "('1e30', 'nan', 'inf', '99999999999T' are accepted as garbage; the conversion is undefined behaviour)",
                  witness_path(ps, fl, i))
    # the running total: every accumulation is dominated by a bound on total + term that keeps it below 2^63
    Xps = Expander(P, ps)
    LIM = 9223372036854775808.0

    def const_of(txt):
        t = txt
        init, v = local_init(ps, t, must=False) if re.match(r"^\w+$", t) else (-1, None)
        if v is not None and init is not None and init >= 0:
            t = ps.text(init)
        t = t.strip("()")
        try:
            return float(t)
        except ValueError:
            return None
    acc = [i for i, n in enumerate(ps.nodes) if n["k"] == "bin" and n["op"] in ("+=",) and ps.pos_of(i) is not None and
           ps.nodes[ps.strip(n["l"])].get("k") == "ref" and ps.nodes[ps.strip(n["l"])].get("tw", "").startswith(("u", "i")) and
           ps.nodes[ps.strip(n["l"])].get("name") not in ("pos",)]
    ctx.counters["parseSize_accumulations"] = len(acc)
    ctx.floor("parseSize_accumulations", 1, "accumulation of a term into the size in parseSize")
    for i in acc:
        tot = ps.text(ps.nodes[i]["l"])
        term = ps.text(ps.strip(ps.nodes[i]["r"]))
        g = fl.guards(i)
        ok, seen = False, []
        for k, p in g:
            m1 = re.match(r"^\(\((?:%s \+ %s|%s \+ %s)\) < (.+)\)$" % (re.escape(tot), re.escape(term), re.escape(term), re.escape(tot)), k)
            m2 = re.match(r"^\((.+) < \((?:%s \+ %s|%s \+ %s)\)\)$" % (re.escape(tot), re.escape(term), re.escape(term), re.escape(tot)), k)
            if m1 and p is True:
                c = const_of(m1.group(1))
                seen.append("total + term < %s" % m1.group(1))
                ok = ok or (c is not None and c <= LIM)
            if m2 and p is False:
                c = const_of(m2.group(1))
                seen.append("total + term <= %s" % m2.group(1))
                ok = ok or (c is not None and c < LIM)
            # integer form: total <= MAX - term
            m3 = re.match(r"^\(\((.+) - %s\) < %s\)$" % (re.escape(term), re.escape(tot)), k)
            if m3 and p is False:
                c = const_of(m3.group(1))
                seen.append("total <= %s - term" % m3.group(1))
                ok = ok or (c is not None and c < LIM)
        ctx.check(ok, "parseSize:total-stays-below-2^63", "guarded_by + constant evaluation", ps.loc(i),
                  "each term is added only when total + term is known to stay below 2^63: the result fits int64_t and cannot wrap",
                  "'%s += %s' is not dominated by a bound that keeps total + term below 2^63 (bounds seen: %s): a total of 2^63 or more is accepted "
                  "and wraps (e.g. '8388608T' -> INT64_MIN, or several terms that only overflow together)" % (tot, term, seen or "none"), witness_path(ps, fl, i))
    pp = ctx.fn1("Oomd::Util::parseSizeOrPercent")
    fp = Flow(P, pp, cg=cg)
    sh = [i for i, n in enumerate(pp.nodes) if n["k"] == "bin" and n["op"] == "<<" and pp.pos_of(i) is not None]
    ctx.counters["shift_sites"] = len(sh)
    for i in sh:
        g = fp.guards(i)
        v = pp.text(pp.nodes[i]["l"])
        up = any((re.match(r"^\(.+ < %s\)$" % re.escape(v), k) and p is False) or (re.match(r"^\(%s < .+\)$" % re.escape(v), k) and p is True)
                 for k, p in g)
        lo = any((k == "(%s < 0)" % v and p is False) or (re.match(r"^\(-?\d+ < %s\)$" % re.escape(v), k) and p is True) for k, p in g)
        ctx.check(up and lo, "parseSizeOrPercent:shift-range-checked", "guarded_by", pp.loc(i),
                  "bare megabytes are range checked before being shifted",
                  "'%s << 20' is not dominated by a range test: large or negative bare numbers overflow / wrap" % v, witness_path(pp, fp, i))

    # percent / megabyte conversions are exact: an integer division may only be the last arithmetic step
    from ..misc import exactness
    outw = [i for i, n in enumerate(pp.nodes) if n["k"] == "bin" and n.get("op") == "=" and pp.pos_of(i) is not None and pp.text(n["l"]).replace(" ", "") in ("*output", "(*output)")]
    ctx.counters["parseSizeOrPercent_results"] = len(outw)
    ctx.floor("parseSizeOrPercent_results", 2, "assignments to *output in parseSizeOrPercent (percent and megabyte branches)")
    for i in outw:
        e = exactness(pp, pp.nodes[i]["r"])
        ctx.check(e in ("INT", "QUOT"), "parseSizeOrPercent:result-exact@%d" % pp.nodes[i].get("line", 0), "E-TYPE exactness domain (INT/QUOT/INEXACT)", pp.loc(i),
                  "the byte count is computed exactly (at most one truncating division, as the last step)",
                  "the result '%s' divides before it multiplies/adds: the truncated remainder is lost, so 'N%%' of a total that is not a multiple of the "
                  "divisor is up to N bytes-per-cent too low (thresholds no longer act at the configured value)" % pp.text(pp.nodes[i]["r"])[:80])
    init_results_checked(ctx, "C12")
    one_name_per_destination(ctx)
    # ------------------------------------------------ (iv) parser / destination agreement
    n_reg = 0
    for f in P.fns.values():
        for i in f.calls("PluginArgParser::addArgumentCustom"):
            n = f.nodes[i]
            if len(n.get("args", [])) < 3:
                continue
            n_reg += 1
            dest_t = f.nodes[f.strip(n["args"][1])].get("type", "")
            src = n["args"][2]
            ret_t = None
            for x in f.walk(src):
                m = f.nodes[x]
                if m["k"] == "lambda":
                    for u in P.resolve(m["lusr"]):
                        ret_t = P.fns[u].d.get("ret")
                elif m["k"] == "ref" and m.get("dk") == "func":
                    for u in P.resolve(m.get("usr", "")):
                        ret_t = P.fns[u].d.get("ret")
                    if ret_t is None and "parseValue" in m.get("qname", ""):
                        ret_t = dest_t        # parseValue<T>: same type by construction
                elif m["k"] == "ref" and m.get("dk") == "local" and ret_t is None:
                    # a local that holds the parser closure
                    init_, v_ = local_init(f, m["name"], must=False)
                    if v_ is not None and init_ is not None and init_ >= 0:
                        for y in f.walk(init_):
                            if f.nodes[y]["k"] == "lambda":
                                for u in P.resolve(f.nodes[y]["lusr"]):
                                    ret_t = P.fns[u].d.get("ret")
            ctx.use(f)
            owner = f
            inst = "parser-dest:%s:%s" % (short(owner), f.text(n["args"][0])[:40].strip('"'))
            if ret_t is None:
                ctx.broken(inst, "E-TYPE", f.loc(i), "cannot determine the parser's result type for " + f.text(src)[:60])
                continue
            dc, dw = scalar_class(dest_t)
            rc, rw = scalar_class(ret_t)
            bad = None
            if dc == "float" and rc in ("int", "uint"):
                bad = "an integer parser (%s) fills a fractional destination (%s): '1.5' becomes 1" % (ret_t, dest_t)
            elif dc in ("int", "uint") and rc in ("int", "uint") and rw and dw and rw > dw:
                bad = "a %d-bit parser result is narrowed into a %d-bit destination" % (rw, dw)
            elif dc in ("int", "uint") and rc == "float":
                bad = "a floating parser result is truncated into an integer destination"
            ctx.check(bad is None, inst, "E-TYPE parser/destination", f.loc(i),
                      "parser result type %s agrees with destination %s" % (ret_t, dest_t), bad or "")
    ctx.counters["addArgumentCustom_sites"] = n_reg
    ctx.floor("addArgumentCustom_sites", 10, "addArgumentCustom registrations")
    for f0 in P.fns.values():
        if f0.pq != "Oomd::PluginArgParser::parseValue":
            continue
        ret = f0.d.get("ret", "")
        rc, rw = scalar_class(ret)
        for f in [f0] + P.lambdas_in(f0):
            ctx.use(f)
            for i in f.calls():
                c = f.callee(i)
                if STO.match(c):
                    unsigned_conv = c.endswith(("stoul", "stoull"))
                    ctx.check(not (rc == "int" and unsigned_conv), "parseValue<%s>:signedness" % ret, "E-TYPE", f.loc(i),
                              "%s is parsed with a conversion of matching signedness" % ret,
                              "parseValue<%s> uses %s: out-of-range and negative values wrap instead of being rejected" % (ret, c))

    # ------------------------------------------------ (v) init overrides test the parse result
    inits = [f for f in P.fns.values() if f.name == "init" and f.kind == "method" and f.params and "PluginArgs" in f.params[0]["type"]]
    ctx.counters["init_overrides"] = len(inits)
    ctx.floor("init_overrides", 15, "plugin init overrides")
    for f in inits:
        ctx.use(f)
        parses = f.calls("PluginArgParser::parse")
        fl_ = Flow(P, f, cg=cg, edge_tokens=lambda k, p: ["parsed-ok"] if ("argParser_.parse(" in k and p is True) else (
            ["parse-failed"] if ("argParser_.parse(" in k and p is False) else None))
        delegates = [r for r in returns(f) if re.search(r"::init\(", ret_text(f, r)) or "init(" in ret_text(f, r)]
        inst = "init-tests-parse:" + short(f)
        if not parses and not delegates:
            ctx.violation(inst, "sibling_agreement", f.loc(),
                          "init neither parses its arguments nor delegates: any argument (unknown names included) is "
                          "accepted silently")
            continue
        ok = True
        for kind, node, b, parts in fl_.exits():
            if kind != "return":
                continue
            t = ret_text(f, node)
            if node in delegates:
                continue
            if t == "0":
                if parses and not all("parsed-ok" in st.must for st in parts.values()):
                    ok = False
            if any("parse-failed" in st.may for st in parts.values()) and t == "0":
                ok = False
        ctx.check(ok, inst, "sibling_agreement", f.loc(),
                  "success is returned only after argParser_.parse succeeded (or init delegates)",
                  "init can return 0 although argument parsing failed or was skipped")
    pa = ctx.fn1("Oomd::PluginArgParser::parse")
    # locals that hold an iterator into the filler table / the result of a filler
    it_names = [v_["name"] for d_ in pa.all("decl") for v_ in pa.nodes[d_].get("vars", [])
                if "init" in v_ and v_["init"] is not None and v_["init"] >= 0 and "argValueFillingFuncs_.find(" in pa.text(v_["init"])]
    res_names = [v_["name"] for d_ in pa.all("decl") for v_ in pa.nodes[d_].get("vars", [])
                 if "init" in v_ and v_["init"] is not None and v_["init"] >= 0 and any(pa.nodes[x]["k"] == "call" and pa.nodes[x].get("op") == "()" for x in pa.walk(v_["init"]))] or ["funcRes"]
    UNK = re.compile(r"argValueFillingFuncs_\.find\(|\b(%s)(@\d+)?\b" % "|".join(map(re.escape, it_names or ["\0"])))

    def _tok(k, p):
        if re.search(r"args\.find\((\w+(@\d+)?|\(\*\w+\))\)", k) and "args.end()" in k and p is True:
            return ["missing"]
        # the count / contains spellings of 'not among the arguments'
        if re.match(r"^\((0 == args\.count\([^()]*(\(\*\w+\))?[^()]*\)|args\.count\([^()]*(\(\*\w+\))?[^()]*\) == 0)\)$", k) and p is True:
            return ["missing"]
        if re.match(r"^args\.(count|contains)\([^()]*(\(\*\w+\))?[^()]*\)$", k) and p is False:
            return ["missing"]
        if UNK.search(k) and "argValueFillingFuncs_.end()" in k and p is True:
            return ["unknown"]
        if re.sub(r"@\d+$", "", k) in res_names and p is False:
            return ["filler-failed"]
        return None
    fpa = Flow(P, pa, cg=cg, edge_tokens=_tok)
    okp = {"missing": False, "unknown": False, "filler-failed": False}
    bad_ok = []
    for kind, node, b, parts in fpa.exits():
        if kind != "return":
            continue
        t = ret_text(pa, node)
        is_err = "systemError" in t or pa.nodes[node].get("mac") == "SYSTEM_ERROR"
        for tok in okp:
            if any(tok in st.may for st in parts.values()):
                if is_err and all(tok in st.must for st in parts.values()):
                    okp[tok] = True
                if not is_err:
                    bad_ok.append(tok)
    for tok, v in okp.items():
        ctx.check(v and tok not in bad_ok, "argparser:%s-is-an-error" % tok, "return_table", pa.loc(),
                  "%s argument leads to an error result" % tok, "%s argument does not lead to an error result on every path" % tok)
    fillers = [i for i in pa.calls() if pa.nodes[i].get("op") == "()" and ("argValueFillingFuncs_" in pa.text(pa.nodes[i].get("recv", -1)) or
                                                                            any(re.search(r"\b%s\b" % re.escape(nm_), pa.text(pa.nodes[i].get("recv", -1))) for nm_ in it_names))]
    fg = Flow(P, pa, cg=cg)
    for i in fillers:
        ctx.check(any(p is False and UNK.search(k) and "argValueFillingFuncs_.end()" in k for k, p in fg.guards(i)),
                  "argparser:filler-only-for-declared", "guarded_by", pa.loc(i), "a filler runs only for a declared argument name",
                  "a filler can be invoked for an undeclared name")
    # the wrapper installed by addArgumentCustom converts parser exceptions to an error
    for f in P.fns.values():
        if f.kind == "lambda" and P.fns.get(f.d.get("parentfn")) is not None and P.fns[f.d["parentfn"]].pq == "Oomd::PluginArgParser::addArgumentCustom":
            ctx.use(f)
            esc = E.from_root(f, classes=ALL)
            ctx.count("filler_wrappers")
            ctx.check(not esc, "argparser:wrapper-catches:" + f.d.get("ret", "")[:30] + ":" + P.fns[f.d["parentfn"]].qname[-40:], "E-ESCAPE", f.loc(),
                      "parser exceptions are turned into an error result", "an exception escapes the filler wrapper: " + (esc[0][0].what if esc else ""))
    ctx.floor("filler_wrappers", 5, "instantiated filler wrappers")

    # ------------------------------------------------ (vi) JSON front end: non-scalar argument value
    for f in P.fns.values():
        if f.pq != "parsePlugin" and not f.pq.endswith("::parsePlugin"):
            continue
        ctx.use(f)
        ctx.count("parsePlugin_instances")
        fl_ = Flow(P, f, cg=cg)
        for r in returns(f):
            g = fl_.guards(r)
            nonscalar = any(p is False and k.endswith("isBool()") for k, p in g) and any(p is False and k.endswith("isString()") for k, p in g)
            if not nonscalar:
                continue
            t = ret_text(f, r)
            mentions_local = any(f.nodes[x]["k"] == "ref" and f.nodes[x].get("dk") == "local" for x in f.walk(f.nodes[r]["val"])) if "val" in f.nodes[r] else False
            ctx.check(not mentions_local, "json:nonscalar-arg-rejected:" + f.d.get("ret", "")[-20:], "return_table", f.loc(r),
                      "a non-scalar argument value yields the invalid plugin",
                      "a non-scalar argument value returns the partially filled plugin: that argument and all later ones "
                      "are dropped silently and the plugin is accepted with fewer arguments than configured")
        # the argument text handed to the plugin is jsoncpp's own rendering of that JSON scalar (integers exactly, reals with 17 significant digits)
        Xp = Expander(P, f)
        aw = [i for i, n in enumerate(f.nodes) if n["k"] in ("bin", "call") and n.get("op") == "=" and f.pos_of(i) is not None and ".args[" in f.text(n.get("l", n.get("recv", -1)))]
        ctx.count("plugin_arg_writes", len(aw))
        for i in aw:
            n = f.nodes[i]
            lhs = n.get("l", n.get("recv"))
            rhs = n["r"] if "r" in n else n["args"][0]
            keyt = re.search(r"\.args\[(.*)\]$", Xp(lhs))
            rt = Xp(rhs)
            ok_ = keyt is not None and re.match(r"^(elem\(.*\)|.*)\.asString\(\)$", rt) is not None and ("[%s]" % keyt.group(1)) in rt
            kind_ = "provenance"
            if not ok_ and keyt is not None:
                # the value may pass through a helper: follow it - every value the helper returns has to be its argument's asString()
                cn_ = f.nodes[f.strip(rhs)]
                hs_ = [P.fns[u] for u in P.resolve(cn_.get("cusr", "")) if u in P.fns] if cn_["k"] == "call" and cn_.get("cusr") else []
                if len({(h_.pq, h_.line) for h_ in hs_}) == 1 and len(hs_[0].params) == 1 and len(cn_.get("args", [])) == 1 and hs_[0].file.startswith("oomd/"):
                    h_ = hs_[0]
                    kind_ = "provenance (helpers followed)"
                    vals_ = [Expander(P, h_)(h_.nodes[r_]["val"]) for r_ in returns(h_) if "val" in h_.nodes[r_]]
                    ok_ = bool(vals_) and all(v_ == "param:%s.asString()" % h_.params[0]["name"] for v_ in vals_) and ("[%s]" % keyt.group(1)) in Xp(cn_["args"][0])
            ctx.check(ok_, "json:arg-text-is-the-json-scalar:" + f.d.get("ret", "")[-20:], kind_, f.loc(i),
                      "args[key] = json_args[key].asString(): the value reaches the plugin as jsoncpp renders it (64-bit integers exactly, reals round-trip)",
                      "args[%s] is assigned %s instead of the JSON value's own asString(): numbers can be re-formatted with fewer digits (a byte count "
                      "written as a real, a ratio with 7+ significant digits) before the plugin parses them" % (keyt.group(1) if keyt else "?", rt[:100]))
    ctx.floor("parsePlugin_instances", 2, "parsePlugin instantiations")
    ctx.floor("plugin_arg_writes", 2, "assignments to args[key] in parsePlugin")

    # ------------------------------------------------ (vii) compile functions
    for q in ("compileRuleset", "compileDetectorGroup", "compilePluginGeneric", "Oomd::Config2::compile", "Oomd::Config2::compileDropIn"):
        for f in P.fn(q):
            ctx.use(f)
            tok = lambda k, p: ["failed"] if (p is False and re.match(r"^(compiled_\w+|instance|target)$", k)) or \
                (p is True and k in ("(0 == ret)",) and False) else None
            fl_ = Flow(P, f, cg=cg, edge_tokens=tok)
            bad = []
            for kind, node, b, parts in fl_.exits():
                if kind == "return" and any("failed" in st.may for st in parts.values()):
                    t = ret_text(f, node)
                    if "nullptr" not in t and "nullopt" not in t:
                        bad.append(f.loc(node))
            ctx.check(not bad, "compile-failure-returns-null:" + short(f) + ":" + f.d.get("ret", "")[-24:], "return_table", f.loc(),
                      "a failed sub-compilation makes the function return null", "returns a non-null result after a failed sub-compilation at " + ", ".join(bad))
            for l in loops(f):
                if l["stmt"] is not None and f.nodes[l["stmt"]]["k"] == "rangefor":
                    ctx.check(forward_iteration(f, l), "compile-order:" + short(f), "loop-shape", f.loc(l["stmt"]), "IR is traversed in order", "IR not traversed forward")
            for i in f.calls("emplace_front", "push_front", "insert"):
                r = f.text(f.nodes[i].get("recv", -1))
                if any(x in r for x in ("detectors", "actions", "detector_groups", "rulesets", "prekill_hooks")):
                    ctx.violation("compile-order:" + short(f), "order", f.loc(i), "plugins are not appended in configuration order")
    cr = ctx.fn1("compileRuleset")
    fcr = Flow(P, cr, cg=cg)
    for r in returns(cr):
        if "make_unique" in ret_text(cr, r):
            g = fcr.guards(r)
            ctx.check(has_fact(g, False, "ruleset.name.empty()"), "ruleset-needs-name", "guarded_by", cr.loc(r), "a ruleset without name is refused", "unnamed ruleset accepted")
    cpg = [f for f in P.fn("compilePluginGeneric")]
    for f in cpg:
        fl_ = Flow(P, f, cg=cg)
        for r in returns(f):
            if ret_text(f, r) in ("instance", "std::move(instance)") or "instance" == ret_text(f, r):
                g = fl_.guards(r)
                # the local that receives initPlugin()'s result, whatever it is called (or the call itself used as the condition)
                rn_ = locals_receiving(f, r"initPlugin\(") or ["ret"]
                init_ok = any((k in ["(0 == %s)" % x for x in rn_] + ["(%s == 0)" % x for x in rn_] and p is True) or (k in rn_ and p is False) or
                              (re.match(r"^\(0 == .*->initPlugin\(.*\)\)$|^\(.*->initPlugin\(.*\) == 0\)$", k) and p is True) or
                              (re.match(r"^[\w>-]+initPlugin\(.*\)$", k) and p is False) for k, p in g)
                ctx.check(has_fact(g, False, "plugin.name.empty()") and has_fact(g, True, "instance") and init_ok,
                          "plugin-accepted-only-if-named-known-and-initialised:" + f.d.get("ret", "")[-24:], "guarded_by", f.loc(r),
                          "a plugin is accepted only if named, registered and init() returned 0",
                          "plugin accepted under " + str(sorted(g, key=str)))
    sda = ctx.fn1("Oomd::DropInServiceAdaptor::scheduleDropInAdd")
    fs_ = Flow(P, sda, cg=cg)
    for i in sda.calls("emplace_back", "push_back"):
        if "drop_in_queue_" in sda.text(sda.nodes[i].get("recv", -1)):
            holders = [v_["name"] for d_ in sda.all("decl") for v_ in sda.nodes[d_].get("vars", [])
                       if "init" in v_ and v_["init"] is not None and v_["init"] >= 0 and any(sda.nodes[x]["k"] == "call" and (sda.nodes[x].get("cname") or "") == "compileDropIn" for x in sda.walk(v_["init"]))]
            ctx.check(any(p is True and any(k == h_ or k.startswith(h_ + ".") for h_ in holders) for k, p in fs_.guards(i)) and bool(holders), "enqueue-only-compiled-dropins", "guarded_by", sda.loc(i),
                      "a drop-in is enqueued only if it compiled", "an uncompiled drop-in can be enqueued")
