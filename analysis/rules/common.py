"""Helpers shared by the per-property rule modules."""
import re

from ..cfg import Flow, loops, loop_of_stmt, dominators, CondNorm
from ..program import plain
from ..facts import AnalysisBroken


def field_writes(fn, field):
    """Node ids of assignments / compound assignments / inc-dec / operator= calls
    whose target is field (short name or qualified)."""
    out = []
    for i, n in enumerate(fn.nodes):
        tgt = None
        if n["k"] == "bin" and n["op"] in ("=", "+=", "-=", "*=", "/=", "|=", "&=", "^="):
            tgt = n["l"]
        elif n["k"] == "un" and n["op"] in ("++", "--"):
            tgt = n["sub"]
        elif n["k"] == "call" and n.get("op") in ("=", "+=", "-=", "++", "--") and "recv" in n:
            tgt = n["recv"]
        if tgt is None:
            continue
        t = fn.nodes[fn.strip(tgt)]
        if t["k"] == "member" and (t["name"] == field or t.get("qname") == field):
            out.append(i)
    return out


def write_rhs(fn, i):
    n = fn.nodes[i]
    if n["k"] == "bin":
        return n["r"]
    if n["k"] == "call":
        a = n.get("args", [])
        return a[0] if a else -1
    return -1


def field_reads(fn, field):
    out = []
    for i, n in enumerate(fn.nodes):
        if n["k"] == "member" and (n["name"] == field or n.get("qname") == field):
            out.append(i)
    return out


def returns(fn):
    return list(fn.all("return"))


def value_leaves(fn, v):
    """The alternative values of an expression: descends through ?: (and parentheses), so `c ? a : b` is [a, b].
    Each leaf sits in its own CFG block, so Flow.guards(leaf) carries the condition's polarity."""
    n = fn.nodes[fn.strip(v)] if v is not None and v >= 0 else None
    if n is not None and n["k"] == "cond":
        return value_leaves(fn, n["t"]) + value_leaves(fn, n["f"])
    return [v]


def return_leaves(fn):
    """[(return node, value leaf)] for every return with a value; `return c ? a : b` contributes two leaves."""
    out = []
    for r in fn.all("return"):
        if "val" in fn.nodes[r]:
            out.extend((r, v) for v in value_leaves(fn, fn.nodes[r]["val"]))
    return out


def hoist_text(fn, i, prog=None):
    """Text of expression i with hoisted locals (`const size_t n = v.size();`: pure initialiser over state the function never
    writes) replaced by their initialisers."""
    from ..cfg import CondNorm
    cn = getattr(fn, "_hoist_cn", None)
    if cn is None:
        cn = fn._hoist_cn = CondNorm(fn, prog)
    h = cn.hoisted()
    depth = [0]

    def cb(n):
        d = n.get("decl")
        if d in h and depth[0] < 4:
            depth[0] += 1
            try:
                return fn.text(h[d], 0, cb)
            finally:
                depth[0] -= 1
        return None
    return fn.text(i, 0, cb)


def ret_text(fn, i):
    n = fn.nodes[i]
    return fn.text(n["val"]) if "val" in n else ""


def ret_const(fn, i):
    """Short name of the enum constant / literal returned, else None."""
    n = fn.nodes[i]
    if "val" not in n:
        return None
    v = fn.nodes[fn.strip(n["val"])]
    if v["k"] == "ref" and v["dk"] == "enumconst":
        return v["name"]
    if v["k"] == "lit":
        return str(v["v"])
    return None


def ret_const_of(fn, v):
    """ret_const for a value node (e.g. one leaf of `return c ? A : B`)."""
    n = fn.nodes[fn.strip(v)]
    if n["k"] == "ref" and n["dk"] == "enumconst":
        return n["name"]
    if n["k"] == "lit":
        return str(n["v"])
    return None


def key_has(*subs):
    """Predicate factory on (key, pol, node): key contains all substrings."""
    def p(k, pol=None, node=None):
        return all(s in k for s in subs)
    return p


def has_fact(guards, pol, *subs):
    """True if some fact in `guards` has polarity pol and a key containing all subs."""
    for k, p in guards:
        if p == pol and all(s in k for s in subs):
            return True
    return False


def find_facts(guards, *subs):
    return [(k, p) for k, p in guards if all(s in k for s in subs)]


def _direct_virtual_calls(fn, method):
    out = []
    for i in fn.calls():
        n = fn.nodes[i]
        if n.get("virt") and n.get("cname") == method and "BasePlugin" in n.get("callee", ""):
            out.append(i)
    return out


def run_wrappers(prog, method="run"):
    """{usr: index of the plugin parameter} of the program's 'run helpers': functions that take a plugin (BasePlugin reference, pointer or
    unique_ptr), call its virtual <method> exactly once on every path to a return, at no other place, and (for value-returning methods)
    return that call's result.  A call of such a helper is a run site of the plugin passed to it."""
    cache = prog.__dict__.setdefault("_run_wrappers", {})
    if method in cache:
        return cache[method]
    from ..cfg import Flow
    out = {}
    for f in prog.fns.values():
        if not f.cfg or f.kind == "lambda":
            continue
        calls = _direct_virtual_calls(f, method)
        if len(calls) != 1:
            continue
        pidx = [k for k, p_ in enumerate(f.params) if "BasePlugin" in p_.get("type", "")]
        if len(pidx) != 1:
            continue
        c = calls[0]
        pname = f.params[pidx[0]]["name"]
        root = f.root_ref(f.nodes[c].get("recv", -1)) if "recv" in f.nodes[c] else None
        if root is None or f.nodes[root].get("name") != pname or f.nodes[root].get("dk") != "param":
            continue
        if any(l["stmt"] is not None and l["stmt"] in list(f.ancestors(c)) for l in loops(f)):
            continue
        fl = Flow(prog, f, events={c: [("set", "ran")]})
        ok = not fl.may(c, "ran")
        rets = []
        for kind, node, b, parts in fl.exits():
            if kind in ("return", "fallthrough"):
                if not all("ran" in st.must for st in parts.values()):
                    ok = False
                if kind == "return" and node is not None and "val" in f.nodes[node]:
                    rets.append(node)
        for r in rets:
            v = f.strip(f.nodes[r]["val"])
            if v == c:
                continue
            vn = f.nodes[v]
            if vn["k"] == "ref" and vn.get("dk") == "local":
                init, var = local_init(f, vn["name"], must=False)
                if var is not None and init is not None and init >= 0 and f.strip(init) == c and not local_writes(f, vn["name"], must=False):
                    continue
            ok = False
        if ok:
            out[f.usr] = pidx[0]
    cache[method] = out
    return out


def virtual_run_calls(fn, method="run", prog=None):
    """Call nodes that are virtual calls to BasePlugin::<method>; with `prog`, also the calls of the program's run helpers
    (run_wrappers), which stand for the run of the plugin handed to them."""
    out = _direct_virtual_calls(fn, method)
    if prog is not None:
        ws = run_wrappers(prog, method)
        if fn.usr in ws:
            return []          # the helper's own virtual call is accounted for at the helper's call sites
        for i in fn.calls():
            n = fn.nodes[i]
            if n.get("cusr") and any(u in ws for u in prog.resolve(n["cusr"])):
                out.append(i)
    return out


def run_receiver_text(fn, i, prog=None):
    """Text of the plugin expression a run site runs: the receiver of a direct virtual call, the plugin argument of a run helper."""
    n = fn.nodes[i]
    if prog is not None and n.get("cusr"):
        ws = run_wrappers(prog, n.get("cname") if n.get("cname") in ("run", "prerun") else "run")
        for m_ in ("run", "prerun"):
            ws = run_wrappers(prog, m_)
            for u in prog.resolve(n["cusr"]):
                if u in ws and len(n.get("args", [])) > ws[u]:
                    return re.sub(r"^\*", "", fn.text(n["args"][ws[u]]))
    return fn.text(n.get("recv", -1))


def loop_over(fn, container_sub):
    """Loops (from cfg.loops) whose statement iterates something whose text
    contains container_sub (range-for range, or for-init/cond text)."""
    res = []
    for l in loops(fn):
        s = l["stmt"]
        if s is None:
            continue
        n = fn.nodes[s]
        txt = ""
        if n["k"] == "rangefor":
            txt = fn.text(n["range"])
        elif n["k"] == "for":
            txt = " ".join(fn.text(n[k]) for k in ("init", "c") if k in n)
        elif n["k"] in ("while", "do"):
            txt = fn.text(n["c"])
        if container_sub in txt:
            res.append(l)
    return res


def body_nodes(fn, loop):
    """Node ids that are CFG elements inside the loop's blocks."""
    out = []
    for b in loop["body"]:
        for e in fn.blocks[b]["elems"]:
            if "dtor" not in e and e.get("n", -1) >= 0:
                out.append(e["n"])
    return out


def loop_exits(fn, loop):
    """Edges (src, dst) leaving the loop body from a block other than the head."""
    out = []
    for b in loop["body"]:
        for s in fn.blocks[b]["succ"]:
            if isinstance(s, int) and s not in loop["body"]:
                out.append((b, s))
    return out


def early_exits(fn, loop):
    """Loop exits other than the head's own condition-false edge."""
    return [(b, s) for b, s in loop_exits(fn, loop) if b != loop["head"]]


def iter_flow(ctx, fn, loop, events, **kw):
    """Flow over one iteration of a loop: starts at the head, back edges cut."""
    return Flow(ctx.prog, fn, events=events, start=loop["head"],
                cut=set(loop["back_edges"]), cg=ctx.cg, **kw)


def iter_flow_raw(prog, cg, fn, loop, events, **kw):
    """iter_flow without a rule context (for the engines in analysis/misc.py)."""
    return Flow(prog, fn, events=events, start=loop["head"], cut=set(loop["back_edges"]), cg=cg, **kw)


def witness_path(fn, flow, node):
    """Readable guards at node (for diagnostics)."""
    g = sorted(flow.guards(node), key=lambda x: x[0])
    return ["guards at %s: %s" % (fn.loc(node), ", ".join("%s=%s" % (k, p) for k, p in g) or "(none)")]


def who_calls(prog, *names):
    """[(fn, node)] of all direct call sites of library-external or internal callees by plain qname."""
    out = []
    for f in prog.fns.values():
        for i in f.calls(*names):
            out.append((f, i))
    return out


def short(fn):
    return fn.pq.replace("Oomd::", "")


# ---------------------------------------------------------------- loop rules
def back_sources(loop):
    return [s for s, _ in loop["back_edges"]]


def per_iter_once(ctx, fn, loop, nodes, inst, what, rule="per-iteration exactly-once"):
    """Every iteration executes exactly one of `nodes` (on every path to the back edge)."""
    if not nodes:
        ctx.violation(inst, rule, fn.loc(), "no %s inside the loop" % what)
        return False
    ev = {n: [("set", "X")] for n in nodes}
    fl = iter_flow(ctx, fn, loop, ev)
    ok = True
    for b in back_sources(loop):
        parts = fl.OUT.get(b)
        if parts is None:
            continue
        if not all("X" in st.must for st in parts.values()):
            ok = False
            ctx.violation(inst, rule, fn.loc(nodes[0]),
                          "an iteration can complete without executing %s" % what)
            break
    for n in nodes:
        if fl.may(n, "X"):
            ok = False
            ctx.violation(inst + ":twice", rule, fn.loc(n), "%s can execute twice in one iteration" % what)
    if ok:
        ctx.ok(inst, rule, fn.loc(nodes[0]), "every iteration executes %s exactly once" % what)
    return ok


def no_early_exit(ctx, fn, loop, inst, what):
    ee = early_exits(fn, loop)
    # an exit edge that only leads to an abort (OCHECK) is not a normal exit
    real = []
    for b, s in ee:
        if fn.blocks[s].get("noreturn"):
            continue
        real.append((b, s))
    if real:
        t = fn.blocks[real[0][0]].get("term", {})
        ctx.violation(inst, "loop_has_no_early_exit", "%s:%s" % (fn.file, t.get("line", fn.line)),
                      "the loop over %s can be left early (break/return inside the body)" % what)
        return False
    ctx.ok(inst, "loop_has_no_early_exit", fn.loc(loop["stmt"]) if loop["stmt"] is not None else fn.loc(),
           "the loop over %s has no early exit" % what)
    return True


def forward_iteration(fn, loop):
    s = loop["stmt"]
    if s is None:
        return False
    n = fn.nodes[s]
    if n["k"] == "rangefor":
        return True
    if n["k"] == "for":
        t = " ".join(fn.text(n[k]) for k in ("init", "c", "inc") if k in n) + " " + loop_header(fn, loop)
        if (".begin()" in t or ".cbegin()" in t) and "rbegin" not in t and "--" not in t:
            return True
        # index loop: k = 0; k < n; ++k
        return re.search(r"\b(\w+) = 0 ; \(\1 < [^;]+\) ; (\+\+\1|\1\+\+)", loop_header(fn, loop)) is not None
    return False


def case_blocks(fn, switch_stmt=None):
    """{case name: block id} (and 'default') for case labels in fn."""
    out = {}
    for b in fn.cfg:
        l = b.get("label")
        if not l:
            continue
        if l["k"] == "case":
            out[str(l.get("name", l.get("val")))] = b["id"]
        elif l["k"] == "default":
            out["default"] = b["id"]
    # an if / else-if chain over the same constants: the block entered on the equal edge plays the role of the case block
    for b in fn.cfg:
        t = b.get("term")
        if not t or t.get("cond") is None or t["cond"] < 0 or len(b.get("succ", [])) != 2:
            continue
        n = fn.nodes[fn.strip(t["cond"])]
        if n["k"] == "bin" and n.get("op") in ("==", "!="):
            sides = (n["l"], n["r"])
        elif n["k"] == "call" and n.get("op") in ("==", "!=") and len(n.get("args", [])) == 2:
            sides = (n["args"][0], n["args"][1])
        else:
            continue
        for x, y in (sides, sides[::-1]):
            c = fn.nodes[fn.strip(y)]
            name = None
            if c["k"] == "ref" and c.get("dk") == "enumconst":
                name = c["name"]
            elif c["k"] == "lit" and c.get("lk") in ("char", "int") and fn.nodes[fn.strip(x)]["k"] != "lit":
                name = str(c.get("v"))
            if name is None:
                continue
            tgt = b["succ"][0 if n.get("op") == "==" else 1]
            if isinstance(tgt, int):
                out.setdefault(name, tgt)
            break
    return out


def local_writes(fn, name, must=True):
    """Assignments (not the declaration) to local `name`."""
    if must and not _has_local(fn, name):
        raise AnalysisBroken("anchor local '%s' not found in %s (renamed?)" % (name, fn.pq))
    out = []
    for i, n in enumerate(fn.nodes):
        tgt = None
        if n["k"] == "bin" and n["op"] in ("=", "+=", "-=", "|=", "&="):
            tgt = n["l"]
        elif n["k"] == "un" and n["op"] in ("++", "--"):
            tgt = n["sub"]
        elif n["k"] == "call" and n.get("op") in ("=", "+=", "-=", "++", "--") and "recv" in n:
            tgt = n["recv"]       # (class-type iterators: ++it is a call of operator++)
        if tgt is None:
            continue
        t = fn.nodes[fn.strip(tgt)]
        if t["k"] == "ref" and t["name"] == name and t["dk"] in ("local", "param"):
            out.append(i)
    return out


def _has_local(fn, name):
    if any(p["name"] == name for p in fn.params):
        return True
    for i in fn.all("decl"):
        for v in fn.nodes[i].get("vars", []):
            if v["name"] == name or name in [b.split("@")[0] for b in v.get("bindings", [])]:
                return True
    return False


def local_init(fn, name, must=True):
    """(init node id, var record) of local `name`.  A rule that anchors on a local which
    no longer exists (renamed) cannot judge the code: that is 'analysis broken', not a
    violation."""
    for i in fn.all("decl"):
        for v in fn.nodes[i].get("vars", []):
            if v["name"] == name:
                return v.get("init", -1), v
    if must and not _has_local(fn, name):
        raise AnalysisBroken("anchor local '%s' not found in %s (renamed?)" % (name, fn.pq))
    return -1, None


# ---------------------------------------------------------------- provenance
class Expander:
    """Renders an expression with single-definition locals replaced by their
    defining expression (provenance in expression form):
      * local initialised once and never re-assigned  -> its initialiser
      * range-for variable                            -> elem(<range expr>)
      * parameter                                     -> param:<name>
      * captured variable of a closure                -> resolved in the enclosing function
    Locals holding closures keep their name.  Re-assigned locals render as
    var:<name> (the rule then has to look at the writes)."""

    def __init__(self, prog, fn, mark_modified=False):
        from ..cfg import CondNorm
        self.prog, self.fn = prog, fn
        # mark_modified: render a range-for variable that is written in the body as modified:elem(C) (rules about the VALUE of
        # the element want this; rules about WHICH element is used do not)
        self.mark_modified = mark_modified
        # locals (references included) bound once and never assigned afterwards
        from ..callgraph import node_writes
        inits, assigned, refs = {}, set(), set()
        for i in fn.all("decl"):
            for v in fn.nodes[i].get("vars", []):
                if "init" in v:
                    inits[v["decl"]] = v["init"]
                    if v.get("isref"):
                        refs.add(v["decl"])      # a reference is bound once, whatever is done through it
        for i, n in enumerate(fn.nodes):
            tgt = None
            if n["k"] == "bin" and n["op"] in ("=", "+=", "-=", "*=", "/=", "|=", "&="):
                tgt = n["l"]
            elif n["k"] == "un" and n["op"] in ("++", "--"):
                tgt = n["sub"]
            elif n["k"] == "call" and n.get("op") in ("=", "+=", "-=", "++", "--") and "recv" in n:
                tgt = n["recv"]
            elif n["k"] == "call":
                for a in n.get("args", []):
                    m = fn.nodes[fn.strip(a)]
                    if m["k"] == "un" and m["op"] == "&":
                        t = fn.var_token(m["sub"])
                        if t and t.startswith("L:"):
                            assigned.add(t[2:])
                # containers filled in place, objects handed out by mutable reference
                for t in node_writes(fn, i):
                    if t.startswith("L:") and n.get("op") != "()":
                        assigned.add(t[2:])
            if tgt is not None:
                t = fn.var_token(tgt)
                if t and t.startswith("L:"):
                    assigned.add(t[2:])
        self.single = {d: n for d, n in inits.items() if d not in assigned or d in refs}
        self.assigned = assigned
        # structured bindings of a pair-like initialiser that is never written afterwards: `auto [a, b] = f();`  a is f().first, b f().second
        self.pair_bindings = {}
        for i in fn.all("decl"):
            if fn.nodes[i].get("k") != "decl":
                continue
            for v in fn.nodes[i].get("vars", []):
                bs = v.get("bindings", [])
                if len(bs) == 2 and "init" in v and v["init"] is not None and v["init"] >= 0 and "pair<" in (v.get("type") or "") \
                        and not any(b in assigned for b in bs) and v["decl"] not in assigned:
                    self.pair_bindings[bs[0]] = (v["init"], "first")
                    self.pair_bindings[bs[1]] = (v["init"], "second")
        self.loopvars = {}
        for i in fn.all("rangefor"):
            n = fn.nodes[i]
            lv = n.get("loopvar", -1)
            if lv >= 0:
                for v in fn.nodes[lv].get("vars", []):
                    self.loopvars[v["decl"]] = n["range"]
                    for b in v.get("bindings", []):
                        self.loopvars[b] = n["range"]
        # iterator variables of classic for loops: for (auto it = C.begin(); it != C.end(); ++it)
        self.itervars = {}
        for i in fn.all("for"):
            n = fn.nodes[i]
            if "init" not in n or fn.nodes[n["init"]]["k"] != "decl":
                continue
            for v in fn.nodes[n["init"]].get("vars", []):
                if "init" not in v:
                    continue
                c = fn.nodes[fn.strip(v["init"])]
                if c["k"] == "call" and c.get("cname") in ("begin", "cbegin") and "recv" in c:
                    self.itervars[v["decl"]] = c["recv"]
        self.params = {p["decl"]: p["name"] for p in fn.params}
        self.parent = prog.fns.get(fn.d.get("parentfn")) if fn.d.get("parentfn") else None
        self._pexp = None
        self._active = set()
        self._depth = 0

    def _cb(self, n):
        dk = n.get("dk")
        d = n.get("decl")
        if dk == "param":
            if n.get("captured") and self.parent is not None:
                if self._pexp is None:
                    self._pexp = Expander(self.prog, self.parent)
                return self._pexp._decl_text(d, n["name"])
            return "param:" + n["name"]
        if dk in ("local", "binding"):
            if d not in self.params and self.fn.vardecl(d)[1] is None and d not in self.loopvars \
                    and self.parent is not None:
                if self._pexp is None:
                    self._pexp = Expander(self.prog, self.parent)
                return self._pexp._decl_text(d, n["name"])
            return self._decl_text(d, n["name"])
        if dk == "global" and "cval" in n:
            return str(n["cval"])          # a named integral constant (`constexpr int kPercent = 100`) is its value
        return None

    def _decl_text(self, d, name):
        if d in self.params:
            return "param:" + name
        if d in self._active:
            return "var:" + name
        if d in self.loopvars:
            self._active.add(d)
            try:
                # a loop variable that is assigned or handed out by mutable reference in the body is no longer the element as stored
                pre = "modified:" if (self.mark_modified and d in self.assigned) else ""
                return pre + "elem(%s)" % self.fn.text(self.loopvars[d], 0, self._cb, self._ncb)
            finally:
                self._active.discard(d)
        if d in self.pair_bindings and d not in self.loopvars:
            init, member = self.pair_bindings[d]
            self._active.add(d)
            try:
                return "%s.%s" % (self.fn.text(init, 0, self._cb, self._ncb), member)
            finally:
                self._active.discard(d)
        if d in self.single:
            init = self.single[d]
            top = self.fn.nodes[self.fn.strip(init)]
            if top["k"] == "lambda" or "(lambda at" in top.get("type", "")[:60]:
                return name
            self._active.add(d)
            try:
                return self.fn.text(init, 0, self._cb, self._ncb)
            finally:
                self._active.discard(d)
        _, v = self.fn.vardecl(d)
        if v is None and self.parent is not None:
            if self._pexp is None:
                self._pexp = Expander(self.prog, self.parent)
            return self._pexp._decl_text(d, name)
        return "var:" + name

    def _new_pure_helper(self, n):
        """the single-`return <expr>;` function, new on this tree, that call node n calls - or None"""
        if n["k"] != "call" or not n.get("cusr") or "op" in n:
            return None
        from ..inline import known_functions
        kk = getattr(Expander, "_known", None)
        if kk is None:
            kk = Expander._known = known_functions() or (None, None)
        if not kk[0]:
            return None
        hs = [self.prog.fns[u] for u in self.prog.resolve(n["cusr"]) if u in self.prog.fns]
        if not hs or len({(x.pq, x.line) for x in hs}) != 1:
            return None          # several instantiations of one template definition count as one
        h = hs[0]
        from ..program import plain
        if not h.file.startswith("oomd/") or h.kind not in ("function", "method") or plain(h.d["qname"]) in kk[0]:
            return None
        rets = [m for m in h.nodes if m["k"] == "return"]
        if len(rets) != 1 or "val" not in rets[0] or any(m["k"] in ("decl", "if", "for", "while", "do", "rangefor", "switch", "lambda") for m in h.nodes):
            return None
        if len(n.get("args", [])) != len(h.params):
            return None
        if h.kind == "method" and "recv" in n and self.fn.nodes[self.fn.strip(n["recv"])]["k"] != "this":
            return None
        return h

    def _pure_closure(self, n):
        """the local closure `const auto f = [..](params) { return <expr>; };` that call node n invokes - or None"""
        if n["k"] != "call" or n.get("op") != "()" or "recv" not in n:
            return None
        r = self.fn.nodes[self.fn.strip(n["recv"])]
        if r.get("k") != "ref" or r.get("dk") != "local":
            return None
        owner = self
        if r.get("decl") not in self.single:
            # a closure of the enclosing function, captured by this one
            if self.parent is None:
                return None
            if self._pexp is None:
                self._pexp = Expander(self.prog, self.parent)
            owner = self._pexp
            if r.get("decl") not in owner.single:
                return None
        top = owner.fn.nodes[owner.fn.strip(owner.single[r["decl"]])]
        h = self.prog.closure_fn(top.get("lusr")) if top.get("k") == "lambda" else None
        if h is None:
            return None
        rets = [m for m in h.nodes if m["k"] == "return"]
        if len(rets) != 1 or "val" not in rets[0] or any(m["k"] in ("decl", "if", "for", "while", "do", "rangefor", "switch", "lambda") for m in h.nodes):
            return None
        if len(n.get("args", [])) != len(h.params) or any(m.get("captured") for m in h.nodes if m["k"] == "ref"):
            return None          # (captures would have to be rendered in the caller's scope: not needed so far)
        return h

    def _ncb(self, i, n):
        # a call of a NEW one-expression helper is what that expression is, with the arguments in place of the parameters
        h = self._new_pure_helper(n) if self._depth < 3 else None
        if h is None and self._depth < 3:
            h = self._pure_closure(n)
        if h is not None:
            self._depth += 1
            try:
                amap = {p_["decl"]: self.fn.text(a_, 0, self._cb, self._ncb) for p_, a_ in zip(h.params, n["args"])}
                rv = next(m for m in h.nodes if m["k"] == "return")["val"]
                t_ = h.text(rv, 0, lambda r_: amap.get(r_.get("decl")))
                t_ = re.sub(r"\(\*([A-Za-z_][\w@]*)\)\.", r"\1->", t_)        # (*x).f is x->f
                return t_ if h.nodes[h.strip(rv)]["k"] in ("bin", "cond", "ref", "lit", "member") else "(" + t_ + ")"
            finally:
                self._depth -= 1
        # *it / it-> on a forward loop iterator is an element of the container
        if n["k"] == "call" and n.get("op") in ("*", "->") and "recv" in n and not n.get("args"):
            r = self.fn.nodes[self.fn.strip(n["recv"])]
            if r["k"] == "ref" and r.get("decl") in self.itervars:
                c = self.fn.text(self.itervars[r["decl"]], 0, self._cb, self._ncb)
                return "elem(%s)" % c + ("->" if n["op"] == "->" else "")
        return None

    def __call__(self, i):
        return self.fn.text(i, 0, self._cb, self._ncb)


def stream_parts(fn, stream_text):
    """Texts of everything inserted with << into the stream whose text is stream_text."""
    parts = []
    for j in fn.calls():
        n = fn.nodes[j]
        if n["k"] != "call" or n.get("op") != "<<":
            continue
        if "recv" in n and len(n.get("args", [])) == 1:
            left, val = n["recv"], n["args"][0]
        elif len(n.get("args", [])) == 2:
            left, val = n["args"][0], n["args"][1]
        else:
            continue
        cur = left
        while True:
            m = fn.nodes[fn.strip(cur)]
            if m["k"] == "call" and m.get("op") == "<<":
                if "recv" in m and len(m.get("args", [])) == 1:
                    cur = m["recv"]
                elif len(m.get("args", [])) == 2:
                    cur = m["args"][0]
                else:
                    break
            else:
                break
        if fn.text(cur) == stream_text:
            parts.append(fn.text(val))
    return parts


def loop_header(fn, loop):
    """Text of a for-loop's init (declarations with their initialisers), condition and increment."""
    s = fn.nodes[loop["stmt"]]
    parts = []
    if "init" in s:
        n = fn.nodes[s["init"]]
        if n["k"] == "decl":
            for v in n.get("vars", []):
                parts.append("%s = %s" % (v["name"], fn.text(v["init"]) if "init" in v else "?"))
        else:
            parts.append(fn.text(s["init"]))
    for k in ("c", "inc"):
        if k in s:
            parts.append(fn.text(s[k]))
    if s["k"] == "rangefor":
        parts.append("range " + fn.text(s["range"]))
    return " ; ".join(parts)


def shared_fields_rule(ctx, LA, classes, roots, self_concurrent=(), floor=1, audited=None):
    """Generic lockset rule: every non-atomic field of `classes` that is accessed from two threads
    (thread = reachability from `roots`, rest = 'main') with a write outside construction/destruction
    has one mutex held at all its accesses.  `audited` = {field qname: reason} exceptions."""
    from ..lockset import shared_field_audit
    audited = audited or {}
    n = 0
    for fq, verdict, detail, wit in shared_field_audit(ctx.prog, ctx.cg, LA, classes, roots, self_concurrent=self_concurrent):
        if verdict == "broken":
            ctx.broken("shared-field-audit:" + fq, "anchor", "-", detail)
            continue
        n += 1
        if fq in audited:
            ctx.ok("shared-field:" + fq.split("::", 1)[-1], "lockset(all shared fields)", "-", "audited: " + audited[fq])
            continue
        ctx.check(verdict == "ok", "shared-field:" + fq.split("::", 1)[-1], "lockset(all shared fields)", wit[0].split(" at ")[-1].split(" ")[0] if wit else "-",
                  fq.split("::")[-1] + " is " + detail, fq + " is " + detail + " (data race)", wit)
    ctx.counters["shared_fields_audited"] = n
    ctx.floor("shared_fields_audited", floor, "fields found to be shared between threads")


# ---------------------------------------------------------------- error discipline: plugin initialisation
# call sites that may drop the result of BasePlugin::init / initPlugin, with the reason
INIT_RESULT_DROPPED_OK = {
    "Oomd::Engine::DetectorGroup::DetectorGroup": "the detector clone is initialised with exactly the arguments and construction context with which the template's "
                                                  "init() already succeeded when the configuration was compiled (an init() that reads the environment - memory_above "
                                                  "reads /proc/meminfo - can still fail at that moment; the clone then never fires.  C11 does not quantify over "
                                                  "faults, so this is recorded as an observation, DESIGN 12)",
}


def init_results_checked(ctx, tag):
    """Every library call of BasePlugin::init / initPlugin has its result tested (used in a condition, returned or stored),
    i.e. a plugin whose arguments were refused never goes on to run half-initialised."""
    P = ctx.prog
    n = 0
    for f in sorted(P.fns.values(), key=lambda x: (x.file, x.line)):
        if not f.file.startswith("oomd/"):
            continue
        for i in f.calls():
            nd = f.nodes[i]
            if nd.get("cname") not in ("init", "initPlugin") or "recv" not in nd or not nd.get("ccls", "").endswith("BasePlugin"):
                continue
            if f.pos_of(i) is None:
                continue
            n += 1
            par = f.parent.get(i)
            dropped = par is None or f.nodes[par]["k"] in ("compound", "for", "while", "rangefor", "if") and f.nodes[par].get("c") != i
            owner = f
            while owner.kind == "lambda" and owner.d.get("parentfn") in P.fns:
                owner = P.fns[owner.d["parentfn"]]
            inst = "%s:init-result-checked:%s" % (tag, short(owner))
            if dropped and owner.pq in INIT_RESULT_DROPPED_OK:
                ctx.ok(inst, "error-discipline(audited)", f.loc(i), INIT_RESULT_DROPPED_OK[owner.pq])
            else:
                ctx.check(not dropped, inst, "error-discipline (result of init must be used)", f.loc(i),
                          "the result of %s() is tested" % nd["cname"],
                          "the result of %s is dropped: when the plugin refuses its arguments (e.g. the extra 'cgroup' default given to every action of a "
                          "per-cgroup ruleset instance, which systemd_restart does not declare) it runs half-initialised - arguments that come later "
                          "in the map (dry, service, post_action_delay) keep their defaults" % f.text(i)[:60])
    ctx.counters[tag + "_init_call_sites"] = n
    ctx.floor(tag + "_init_call_sites", 3, "call sites of BasePlugin::init/initPlugin in the library")
    # ... and a plugin compiled from the configuration is initialised through initPlugin(), which RECORDS its arguments: the per-cgroup
    # instances (actions in registerRunnableRulesetForCgroupPath, detectors in DetectorGroup's copy constructor) are built from
    # getPluginArgs() of the compiled plugin.  A direct init() there leaves the record empty and every instance runs on defaults
    # (dry=false, no threshold ...).  Direct init() is what the instance builders themselves use (their objects are never copied from).
    DIRECT_INIT_OK = ("Oomd::Engine::BasePlugin::initPlugin", "Oomd::Engine::Ruleset::registerRunnableRulesetForCgroupPath", "Oomd::Engine::DetectorGroup::DetectorGroup")
    from ..inline import known_functions
    kk_ = known_functions()
    kf_ = kk_[0] if kk_ else None
    callers_ = {}
    for f in P.fns.values():
        own_ = f
        while own_.kind == "lambda" and own_.d.get("parentfn") in P.fns:
            own_ = P.fns[own_.d["parentfn"]]
        for i in f.calls():
            callers_.setdefault(f.callee(i), set()).add(own_.pq)

    def direct_ok(own, depth=0):
        if own in DIRECT_INIT_OK:
            return True
        if depth < 3 and kf_ and own not in kf_ and callers_.get(own):
            return all(direct_ok(o2, depth + 1) for o2 in callers_[own])
        return False
    n_direct = 0
    for f in sorted(P.fns.values(), key=lambda x: (x.file, x.line)):
        if not f.file.startswith("oomd/") or f.file.endswith("Test.cpp"):
            continue
        for i in f.calls():
            nd = f.nodes[i]
            if nd.get("cname") != "init" or "recv" not in nd or not nd.get("ccls", "").endswith("BasePlugin") or f.pos_of(i) is None:
                continue
            if f.nodes[f.strip(nd["recv"])]["k"] == "this":
                continue
            owner = f
            while owner.kind == "lambda" and owner.d.get("parentfn") in P.fns:
                owner = P.fns[owner.d["parentfn"]]
            n_direct += 1
            ctx.check(direct_ok(owner.pq), "%s:configured-args-are-recorded:%s" % (tag, short(owner)), "who-may-call", f.loc(i),
                      "init() is called directly only by initPlugin() and by the builders of per-cgroup instances",
                      "%s initialises a plugin with init() instead of initPlugin(): the configured arguments are not recorded, so every per-cgroup "
                      "instance built from getPluginArgs() of this plugin gets none of them (a dry=true kill plugin kills for real, thresholds fall "
                      "back to their defaults)" % owner.pq)
    ctx.counters[tag + "_direct_init_sites"] = n_direct
    # ... and the plugin that is kept is one whose LAST init succeeded: a local plugin that goes into a container after an init on it
    # failed (without having been re-created in between) runs with whatever the parser had filled in before it stopped
    n_keep = 0
    for f in sorted(P.fns.values(), key=lambda x: (x.file, x.line)):
        if not f.file.startswith("oomd/") or not f.cfg:
            continue
        inits = [i for i in f.calls() if f.nodes[i].get("cname") in ("init", "initPlugin") and "recv" in f.nodes[i] and f.nodes[i].get("ccls", "").endswith("BasePlugin")]
        vars_ = set()
        for i in inits:
            rr = f.root_ref(f.nodes[i]["recv"])
            if rr is not None and rr >= 0 and f.nodes[rr]["k"] == "ref" and f.nodes[rr].get("dk") == "local":
                vars_.add(f.nodes[rr]["name"])
        for V in sorted(vars_):
            keeps = [i for i in f.calls("emplace_back", "push_back", "emplace", "insert") if any(
                f.nodes[x]["k"] == "ref" and f.nodes[x].get("name") == V for a_ in f.nodes[i].get("args", []) for x in f.walk(a_))]
            if not keeps:
                continue
            FAIL = re.compile(r"^\((0 == %s->init(Plugin)?\(.*\)|%s->init(Plugin)?\(.*\) == 0)\)$" % (re.escape(V), re.escape(V)))
            ev = {}
            for w in local_writes(f, V, must=False):
                ev.setdefault(w, []).append(("clear", "refused"))
            for i in f.calls("reset"):
                if f.text(f.nodes[i].get("recv", -1)) == V:
                    ev.setdefault(i, []).append(("clear", "refused"))
            for i in f.calls():
                # handed by mutable reference to a function / closure that may replace it (`renew(plugin)` doing plugin.reset(create()))
                nd_ = f.nodes[i]
                pts_ = nd_.get("ptypes") or []
                if nd_.get("cname") in ("move", "forward", "addressof", "swap", "exchange") or i in keeps:
                    continue        # casts and the keeping call itself do not re-create anything
                for k_, a_ in enumerate(nd_.get("args", [])):
                    an_ = f.nodes[f.strip(a_)]
                    if an_.get("k") == "ref" and an_.get("name") == V and k_ < len(pts_) and pts_[k_].rstrip().endswith("&") and not pts_[k_].rstrip().endswith("&&") and not pts_[k_].lstrip().startswith("const "):
                        ev.setdefault(i, []).append(("clear", "refused"))
            for d_ in f.all("decl"):
                # a declaration inside a loop body makes a fresh object on every iteration
                if any(v_["name"] == V for v_ in f.nodes[d_].get("vars", [])) and f.pos_of(d_) is not None:
                    ev.setdefault(d_, []).append(("clear", "refused"))
            fl = Flow(P, f, events=ev, cg=ctx.cg, edge_tokens=lambda k, p: ["refused"] if (isinstance(k, str) and FAIL.match(k) and p is False) else None)
            for i in keeps:
                n_keep += 1
                ctx.check(not fl.may(i, "refused"), "%s:refused-plugin-is-not-kept:%s" % (tag, short(f)), "never_after (init refused)", f.loc(i),
                          "the plugin that is kept passed its last init", "'%s' can be kept although an init() on it was refused and it was not re-created since: the parser "
                          "stopped at the refused argument, so arguments that come later in the map (dry, post_action_delay, ...) keep their defaults" % V,
                          witness_path(f, fl, i))
    ctx.counters[tag + "_kept_plugin_sites"] = n_keep


# ---------------------------------------------------------------- positional wiring of same-typed settings
def _name_tokens(txt):
    # the carrier's name: `*x`, `x.value()`, `(x)`, `std::move(x)`, `static_cast<T>(x)` all carry x
    txt = txt.strip()
    for _ in range(4):
        t0 = txt
        txt = re.sub(r"(\.|->)(value|get)\(\)$", "", txt)
        txt = re.sub(r"^(std::move|std::forward|static_cast<[^()]*>)\((.*)\)$", r"\2", txt)
        txt = re.sub(r"^\((.*)\)$", r"\1", txt).lstrip("*&").strip()
        if txt == t0:
            break
    last = re.split(r"[.>]", txt.replace("this->", "").replace("()", ""))[-1].strip("_ ")
    toks = set(t for t in last.split("_") if t)
    return {re.sub(r"d$", "", t) if t in ("silenced",) else t for t in toks} - {"dropin", "drop", "in"}


def _names_agree(a, b):
    ta, tb = _name_tokens(a), _name_tokens(b)
    return bool(ta) and bool(tb) and (ta <= tb or tb <= ta)


def ruleset_wiring(ctx, tag, settings):
    """A ruleset setting travels configuration -> make_unique<Ruleset>(...) -> constructor parameter -> field by POSITION among
    neighbours of the same type (int, int / bool, bool, bool): at every hop the names on both sides have to agree."""
    P = ctx.prog
    ctors = [f for f in P.fns.values() if f.pq == "Oomd::Engine::Ruleset::Ruleset" and f.kind == "ctor" and len(f.params) >= 9]
    ctx.counters[tag + "_ruleset_ctors"] = len(ctors)
    ctx.floor(tag + "_ruleset_ctors", 2, "Ruleset constructors taking the settings")
    n = 0
    for c in ctors:
        ctx.use(c)
        for ini in c.d.get("inits", []):
            if not ini.get("written") or "n" not in ini:
                continue
            fld = ini["field"].split("::")[-1]
            if not any(_names_agree(fld, s_) for s_ in settings):
                continue
            src = c.text(ini["n"])
            n += 1
            ctx.check(_names_agree(fld, src), "%s:wiring:ctor-init:%s@%d" % (tag, fld, c.line), "name agreement (positional wiring)", c.loc(),
                      "%s is initialised from the parameter of the same name (%s)" % (fld, src),
                      "%s is initialised from '%s': a same-typed neighbour was wired to the wrong field" % (fld, src))
    # a constructor that delegates to another one hands every setting on: each setting parameter appears among the delegation's
    # arguments at the position of the same-named parameter of the target constructor (a trailing DEFAULTED parameter that is simply
    # left out silently falls back to the default: prekill_hook_timeout = 5, post_action_delay = 15)
    all_ctors = [f for f in P.fns.values() if f.pq == "Oomd::Engine::Ruleset::Ruleset" and f.kind == "ctor"]
    for c in ctors:
        for ini in c.d.get("inits", []):
            if ini.get("field") != "<base>" or "n" not in ini:
                continue
            dn = c.nodes[c.strip(ini["n"])]
            dargs = dn.get("args", dn.get("kids", []))
            targets = [t for t in all_ctors if t is not c and len(t.params) >= len(dargs)]
            tgt = min(targets, key=lambda t: len(t.params)) if targets else None
            for prm in c.params:
                if not any(_names_agree(prm["name"], s_) for s_ in settings):
                    continue
                n += 1
                pos = [k for k, a in enumerate(dargs) if _names_agree(c.text(a), prm["name"])]
                ok_ = bool(pos) and tgt is not None and pos[0] < len(tgt.params) and _names_agree(tgt.params[pos[0]]["name"], prm["name"])
                ctx.check(ok_, "%s:wiring:ctor-delegation:%s@%d" % (tag, prm["name"], c.line), "name agreement (positional wiring)", c.loc(),
                          "the delegating constructor hands %s on at the position of the target's parameter of that name" % prm["name"],
                          "the Ruleset constructor at line %d delegates without passing its parameter '%s' on (or at the wrong position): the target constructor's "
                          "default applies and the configured value is dropped for every ruleset built through this constructor (the per-cgroup instances)"
                          % (c.line, prm["name"]))
    by_arity = {len(c.params): c for c in ctors}
    for f in P.fns.values():
        for i in f.calls("make_unique", "std::make_unique"):
            nd = f.nodes[i]
            if "Ruleset" not in nd.get("type", "") or "DetectorGroup" in nd.get("type", "") or len(nd.get("args", [])) not in by_arity:
                continue
            c = by_arity[len(nd["args"])]
            ctx.use(f)
            for pos, (a, prm) in enumerate(zip(nd["args"], c.params)):
                if not any(_names_agree(prm["name"], s_) for s_ in settings):
                    continue
                n += 1
                at = f.text(a)
                ctx.check(_names_agree(at, prm["name"]), "%s:wiring:%s:arg%d:%s" % (tag, short(f), pos, prm["name"]), "name agreement (positional wiring)", f.loc(i),
                          "argument %d (%s) feeds the constructor parameter %s" % (pos, at, prm["name"]),
                          "argument %d of make_unique<Ruleset> is '%s' but the constructor's parameter at that position is '%s': two settings of the same type are "
                          "transposed (the compiler cannot see it)" % (pos, at, prm["name"]))
                # a yes/no setting reaches the constructor AS CONFIGURED: the argument's provenance is a member of one of the function's
                # parameters (the parsed ruleset), not a local that is adjusted on the way (a flag "cleaned up" when it looks meaningless)
                if prm["type"].replace("const ", "").strip() == "bool":
                    Xw = Expander(P, f)
                    prov = Xw(a)
                    n += 1
                    ctx.check(bool(re.fullmatch(r"(param:\w+|this)((\.|->)\w+)+", prov)), "%s:wiring:%s:arg%d:%s:as-configured" % (tag, short(f), pos, prm["name"]),
                              "provenance (Expander)", f.loc(i), "the flag is the configured value (%s)" % prov,
                              "argument %d of make_unique<Ruleset> (%s, the '%s' setting) is not the configured value as it was parsed: its provenance is '%s' - "
                              "a local that is re-assigned, or an expression over several settings - so for some configurations the ruleset is built with a "
                              "different flag than the one written in the configuration" % (pos, at, prm["name"], prov))
    ctx.counters[tag + "_wiring_hops"] = n
    ctx.floor(tag + "_wiring_hops", 2 * len(settings), "wiring hops examined for " + ", ".join(settings))


def kmsg_record_complete(ctx, tag):
    """Log::kmsgLog writes the caller's text in full: the record's tail carries the '(dry)' marker and the kill details, so the
    buffer handed to the write is the parameter text, only ever extended (prefix in front, newline at the end), and written whole."""
    P = ctx.prog
    kl = ctx.fn1("Oomd::Log::kmsgLog")
    ctx.use(kl)
    X = Expander(P, kl)
    wr = [i for i in kl.calls("Util::writeFull", "write") if len(kl.nodes[i].get("args", [])) == 3 and "kmsg_fd_" in kl.text(kl.nodes[i]["args"][0])]
    ctx.counters[tag + "_kmsg_write_sites"] = len(wr)
    ctx.floor(tag + "_kmsg_write_sites", 1, "write of the kmsg record in Log::kmsgLog")
    SHRINK = ("resize", "substr", "erase", "pop_back", "clear", "assign", "remove_suffix", "remove_prefix", "replace", "shrink_to_fit", "operator=")
    for i in wr:
        a = kl.nodes[i]["args"]
        m = re.match(r"^(\w+)\.(data|c_str)\(\)$", kl.text(a[1]))
        if not m:
            ctx.broken(tag + ":kmsg-record-complete", "anchor", kl.loc(i), "cannot identify the buffer written to kmsg: " + kl.text(a[1]))
            continue
        var = m.group(1)
        init, v = local_init(kl, var, must=False)
        for _hop in range(3):       # a reference alias of the buffer (const auto& out = message)
            if v is None or init is None or init < 0:
                break
            tgt = kl.nodes[kl.strip(init)]
            if tgt["k"] == "ref" and tgt.get("dk") == "local" and v.get("isref"):
                var = tgt["name"]
                init, v = local_init(kl, var, must=False)
            else:
                break
        src = X(init) if v is not None and init is not None and init >= 0 else "?"
        whole = kl.text(a[2]) in ("%s.size()" % var, "%s.length()" % var, "%s.size()" % m.group(1), "%s.length()" % m.group(1))
        VERB = r"^(std::string\()?param:%s\)?$|^std::basic_string<char>\(param:%s\)$"
        verbatim = re.match(VERB % ("buf", "buf"), src) is not None

        def appended_whole(fn, XX, name, param, at):
            """The buffer starts empty and the caller's text is appended to it as a whole (append(text) / += text, one argument) on every
            path to the nodes `at`."""
            ini, vv = local_init(fn, name, must=False)
            it = XX(ini) if vv is not None and ini is not None and ini >= 0 else ""
            if vv is None or it not in ("", "std::string()", "std::basic_string<char>()", '""', 'std::string("")', "{}"):
                return False
            app = [j for j in fn.calls("append", "operator+=") if fn.text(fn.nodes[j].get("recv", -1)) == name and len(fn.nodes[j].get("args", [])) == 1
                   and XX(fn.nodes[j]["args"][0]) == "param:" + param]
            if not app or not at:
                return False
            fa = Flow(P, fn, events={j: [("set", "appended")] for j in app}, cg=ctx.cg)
            return all(fa.must(x, "appended") for x in at)
        if not verbatim and v is not None:
            verbatim = appended_whole(kl, X, var, "buf", [i])
        shrinks = [kl.text(j)[:50] for j in kl.calls(*SHRINK) if kl.text(kl.nodes[j].get("recv", -1)) == var and kl.nodes[j].get("cname") != "operator="]
        if not verbatim and v is not None and init is not None and init >= 0:
            # the record may be assembled by a helper: message = helper(buf, prefix) - follow it one level
            c = kl.nodes[kl.strip(init)]
            while c["k"] in ("construct", "cast") and (c.get("args") or "sub" in c):
                nxt = c["args"][0] if c.get("args") else c["sub"]
                c = kl.nodes[kl.strip(nxt)]
                if c["k"] == "call":
                    break
            if c["k"] == "call" and c.get("cusr") and len(c.get("args", [])) >= 1:
                pos = [k for k, x in enumerate(c["args"]) if X(x) == "param:buf"]
                hs = [P.fns[u] for u in P.resolve(c["cusr"]) if u in P.fns]
                if len(pos) == 1 and len(hs) == 1 and len(hs[0].params) > pos[0]:
                    h = hs[0]
                    ctx.use(h)
                    pn = h.params[pos[0]]["name"]
                    Xh = Expander(P, h)
                    rv = [h.text(h.nodes[r]["val"]) for r in returns(h) if "val" in h.nodes[r]]
                    rv = [re.sub(r"^std::(basic_string<char>|string)\((\w+)\)$", r"\2", t) for t in rv]
                    if rv and len(set(rv)) == 1 and re.match(r"^\w+$", rv[0]):
                        hi, hv = local_init(h, rv[0], must=False)
                        hsrc = Xh(hi) if hv is not None and hi is not None and hi >= 0 else "?"
                        verbatim = re.match(VERB % (pn, pn), hsrc) is not None or appended_whole(h, Xh, rv[0], pn, [r for r in returns(h) if "val" in h.nodes[r]])
                        shrinks += [h.text(j)[:50] for j in h.calls(*SHRINK) if h.text(h.nodes[j].get("recv", -1)) == rv[0] and h.nodes[j].get("cname") != "operator="]
                        src = "%s(..) -> %s" % (h.name, hsrc)
        ctx.check(verbatim and whole and not shrinks, tag + ":kmsg-record-complete", "provenance + who-may-write (extend only)", kl.loc(i),
                  "the kmsg record is the caller's text, only extended by prefix and newline, and written in full",
                  "the buffer written to kmsg is built from '%s'%s%s: the record can lose its tail - the '(dry)' marker and the kill details stand at the end "
                  "of the text" % (src[:90], "" if whole else ", length " + kl.text(a[2]), (", shortened by " + ", ".join(shrinks)) if shrinks else ""))


def readdir_does_not_follow_links(ctx, tag):
    """The d_type branch of readDirFromDIR classifies the ENTRY itself (a symlink is DT_LNK, neither file nor directory); the
    fstatat fallback agrees only if it does not follow symlinks - and then a dangling link cannot fail the whole listing either."""
    rd = ctx.fn1("Oomd::Fs::readDirFromDIR")
    ctx.use(rd)
    st = [i for i in rd.calls("fstatat", "fstatat64", "lstat", "stat") if rd.nodes[i]["k"] == "call" and len(rd.nodes[i].get("args", [])) >= 2]
    ctx.counters[tag + "_readdir_stat_sites"] = len(st)
    ctx.floor(tag + "_readdir_stat_sites", 1, "stat call of the d_type-less fallback in readDirFromDIR")
    for i in st:
        nm = rd.nodes[i].get("cname")
        a = [rd.text(x) for x in rd.nodes[i].get("args", [])]
        nofollow = nm == "lstat" or (nm.startswith("fstatat") and len(a) == 4 and (a[3] in ("256", "AT_SYMLINK_NOFOLLOW") or "256" in a[3].split(" | ") or "AT_SYMLINK_NOFOLLOW" in a[3]))
        ctx.check(nofollow, tag + ":readdir-fallback-does-not-follow-symlinks", "sibling_agreement (entry type, not target type)", rd.loc(i),
                  "the fallback looks at the directory entry itself, like d_type does",
                  "the d_type-less fallback follows symbolic links (%s(%s)): it classifies by the target where the fast path classifies the entry, and a "
                  "dangling link makes the stat - and with it the whole directory listing - fail" % (nm, ", ".join(a)[:80]))


def _flag_test(k, p, flag):
    """fact (k, p) says 'bit `flag` is set': (x & FLAG) true, or (x & FLAG) == 0 false (the canonical form of != 0)"""
    if not isinstance(k, str) or not isinstance(p, bool) or not re.search(r"\b%s\b" % flag, k):
        return False
    if re.match(r"^\((0 == \(.*\)|\(.*\) == 0)\)$", k):
        return p is False
    return p is True


def readdir_classification(ctx, tag):
    """Both branches of readDirFromDIR (d_type fast path and fstatat fallback) put entries selected by DE_DIR into the dirs list and
    entries selected by DE_FILE into the files list of the DirEnts that is returned.  The selection is recognised by the flag constant
    in a dominating condition (directly or through a hoisted local), the destination by the DirEnts member, not by variable names."""
    P, cg = ctx.prog, ctx.cg
    rd = ctx.fn1("Oomd::Fs::readDirFromDIR")
    fl = Flow(P, rd, cg=cg)
    returned = set()
    for r in returns(rd):
        if "val" in rd.nodes[r]:
            for x in rd.walk(rd.nodes[r]["val"]):
                if rd.nodes[x]["k"] == "ref" and rd.nodes[x].get("dk") == "local":
                    returned.add(rd.nodes[x]["name"])
    by = {"DE_DIR": [], "DE_FILE": []}
    for i in rd.calls("push_back", "emplace_back"):
        g = fl.guards(i)
        tgt = rd.text(rd.nodes[i]["recv"])
        for flag in by:
            if any(_flag_test(k, p, flag) for k, p in g):
                by[flag].append((i, tgt))
    for flag, member in (("DE_DIR", "dirs"), ("DE_FILE", "files")):
        ctx.counters[tag + "_readdir_push_" + flag] = len(by[flag])
        ctx.floor(tag + "_readdir_push_" + flag, 2, "push sites under %s (d_type branch and fstatat branch)" % flag)
        for i, tgt in by[flag]:
            m = re.match(r"^(\w+)\.(\w+)$", tgt)
            ctx.check(m is not None and m.group(2) == member and m.group(1) in returned,
                      "readdir-classification:%s:%s" % (flag, "fast" if any("d_type" in k for k, p in fl.guards(i)) else "fallback"),
                      "sibling_agreement", rd.loc(i), "entries selected by %s go to the returned .%s" % (flag, member),
                      "entries selected by %s are pushed to %s (the d_type-less fallback disagrees with the fast path)" % (flag, tgt))

    # An entry leaves the loop body early (continue) only when it is hidden (leading dot) or was just classified by its d_type: every
    # other entry - DT_UNKNOWN from a file system that does not fill d_type in, above all - reaches the fstatat fallback, which sits
    # directly in the loop body (not under a condition).
    stats = rd.calls("fstatat", "lstat", "stat", "fstat")
    ls = [l for l in loops(rd) if l["stmt"] is not None and any(x in stats for x in rd.walk(l["stmt"]))]
    if len(ls) != 1 or not stats:
        ctx.broken(tag + ":readdir-unknown-type-reaches-stat", "anchor", rd.loc(), "expected one readdir loop with a stat fallback in Fs::readDirFromDIR")
        return
    L = ls[0]["stmt"]
    pushes = set(rd.calls("push_back", "emplace_back"))
    fl2 = fl
    conts = [i for i, n in enumerate(rd.nodes) if n["k"] == "continue" and L in list(rd.ancestors(i))]
    ctx.counters[tag + "_readdir_continue_sites"] = len(conts)
    ctx.floor(tag + "_readdir_continue_sites", 3, "early continues in the readdir loop (hidden entry, two d_type fast paths)")
    for i in conts:
        g = []
        cn_ = CondNorm(rd, P)
        for a in rd.ancestors(i):
            if a == L:
                break
            an = rd.nodes[a]
            if an["k"] == "if" and "c" in an:
                g += cn_.decompose(an["c"], an.get("then") is not None and (an["then"] == i or i in set(rd.walk(an["then"]))))
        hidden = any(isinstance(k, str) and p is True and "d_name[0]" in k and "==" in k and re.search(r"\b46\b|'\.'", k) for k, p in g)
        # lexical: a push in the same compound before the continue
        par = next(iter(rd.ancestors(i)), None)
        sib = rd.nodes[par].get("kids", []) if par is not None and rd.nodes[par]["k"] == "compound" else []
        pushed = any(any(x in pushes for x in rd.walk(k_)) for k_ in sib[:sib.index(i)]) if i in sib else False
        # a continue AFTER the stat fallback (the entry vanished between readdir and fstatat, say) is not about classification: the
        # fallback is unconditional in the loop body, so everything behind it in the body has been through it
        body = rd.nodes[L].get("body")
        bk = rd.nodes[body].get("kids", []) if isinstance(body, int) and body >= 0 and rd.nodes[body]["k"] == "compound" else []
        pos_of_ = lambda x: next((j for j, k_ in enumerate(bk) if k_ == x or x in set(rd.walk(k_))), None)
        after_stat = any(pos_of_(s_) is not None and pos_of_(i) is not None and pos_of_(s_) <= pos_of_(i) and s_ < i for s_ in stats)
        if after_stat:
            continue
        ctx.check(hidden or pushed, "%s:readdir-unknown-type-reaches-stat:continue@%d" % (tag, rd.nodes[i].get("line", 0)), "must-pass-through (continue sites)", rd.loc(i),
                  "the entry is skipped because it is hidden, or was classified by d_type just before",
                  "Fs::readDirFromDIR skips to the next entry at line %d without having classified this one and without the fstatat fallback: on a file system that "
                  "reports DT_UNKNOWN (or anything the fast path does not know) the entry is silently dropped - child cgroups disappear from the listing"
                  % rd.nodes[i].get("line", 0))
    def _in_branch(a, x):
        an = rd.nodes[a]
        if an["k"] == "switch":
            return True
        for key in ("then", "else", "t", "f"):
            b_ = an.get(key)
            if isinstance(b_, int) and b_ >= 0 and (b_ == x or x in set(rd.walk(b_))):
                return True
        return False
    for s_ in stats:
        conds = [a for a in list(rd.ancestors(s_)) if rd.nodes[a]["k"] in ("if", "switch", "cond") and _in_branch(a, s_)]
        inside = [a for a in conds if L in list(rd.ancestors(a))]
        ctx.check(not inside, "%s:readdir-unknown-type-reaches-stat:fallback@%d" % (tag, rd.nodes[s_].get("line", 0)), "must-pass-through (continue sites)", rd.loc(s_),
                  "the stat fallback is unconditional in the loop body", "the stat fallback of Fs::readDirFromDIR sits under a condition: entries that fail it are never classified")



def const_int(fn, i):
    """Integer value of expression i if the front end could fold it (literals, constexpr names, arithmetic over them, - and ~ of those,
    looking through integral casts)."""
    n = fn.nodes[fn.strip(i)]
    if "cval" in n:
        return int(n["cval"])
    if n["k"] == "lit" and n.get("lk") in ("int", "integer") or (n["k"] == "lit" and re.match(r"^-?(0[xX][0-9a-fA-F]+|\d+)[uUlL]*$", str(n.get("v", "")))):
        try:
            return int(re.sub(r"[uUlL]+$", "", str(n.get("v"))), 0)
        except ValueError:
            return None
    if n["k"] == "un" and n.get("op") in ("-", "~"):
        v = const_int(fn, n["sub"])
        if v is None:
            return None
        return -v if n["op"] == "-" else ~v
    if n["k"] == "cast" and n.get("ck") in ("IntegralCast", "NoOp", "LValueToRValue") and "sub" in n:
        return const_int(fn, n["sub"])
    if n["k"] == "paren" and "sub" in n:
        return const_int(fn, n["sub"])
    return None



def integer_text_is_decimal(ctx, tag):
    """Numbers in configuration text, xattrs and kernel files are decimal: every std::sto{i,l,ll,ul,ull} / strto{l,ll,ul,ull} in oomd's own
    code converts with base 10 (the default, or a constant folding to 10).  Base 0 ("let the C library detect the base") reads a value
    written with a leading zero - "050" - as octal: a threshold of 50 becomes 40 without any error."""
    P = ctx.prog
    n = 0
    for f in sorted(P.fns.values(), key=lambda x: (x.file, x.line, x.usr)):
        if not f.file.startswith("oomd/") or f.file.endswith("Test.cpp") or "fixtures" in f.file:
            continue
        for i in f.calls():
            c = plain(f.nodes[i].get("callee") or "")
            if not re.match(r"^(std::)?(sto(i|l|ll|ul|ull)|strto(l|ll|ul|ull|imax|umax))$", c):
                continue
            a = f.nodes[i].get("args", [])
            n += 1
            ctx.use(f)
            base = const_int(f, a[2]) if len(a) >= 3 else 10
            ctx.check(base == 10, "%s:integer-text-is-decimal:%s@%d" % (tag, short(f), f.nodes[i].get("line", 0)), "call-site argument (folded constant)", f.loc(i),
                      "%s converts in base 10" % c,
                      "%s is called with base %s in %s: the text is no longer read as the decimal number that was written (base 0 turns a leading zero into "
                      "octal - \"050\" is 40 - and 0x.. into hex), so a threshold, size or count acts at a different value than the configured one"
                      % (c, "?" if base is None else base, f.pq))
    ctx.counters[tag + "_integer_conversions"] = n
    ctx.floor(tag + "_integer_conversions", 5, "integer text conversions in oomd's own code")



def new_helper_return_values(ctx, f, expr_node):
    """If expression `expr_node` of f is a call of a project function that the reference tree does not have (a NEW helper, see
    analysis/inline.py) with a body, return [(helper, return node, text)] - the helper's return expressions expanded (Expander) with its
    parameters replaced by the caller's (expanded) arguments; otherwise None.  Lets a provenance rule look THROUGH a helper with several
    exits instead of giving up: every exit has to satisfy what the rule asks of the value."""
    from ..inline import known_functions
    P = ctx.prog
    n = f.nodes[f.strip(expr_node)]
    if n.get("k") != "call" or not n.get("cusr"):
        return None
    kn = known_functions()
    hs = [P.fns[u] for u in P.resolve(n["cusr"]) if u in P.fns and P.fns[u].file.startswith("oomd/")]
    if len(hs) != 1 or kn is None or plain(hs[0].d.get("qname", "")) in kn[0]:
        return None
    h = hs[0]
    Xf, Xh = Expander(P, f), Expander(P, h)
    args = [Xf(a) for a in n.get("args", [])]
    out = []
    for r in returns(h):
        if "val" not in h.nodes[r]:
            continue
        t = Xh(h.nodes[r]["val"])
        for k, p_ in enumerate(h.params):
            if k < len(args):
                t = re.sub(r"param:%s(?![\w])" % re.escape(p_["name"]), lambda m_, a_=args[k]: a_, t)
        out.append((h, r, t))
    return out or None


def inlined_condition_paths(fn, cn, call_node, want):
    """For a condition that is a folded helper call (`if (!helper(x))`, node class InlinedCall with its exits recorded): the lexical
    facts under which the folded body makes the condition evaluate to `want` - one list of (key, polarity) per such exit.  An exit that
    returns a literal of the other polarity is left out; an exit returning an expression contributes that expression with polarity `want`."""
    out = []
    for r in fn.nodes[call_node].get("rets", []):
        rn = fn.nodes[r]
        val = (rn.get("kids") or [None])[0]
        facts = []
        if val is not None and val >= 0:
            vn = fn.nodes[fn.strip(val)]
            if vn["k"] == "lit" and vn.get("lk") == "bool":
                if (vn.get("v") == "true") != want:
                    continue
            else:
                facts += cn.decompose(val, want)
        for a in fn.ancestors(r):
            an = fn.nodes[a]
            if an["k"] == "if" and "c" in an:
                in_then = an.get("then") is not None and (an["then"] == r or r in set(fn.walk(an["then"])))
                facts += cn.decompose(an["c"], in_then)
        out.append(facts)
    return out


def locals_receiving(fn, pattern, text=None):
    """Names of the locals of fn whose initialiser or some assignment's right-hand side matches `pattern` (a regular expression
    searched in the canonical text, or in text(node) when given - e.g. hoist_text to see through named sub-expressions).  Used to find
    a local by its ROLE (what it holds), not by its name."""
    rx = re.compile(pattern)
    out = []
    T = text or fn.text
    for d_ in fn.all("decl"):
        for v_ in fn.nodes[d_].get("vars", []):
            if v_.get("init") is not None and v_.get("init", -1) >= 0 and rx.search(T(v_["init"])):
                out.append(v_["name"])
    for i_, n_ in enumerate(fn.nodes):
        if n_["k"] == "bin" and n_.get("op") == "=" and rx.search(fn.text(n_["r"])):
            l_ = fn.nodes[fn.strip(n_["l"])]
            if l_["k"] == "ref" and l_.get("dk") == "local":
                out.append(l_["name"])
        elif n_["k"] == "call" and n_.get("op") == "=" and "recv" in n_ and n_.get("args") and rx.search(fn.text(n_["args"][0])):
            l_ = fn.nodes[fn.strip(n_["recv"])]
            if l_["k"] == "ref" and l_.get("dk") == "local":
                out.append(l_["name"])
    return sorted(set(out))


def role_local(ctx, fn, pattern, what):
    """The single local of fn that holds `what`; AnalysisBroken if there is none or more than one."""
    names = locals_receiving(fn, pattern)
    if len(names) != 1:
        raise AnalysisBroken("anchor: %s keeps %s in %s local(s) %s; the rules for this function need exactly one" % (fn.pq, what, len(names), names))
    return names[0]


def loop_container(fn, loop):
    """Canonical text of the container a loop walks front to back, for the three spellings
    `for (x : C)`, `for (it = C.begin(); it != C.end(); ++it)` and `for (i = 0; i < C.size(); ++i)`; None for other loops.
    A pointer container is rendered dereferenced (`*q`), so `for (x : *q)` and `q->begin()` agree."""
    if loop.get("stmt") is None:
        return None
    sn = fn.nodes[loop["stmt"]]
    if sn["k"] == "rangefor" and sn.get("range", -1) >= 0:
        return fn.text(fn.strip(sn["range"]))

    if sn["k"] != "for":
        return None
    if "init" in sn and sn["init"] is not None and sn["init"] >= 0 and fn.nodes[sn["init"]]["k"] == "decl":
        for v in fn.nodes[sn["init"]].get("vars", []):
            if v.get("init") is None or v.get("init", -1) < 0:
                continue
            c = fn.nodes[fn.strip(v["init"])]
            if c["k"] == "call" and c.get("cname") in ("begin", "cbegin") and "recv" in c:
                t = fn.text(fn.strip(v["init"]))
                r = fn.text(c["recv"])
                return ("*" + r) if ("%s->%s(" % (r, c["cname"])) in t else r
    if "c" in sn and sn["c"] is not None and sn["c"] >= 0:
        for x in fn.walk(sn["c"]):
            c = fn.nodes[x]
            if c["k"] == "call" and c.get("cname") in ("size", "length") and "recv" in c:
                t = fn.text(x)
                r = fn.text(c["recv"])
                return ("*" + r) if ("%s->%s(" % (r, c["cname"])) in t else r
    return None


def loop_entry_node(fn, loop):
    """A CFG-positioned node every pass through the loop goes through once before its first iteration: the range expression of a
    range-for, the initialiser of a classic for.  None when there is none (while/do)."""
    if loop.get("stmt") is None:
        return None
    sn = fn.nodes[loop["stmt"]]
    r_ = sn.get("range", -1) if sn["k"] == "rangefor" else sn.get("init", -1)
    if r_ is None or r_ < 0:
        return None
    if fn.nodes[r_]["k"] == "decl":
        r_ = next((v_["init"] for v_ in fn.nodes[r_].get("vars", []) if v_.get("init") is not None and v_.get("init", -1) >= 0), r_)
    if fn.pos_of(r_) is not None:
        return r_
    return next((x for x in fn.walk(r_) if fn.pos_of(x) is not None), None)


def is_loop_control_fact(key):
    """Facts that only say 'the loop has another element' (range-for internals, iterator != end, index < size)."""
    return ("__begin" in key or "__end" in key or re.search(r"\.c?end\(\)", key) is not None or
            re.match(r"^\(\w+(@\d+)? < ([\w.>-]+(\.|->)size\(\)|\w+(@\d+)?)\)$", key) is not None)


def loop_walk(fn, loop):
    """How a loop walks a container: {"dir": "forward"|"backward", "container": canonical text (pointer containers dereferenced, as in
    loop_container), "elem": regular expression matching the text of 'the current element'} - or None for loops that are not a plain
    walk.  Recognised spellings:
      for (x : C)                                        forward,  element x
      for (it = C.begin(); it != C.end(); ++it)          forward,  element *it / it->
      for (it = C.rbegin(); it != C.rend(); ++it)        backward, element *it / it->
      for (i = 0; i < C.size(); ++i)                     forward,  element C[i] / C.at(i)
      for (i = C.size(); i > 0; --i)                     backward, element C[i - 1] / C.at(i - 1)
    """
    if loop.get("stmt") is None:
        return None
    sn = fn.nodes[loop["stmt"]]
    if sn["k"] == "rangefor" and sn.get("range", -1) >= 0:
        lv = sn.get("loopvar", -1)
        names = [v["name"] for v in fn.nodes[lv].get("vars", [])] if lv is not None and lv >= 0 else []
        return {"dir": "forward", "container": fn.text(fn.strip(sn["range"])), "elem": r"^(%s)(?!\w)" % "|".join(map(re.escape, names)) if names else r"^$", "var": names[0] if names else None}
    if sn["k"] != "for":
        return None
    inc = fn.text(sn["inc"]) if sn.get("inc") is not None and sn.get("inc", -1) >= 0 else ""
    cnd = fn.text(sn["c"]) if sn.get("c") is not None and sn.get("c", -1) >= 0 else ""

    def deref(r, t, m):
        return ("*" + r) if ("%s->%s(" % (r, m)) in t else r
    if sn.get("init") is not None and sn.get("init", -1) >= 0 and fn.nodes[sn["init"]]["k"] == "decl":
        for v in fn.nodes[sn["init"]].get("vars", []):
            if v.get("init") is None or v.get("init", -1) < 0:
                continue
            nm = v["name"]
            if nm in fn.dup_names:
                nm = "%s@%s" % (nm, v.get("decl", "").split("@")[-1].split(":")[0])     # as Fn.text renders a name two locals share
            up = inc in ("++" + nm, nm + "++")
            down = inc in ("--" + nm, nm + "--")
            it = fn.strip(v["init"])
            c = fn.nodes[it]
            if c["k"] == "call" and "recv" in c and c.get("cname") in ("begin", "cbegin", "rbegin", "crbegin") and up:
                cont = deref(fn.text(c["recv"]), fn.text(it), c["cname"])
                endn = {"begin": "end", "cbegin": "cend", "rbegin": "rend", "crbegin": "crend"}[c["cname"]]
                # the loop stops at the matching end of the same container
                if not re.search(r"(\.|->)c?r?end\(\)", cnd) or ("r" in c["cname"].replace("cbegin", "")) != bool(re.search(r"(\.|->)c?rend\(\)", cnd)):
                    return None
                return {"dir": "backward" if c["cname"] in ("rbegin", "crbegin") else "forward", "container": cont,
                        "elem": r"^(\(?\*%s\)?|%s->)" % (re.escape(nm), re.escape(nm)), "var": nm}
            t0 = fn.text(it)
            if t0 == "0" and up:
                m = re.match(r"^\(%s < (.+?)(\.|->)(size|length)\(\)\)$" % re.escape(nm), cnd)
                if m:
                    cont = ("*" + m.group(1)) if m.group(2) == "->" else m.group(1)
                    base = m.group(1)
                    return {"dir": "forward", "container": cont, "var": nm,
                            "elem": r"^(%s\[%s\]|%s(\.|->)at\(%s\)|\(\*%s\)\[%s\])" % ((re.escape(base), re.escape(nm)) * 3)}
            m0 = re.match(r"^(.+?)(\.|->)(size|length)\(\)$", t0)
            if m0 and down and re.match(r"^\((0 < %s|%s > 0|%s != 0|%s)\)$|^%s$" % ((re.escape(nm),) * 5), cnd):
                base = m0.group(1)
                cont = ("*" + base) if m0.group(2) == "->" else base
                idx = r"\(%s - 1\)" % re.escape(nm)
                return {"dir": "backward", "container": cont, "var": nm,
                        "elem": r"^(%s\[%s\]|%s(\.|->)at\(%s\)|\(\*%s\)\[%s\])" % ((re.escape(base), idx) * 3)}
    return None


def expanded_guards(prog, fn, flow, node, X=None):
    """flow.guards(node) with every key re-rendered through the Expander (single-definition locals replaced by what they hold,
    parameters as param:<name>), so a rule can state a condition without naming the locals it was computed through.  Facts that have
    no condition node (synthetic ones) are kept as they are.  Both renderings are returned: [(key, polarity)]."""
    X = X or Expander(prog, fn)
    out = []
    for k, p in flow.guards(node):
        out.append((k, p))
        n_ = flow.cn.key_node.get(k)
        if n_ is None:
            continue
        try:
            k0, _ = flow.cn.key(n_)
            if k0 != k:
                continue            # derived fact stored under another node's key
            k2, _ = flow.cn._key(n_, lambda x: fn.text(x, 0, X._cb, X._ncb))
        except Exception:
            continue
        if k2 != k and (k2, p) not in out:
            out.append((k2, p))
    return out


def function_level_locals(fn, type_rx=None):
    """[(name, var record)] of locals declared outside every loop body (declaration order), optionally filtered by type."""
    lb = set()
    for l in loops(fn):
        lb |= set(l["body"])
    out = []
    for d in fn.all("decl"):
        pos = fn.pos_of(d)
        if pos is None or pos[0] in lb:
            continue
        for v in fn.nodes[d].get("vars", []):
            if type_rx is None or re.search(type_rx, v.get("type", "")):
                out.append((v["name"], v))
    return out


def always_performs(prog, cg, g, direct, memo=None, depth=0):
    """Must-pass-through summary over the call graph: does EVERY path from g's entry to a normal exit pass an event?  An event is a
    node listed by direct(g) or a call of a (single-definition, non-virtual) program function that itself always performs one.
    Returns (bool, [exit locations reached without the event])."""
    memo = memo if memo is not None else {}
    if g.usr in memo:
        return memo[g.usr]
    memo[g.usr] = (False, ["recursion"])
    ev = {n: [("set", "E")] for n in direct(g)}
    notes = []
    if depth < 4:
        for i in g.calls():
            n = g.nodes[i]
            if n.get("virt") or not n.get("cusr"):
                continue
            tg = [prog.fns[u] for u in prog.resolve(n["cusr"]) if u in prog.fns]
            if len(tg) != 1 or not tg[0].cfg or not tg[0].file.startswith("oomd/"):
                continue
            res = always_performs(prog, cg, tg[0], direct, memo, depth + 1)
            if res[0]:
                ev.setdefault(i, []).append(("set", "E"))
            elif direct(tg[0]) or any("returns at" in x for x in res[1]):
                notes.append("%s returns at %s without it" % (tg[0].pq.replace("Oomd::", ""), ", ".join(x for x in res[1][:2])))
    if not ev:
        memo[g.usr] = (False, notes or ["no event site in " + g.pq])
        return memo[g.usr]
    fl = Flow(prog, g, events=ev, cg=cg)
    bad = []
    for kind, node, b, parts in fl.exits():
        if kind not in ("return", "fallthrough"):
            continue
        if not all("E" in st.must for st in parts.values()):
            bad.append(g.loc(node) if node is not None else "end of " + g.pq)
    memo[g.usr] = (not bad, bad + (notes if bad else []))
    return memo[g.usr]


def detector_walk_every_tick(ctx, tag):
    """Every evaluation of a ruleset (Ruleset::runOnceImpl) checks ALL its detector groups, on every path - also while its action
    chain is suspended or paused (detectors keep sliding windows; skipping a tick leaves them stale).  The walk may live in
    runOnceImpl or in a helper it always calls: a walk is a forward loop over detector_groups_ without early exit that calls
    DetectorGroup::check on its element in every iteration.  Shared by C02, C05 and C06."""
    P, cg = ctx.prog, ctx.cg
    impl = ctx.fn1("Oomd::Engine::Ruleset::runOnceImpl")
    walks = {}

    def direct(g):
        if g.usr in walks:
            return walks[g.usr]
        out = []
        for l in loops(g):
            w = loop_walk(g, l)
            if not w or w["dir"] != "forward" or w["container"] != "this->detector_groups_":
                continue
            cs = [i for i in g.calls("DetectorGroup::check") if l["stmt"] in list(g.ancestors(i))]
            if not cs:
                continue
            fi = iter_flow(ctx, g, l, {i: [("set", "C")] for i in cs})
            every = all(all("C" in st.must for st in (fi.OUT.get(b) or {}).values()) for b in back_sources(l))
            real_exits = [(b_, s_) for b_, s_ in early_exits(g, l) if not g.blocks[s_].get("noreturn")]
            if every and not real_exits:
                en = loop_entry_node(g, l)
                if en is not None:
                    out.append(en)
        walks[g.usr] = out
        return out
    ok, bad = always_performs(P, cg, impl, direct)
    n_w = sum(len(v) for v in walks.values())
    ctx.counters[tag + "_detector_walks"] = n_w
    ctx.floor(tag + "_detector_walks", 1, "complete forward walks over detector_groups_ calling DetectorGroup::check")
    ctx.check(ok, "detectors-checked-on-every-tick", "must_pass_through (interprocedural)", impl.loc(),
              "every path through runOnceImpl walks all detector groups (directly or in a helper it always calls)",
              "runOnceImpl (or the helper holding the detector walk) can return without having checked the detector groups (%s): while that "
              "path is taken - e.g. during a suspended or paused action chain - sliding-window detectors miss their samples" % ", ".join(bad[:3]))


def firing_edge_in_impl(ctx):
    """Precondition of the rules that read runOnceImpl as 'walk the detector groups, set the action context and the invoking ruleset
    on the firing edge, gate, resume or start the chain': the DetectorGroup::check calls are in runOnceImpl itself.  When the walk was
    moved into a helper those rules cannot be evaluated on runOnceImpl alone - that is 'analysis broken', not a violation (the
    interprocedural rule detectors-checked-on-every-tick still applies)."""
    impl = ctx.fn1("Oomd::Engine::Ruleset::runOnceImpl")
    if impl.calls("DetectorGroup::check"):
        return True
    ctx.broken("anchor:firing-edge-in-runOnceImpl", "anchor", impl.loc(),
               "runOnceImpl no longer contains the DetectorGroup::check calls (moved into a helper?): the rules about what happens on the firing edge cannot be evaluated")
    return False


def saved_context_is_a_copy(ctx, tag):
    """What a suspended action chain keeps is a COPY of the action context of the tick it fired on: the saved field is an ActionContext
    by value and ActionContext owns its strings.  (runOnceImpl resets the live context at the end of every tick; anything that merely
    refers to it is empty - or another group's - on the tick the chain resumes.)  Shared by C06, C07 and C17."""
    P = ctx.prog
    st = P.classes.get("Oomd::Engine::Ruleset::AsyncActionChainState")
    ac = P.classes.get("Oomd::ActionContext")
    if not st or not ac:
        ctx.broken("saved-context-is-a-copy", "anchor", "-", "AsyncActionChainState / ActionContext not found")
        return
    REF = re.compile(r"&|\*|reference_wrapper|string_view|\bspan\b|_ptr<")
    f = {x["name"]: x for x in st.get("fields", [])}.get("action_context")
    if f is None:
        ctx.broken("saved-context-is-a-copy", "anchor", "-", "AsyncActionChainState has no field action_context (renamed?)")
        return
    t = f.get("type", "").replace("const ", "").strip()
    ctx.check(t in ("Oomd::ActionContext", "ActionContext"), "saved-context-is-a-copy", "E-TYPE (declared type)", "oomd/engine/Ruleset.h:%s" % f.get("line", "?"),
              "the suspended chain stores an ActionContext by value",
              "AsyncActionChainState::action_context is declared as %s: it refers to the live context, which runOnceImpl resets at the end of every tick, so a "
              "chain resumed on a later tick runs with an empty (or another detector group's) ruleset / detector-group name, uuid and prekill deadline" % f.get("type"))
    bad = [x["name"] + ": " + x.get("type", "") for x in ac.get("fields", []) if REF.search(x.get("type", ""))]
    ctx.check(not bad, "action-context-owns-its-values", "E-TYPE (declared type)", "oomd/include/Types.h", "ActionContext's fields are values",
              "ActionContext holds non-owning members (%s): a saved copy still refers to the per-tick objects" % ", ".join(bad))


def search_walks(fn):
    """Searches spelled with the standard algorithm: `it = std::find_if(C.begin(), C.end(), pred)` (or rbegin/rend) is the walk
    'first element, front to back (back to front), for which pred holds'.  Same descriptor as loop_walk plus "pred" (the closure's usr)
    and "call" (the find_if node)."""
    out = []
    for d in fn.all("decl"):
        for v in fn.nodes[d].get("vars", []):
            if v.get("init") is None or v.get("init", -1) < 0:
                continue
            c = fn.nodes[fn.strip(v["init"])]
            if c["k"] != "call" or len(c.get("args", [])) != 3 or not re.search(r"\bfind_if\b", c.get("callee") or c.get("cname") or ""):
                continue
            b, e = fn.nodes[fn.strip(c["args"][0])], fn.nodes[fn.strip(c["args"][1])]
            if b["k"] != "call" or e["k"] != "call" or "recv" not in b or "recv" not in e or fn.text(b["recv"]) != fn.text(e["recv"]):
                continue
            pair = (b.get("cname"), e.get("cname"))
            if pair in (("begin", "end"), ("cbegin", "cend")):
                direction = "forward"
            elif pair in (("rbegin", "rend"), ("crbegin", "crend")):
                direction = "backward"
            else:
                continue
            ln = fn.nodes[fn.strip(c["args"][2])]
            nm = v["name"]
            out.append({"dir": direction, "container": fn.text(b["recv"]), "var": nm, "pred": ln.get("lusr"), "call": fn.strip(v["init"]),
                        "elem": r"^(\(?\*%s\)?\.?|%s->)" % (re.escape(nm), re.escape(nm)), "end": fn.text(fn.strip(c["args"][1]))})
    return out


def loop_walk_any(fn, loop):
    """loop_walk, plus the iterator loop whose variable is declared before the loop (`it = C.begin(); for (; it != C.end(); ++it)`),
    as hand-written searches that use the iterator afterwards are spelled, and its `while` spelling
    (`it = C.rbegin(); while (it != C.rend()) { ...; ++it; }` - the increment is the body's last statement and nothing `continue`s past it)."""
    w = loop_walk(fn, loop)
    if w is not None or loop.get("stmt") is None:
        return w
    sn = fn.nodes[loop["stmt"]]
    if sn["k"] == "while":
        body = fn.nodes[fn.strip(sn["body"])] if sn.get("body") is not None and sn.get("body", -1) >= 0 else None
        kids = body.get("kids", []) if body is not None and body["k"] == "compound" else []
        if not kids or any(fn.nodes[x]["k"] == "continue" for x in fn.walk(sn["body"])):
            return None
        last = fn.text(kids[-1])
        m = re.match(r"^(?:\+\+(\w+)|(\w+)\+\+)$", last)
        if not m:
            return None
        nm = m.group(1) or m.group(2)
        init, v = local_init(fn, nm, must=False)
        if v is None or init is None or init < 0:
            return None
        c = fn.nodes[fn.strip(init)]
        cnd = fn.text(sn["c"]) if sn.get("c") is not None and sn.get("c", -1) >= 0 else ""
        if c["k"] != "call" or "recv" not in c or c.get("cname") not in ("begin", "cbegin", "rbegin", "crbegin"):
            return None
        back = c["cname"] in ("rbegin", "crbegin")
        if not re.search(r"(\.|->)c?%send\(\)" % ("r" if back else ""), cnd) or (not back and re.search(r"(\.|->)c?rend\(\)", cnd)):
            return None
        if [w_ for w_ in local_writes(fn, nm, must=False) if fn.text(w_) not in ("++" + nm, nm + "++")] or len(local_writes(fn, nm, must=False)) != 1:
            return None
        return {"dir": "backward" if back else "forward", "container": fn.text(c["recv"]), "var": nm, "elem": r"^(\(?\*%s\)?|%s->)" % (re.escape(nm), re.escape(nm))}
    if sn["k"] != "for" or (sn.get("init") is not None and sn.get("init", -1) >= 0 and fn.nodes[sn["init"]]["k"] == "decl"):
        return None
    inc = fn.text(sn["inc"]) if sn.get("inc") is not None and sn.get("inc", -1) >= 0 else ""
    m = re.match(r"^(?:\+\+(\w+)|(\w+)\+\+)$", inc)
    if not m:
        return None
    nm = m.group(1) or m.group(2)
    init, v = local_init(fn, nm, must=False)
    if v is None or init is None or init < 0:
        return None
    c = fn.nodes[fn.strip(init)]
    cnd = fn.text(sn["c"]) if sn.get("c") is not None and sn.get("c", -1) >= 0 else ""
    if c["k"] == "call" and c.get("cname") in ("begin", "cbegin") and "recv" in c and re.search(r"(\.|->)c?end\(\)", cnd) and \
            not [w_ for w_ in local_writes(fn, nm, must=False) if fn.text(w_) not in ("++" + nm, nm + "++")]:
        return {"dir": "forward", "container": fn.text(c["recv"]), "var": nm, "elem": r"^(\(?\*%s\)?|%s->)" % (re.escape(nm), re.escape(nm))}
    return None


def resume_follows_clear(ctx, tag):
    """Once runOnceImpl has taken the suspended chain out of active_action_chain_state_ (it clears the field before resuming), every
    path to the end of the function resumes the chain - unless the saved plugin is no longer in the action group.  Nothing else
    (log silencing, whether a group fired on this tick) may decide whether the suspended chain continues.  Shared by C02 and C06."""
    P, cg = ctx.prog, ctx.cg
    impl = ctx.fn1("Oomd::Engine::Ruleset::runOnceImpl")
    clears = [w for w in field_writes(impl, "active_action_chain_state_") if "nullopt" in impl.text(write_rhs(impl, w)) or impl.text(write_rhs(impl, w)) in ("{}", "std::optional()")]
    for i in impl.calls("reset"):
        if "active_action_chain_state_" in impl.text(impl.nodes[i].get("recv", -1)):
            clears.append(i)
    rac = [i for i in impl.calls("Ruleset::run_action_chain") if "begin()" not in impl.text(impl.nodes[i]["args"][0])]
    if not clears or not rac:
        ctx.broken("resume-follows-clear", "anchor", impl.loc(), "runOnceImpl has no clearing of active_action_chain_state_ / no resuming run_action_chain call")
        return
    ev = {w: [("set", "cleared")] for w in clears}
    ev.update({i: [("set", "resumed")] for i in rac})
    NOTFOUND = re.compile(r"^\((\w+(@\d+)? == this->action_group_\.c?end\(\)|this->action_group_\.c?end\(\) == \w+(@\d+)?)\)$")
    bad = []
    for w in clears:
        if impl.pos_of(w) is None:
            continue
        # everything reachable from the block in which the state is cleared
        fl = Flow(P, impl, events=ev, cg=cg, start=impl.pos_of(w)[0],
                  edge_tokens=lambda k, p: ["not-found"] if (isinstance(k, str) and p is True and NOTFOUND.match(k)) else None)
        for kind, node, b, parts in fl.exits():
            if kind not in ("return", "fallthrough"):
                continue
            for st in parts.values():
                if "resumed" not in st.must and "not-found" not in st.must:
                    bad.append(impl.loc(node) if node is not None else kind)
    ctx.check(not bad, "resume-follows-clear", "must_follow", impl.loc(clears[0]),
              "after the suspended state was taken, every path resumes the chain (or the saved plugin is gone)",
              "runOnceImpl can clear the suspended state and leave (%s) without resuming the chain although the saved plugin is still in the action group: "
              "the suspended action and the rest of its chain never run (and a fresh chain may start from the first action)" % ", ".join(sorted(set(bad))[:3]))


def result_sites(fn):
    """[(return node, node whose guards decide the result, constant)] - the places where a function's result constant is chosen.
    `return CONST;` and each leaf of `return c ? A : B;` are sites of their own.  The single-exit spelling
        T ret = DEFAULT; ... ret = OTHER; ... return ret;
    contributes one site per assignment (guards of the assignment) and one for the default (at the return; it carries no condition of
    its own - rules that constrain only the non-default results apply unchanged)."""
    out = []
    for r, leaf in return_leaves(fn):
        c = ret_const_of(fn, leaf)
        if c is not None:
            out.append((r, leaf, c))
            continue
        n = fn.nodes[fn.strip(leaf)]
        if n["k"] == "ref" and n.get("dk") == "local":
            init, v = local_init(fn, n["name"], must=False)
            ws = local_writes(fn, n["name"], must=False)
            consts = [(w, ret_const_of(fn, write_rhs(fn, w))) for w in ws]
            c0 = ret_const_of(fn, init) if (v is not None and init is not None and init >= 0) else None
            if c0 is not None and all(c_ is not None for _, c_ in consts):
                out.append((r, leaf, c0))
                out += [(r, w, c_) for w, c_ in consts]
                continue
        out.append((r, leaf, None))
    return out



def size_components_kept_in_double(ctx, tag):
    """Shared by C08, C09 and C12 (thresholds given with suffixes act at exactly the configured value)."""
    pp = ctx.fn1("Oomd::Util::parseSizeOrPercent")
    # ... and a size given with suffixes is exact to the byte as far as a double can carry it (53 bits): each component parsed by
    # std::stod / std::stold is kept in a double or wider until it is converted - a float keeps 24 bits, "64G 4K" would read as 64G
    ps = ctx.fn1("Oomd::Util::parseSize")
    ctx.use(ps)
    n_fp = 0
    for f_ in (ps, pp):
        for i in f_.calls("stod", "stold", "stof", "strtod", "strtold", "strtof", "atof"):
            n_fp += 1
            nm_ = f_.nodes[i].get("cname") or ""
            par = f_.parent.get(i)
            hops = 0
            while par is not None and f_.nodes[par]["k"] in ("cast", "paren", "implicit") and hops < 4:
                par = f_.parent.get(par)
                hops += 1
            dest_tw = None
            if par is not None:
                pn = f_.nodes[par]
                if pn["k"] == "bin" and pn.get("op") == "=":
                    dest_tw = f_.nodes[f_.strip(pn["l"])].get("tw")
                elif pn["k"] == "decl":
                    dest_tw = next((v_.get("tw") for v_ in pn.get("vars", []) if v_.get("init") is not None and i in set(f_.walk(v_["init"]))), None)
            ok_ = nm_ not in ("stof", "strtof") and dest_tw in (None, "f64", "f80", "f128")
            ctx.check(ok_, "size-components-kept-in-double:%s@%d" % (short(f_), f_.nodes[i].get("line", 0)), "E-TYPE narrowing", f_.loc(i),
                      "a parsed size component is held in a double or wider",
                      "%s: the parsed component is narrowed to %s: it keeps 24 significant bits, so sizes that need more (64G 4K, 1234567891K) come out "
                      "off by kilobytes and a usage exactly at the configured threshold is judged on the wrong side" % (f_.text(par)[:60] if par is not None else nm_, dest_tw or "float"))
    ctx.counters[tag + "_size_fp_parses"] = n_fp


def percent_threshold_exact(ctx, tag):
    """'N%' of a total, as every plugin computes it through Util::parseSizeOrPercent, is exact: the value written to *output goes through
    at most one truncating division, as the last step (total * pct / 100, never total / 100 * pct).  A threshold that comes out a few
    bytes low turns 'exactly at the threshold' into 'above it'.  Shared by C08 (memory_above's percent threshold), C09 and C12."""
    from ..misc import exactness
    pp = ctx.fn1("Oomd::Util::parseSizeOrPercent")
    ctx.use(pp)
    outw = [i for i, n in enumerate(pp.nodes) if n["k"] == "bin" and n.get("op") == "=" and pp.pos_of(i) is not None and pp.text(n["l"]).replace(" ", "") in ("*output", "(*output)")]
    ctx.counters[tag + "_percent_output_writes"] = len(outw)
    ctx.floor(tag + "_percent_output_writes", 1, "assignments to *output in Util::parseSizeOrPercent")
    size_components_kept_in_double(ctx, tag)
    for i in outw:
        e = exactness(pp, pp.nodes[i]["r"])
        ctx.check(e in ("INT", "QUOT"), "percent-threshold-exact@%d" % pp.nodes[i].get("line", 0), "E-TYPE exactness domain (INT/QUOT/INEXACT)", pp.loc(i),
                  "the threshold in bytes is computed exactly (at most one truncating division, as the last step)",
                  "'%s' divides before it multiplies: 'N%%' of a total that is not a multiple of the divisor comes out too low and a value exactly at the "
                  "threshold counts as above it" % pp.text(pp.nodes[i]["r"])[:80])


def pg_scan_sampling_tick(ctx, tag):
    """kill_by_pg_scan needs two consecutive ticks of data: run() answers ASYNC_PAUSED exactly when it has no sample from the previous
    tick - including the very first run, so the marker of the last sampled tick must be able to say 'never' (an optional, not a tick
    number that happens to equal current-1 on tick 1) - and goes on to the kill cycle only with one.  Shared by C17 (what the next
    action in the chain may conclude from CONTINUE) and C06 (ASYNC_PAUSED protocol)."""
    P, cg = ctx.prog, ctx.cg
    cls = P.classes.get("Oomd::KillPgScan", {})
    fld = {x["name"]: x for x in cls.get("fields", [])}.get("last_tick_data_was_collected_")
    if fld is None:
        ctx.broken(tag + ":pg-scan-marker", "anchor", "-", "KillPgScan::last_tick_data_was_collected_ not found (renamed?)")
        return
    ctx.check("optional" in fld.get("type", ""), "kill_by_pg_scan:never-sampled-is-distinguishable", "E-TYPE (declared type)", "oomd/plugins/KillPgScan.h:%s" % fld.get("line", "?"),
              "the last-sampled-tick marker is an optional (nullopt = never sampled)",
              "the last-sampled-tick marker is declared as %s: 'never sampled' looks like 'sampled on tick 0', so a plugin whose first run is on tick 1 skips its "
              "sampling tick, runs the kill cycle without pgscan rates and returns CONTINUE - the next action runs although this one then kills" % fld.get("type"))
    runs = [f for f in P.fns.values() if f.pq == "Oomd::KillPgScan::run"]
    ctx.counters[tag + "_pg_scan_run_instances"] = len(runs)
    ctx.floor(tag + "_pg_scan_run_instances", 1, "KillPgScan::run instantiations")
    for f in runs:
        ctx.use(f)
        fl = Flow(P, f, cg=cg)
        X = Expander(P, f)
        PREV = re.compile(r"^\((this->last_tick_data_was_collected_ == \(param:\w+\.getCurrentTick\(\) - 1\)|\(param:\w+\.getCurrentTick\(\) - 1\) == this->last_tick_data_was_collected_)\)$")
        for r, leaf, c in result_sites(f):
            g = expanded_guards(P, f, fl, leaf, X)
            prev_t = any(isinstance(k, str) and PREV.match(k) and p is True for k, p in g)
            prev_f = any(isinstance(k, str) and PREV.match(k) and p is False for k, p in g)
            if c == "ASYNC_PAUSED":
                ctx.check(prev_f, "kill_by_pg_scan:pauses-iff-no-previous-sample", "return_table", f.loc(r), "ASYNC_PAUSED exactly without a sample from the previous tick",
                          "ASYNC_PAUSED is returned under %s" % sorted((k, p) for k, p in g if isinstance(k, str) and "Tick" in k))
            else:
                ctx.check(prev_t, "kill_by_pg_scan:kills-only-with-previous-sample", "return_table", f.loc(r), "the kill cycle runs only with a sample from the previous tick",
                          "the kill cycle can run without a sample from the previous tick")


# presence tests on optional numbers are the normal way to handle an unavailable statistic; for a boolean the same spelling reads as the value
_ARITH_OPT = re.compile(r"^(const )?std::optional<bool>$")


def presence_tests_without_value_read(prog, fn):
    """[(node, expression text, type)]: a std::optional<bool> that `fn` tests for *presence* (contextual conversion to
    bool / has_value()) while nothing in fn or its closures ever reads its value (`*x`, x.value(), x.value_or(..)), compares it or passes it
    on.  For a boolean option that means 'given' is taken for 'true': an explicit `false` switches the behaviour on."""
    scope = [fn] + [g for g in prog.fns.values() if g.d.get("parentfn") == fn.usr]
    tests, reads = [], set()
    for g in scope:
        for i, n in enumerate(g.nodes):
            if n["k"] != "call" or "recv" not in n:
                continue
            cal = n.get("callee") or ""
            if not cal.startswith("std::optional<"):
                continue
            rt = g.nodes[g.strip(n["recv"])].get("type") or ""
            et = g.text(n["recv"])
            if cal.endswith("::operator bool") or cal.endswith("::has_value"):
                if _ARITH_OPT.match(rt.strip()):
                    tests.append((g, i, et, rt))
            elif cal.endswith("::value") or cal.endswith("::value_or") or cal.endswith("::operator*") or cal.endswith("::operator->"):
                reads.add(et)
        for i, n in enumerate(g.nodes):
            # any other use of the optional as a whole (passed on, assigned from, compared, returned) may read the value elsewhere
            if n["k"] in ("ref", "member") and _ARITH_OPT.match((n.get("type") or "").strip()):
                par = g.parent.get(i)
                hops = 0
                while par is not None and g.nodes[par]["k"] in ("paren", "implicit", "cast", "other") and hops < 6 and g.nodes[par].get("cls") not in ("InlinedCall",):
                    par = g.parent.get(par)
                    hops += 1
                pn = g.nodes[par] if par is not None else None
                if pn is None:
                    continue
                if pn["k"] == "call" and (pn.get("callee") or "").startswith("std::optional<") and g.strip(pn.get("recv", -1)) == i:
                    continue
                if pn["k"] == "bin" and pn.get("op") == "=" and g.strip(pn.get("l", -1)) == i:
                    continue            # being assigned to
                reads.add(g.text(i))
    return [(g, i, et, rt) for g, i, et, rt in tests if et not in reads]


def prerun_walk_visits_every_cgroup(ctx):
    """C09: BaseKillPlugin::prerunOnCgroups hands EVERY cgroup it takes off its work list to the sampling functor -
    one call per iteration on every path.  The rate-based kill plugins (and CgroupContext's one-tick archive) rely on 'every cgroup in
    scope is sampled on every tick': a cgroup that is skipped on tick N has no previous sample on tick N+1 and ranks as if its counter
    had not moved (or is filtered out), whatever it did in between."""
    P = ctx.prog
    fs = [f for f in P.fns.values() if f.pq == "Oomd::BaseKillPlugin::prerunOnCgroups"]
    ctx.counters["prerun_walk_instances"] = len(fs)
    ctx.floor("prerun_walk_instances", 2, "instantiations of BaseKillPlugin::prerunOnCgroups")
    for f in sorted(fs, key=lambda x: x.usr):
        ctx.use(f)
        fparam = [p_["decl"] for p_ in f.params if "&&" in (p_.get("type") or "") or "Functor" in (p_.get("type") or "") or "lambda" in (p_.get("type") or "")]
        calls = []
        for i in f.calls():
            n = f.nodes[i]
            fe = n.get("fnexpr")
            rc = n.get("recv")
            for x in (fe, rc):
                if x is not None and x >= 0:
                    xn = f.nodes[f.strip(x)]
                    if xn.get("k") == "ref" and xn.get("dk") == "param" and (xn.get("decl") in fparam or xn.get("name") == "fn"):
                        calls.append(i)
        tag = (re.search(r"<#\$@N@Oomd@S@(\w+)>", f.usr) or re.search(r"(\w+)", f.usr)).group(1)
        ls = [l for l in loops(f) if any(f.pos_of(c) is not None and f.pos_of(c)[0] in l["body"] for c in calls)]
        if len(ls) != 1 or not calls:
            ctx.broken("prerun-walk-samples-every-cgroup:" + tag, "anchor", f.loc(), "expected one loop in prerunOnCgroups that calls the sampling functor")
            continue
        L = ls[0]
        fl = iter_flow(ctx, f, L, {c: [("set", "sampled")] for c in calls})
        ok = True
        for b in back_sources(L):
            for st_ in (fl.OUT.get(b) or {}).values():
                if "sampled" not in st_.must:
                    ok = False
        ctx.check(ok, "prerun-walk-samples-every-cgroup:" + tag, "per-iteration exactly-once", f.loc(L["stmt"]) if L.get("stmt") is not None else f.loc(),
                  "every cgroup taken off the work list is handed to the sampling functor",
                  "an iteration of prerunOnCgroups can end without calling the sampling functor: a cgroup skipped on one tick (e.g. while it is "
                  "empty) has no previous sample on the next and ranks as if its counter had not moved")


_FD_CONSUMERS = ("close", "fdopendir", "fdopen", "closedir")


def borrowed_fd_not_consumed(ctx):
    """Ownership rule shared by C01, C10 and C15: a descriptor read out of a Fd/DirFd that the function only BORROWS (a reference parameter)
    is never handed to something that consumes it - close(), fdopendir() (closedir() closes it), fdopen().  The cached CgroupContext keeps
    that descriptor number; once it is closed the next open() reuses the number and the context silently aliases another cgroup: its
    cgroup.procs is read, its cgroup.kill / memory.* are written."""
    P = ctx.prog
    n_sites = 0
    BORROWED = re.compile(r"^\(?param:\w+(\.|->)fd\(\)\)?$")
    for f in sorted(P.fns.values(), key=lambda x: x.usr):
        if not f.file.startswith("oomd/") or f.file.endswith("Test.cpp") or "fixtures" in f.file or f.file.endswith("Fixture.cpp"):
            continue
        owner = f if f.kind != "lambda" else P.fns.get(f.d.get("parentfn"), f)
        if not any(re.search(r"\b(Dir)?Fd\b", p_.get("type") or "") for p_ in owner.params):
            continue
        sinks = [i for i in f.calls(*_FD_CONSUMERS) if plain_name(f.nodes[i]) in _FD_CONSUMERS and f.nodes[i].get("args")]
        if not sinks:
            continue
        ctx.use(f)
        X = Expander(P, f)
        for i in sinks:
            n_sites += 1
            a = f.nodes[i]["args"][0]
            srcs = [X(a)]
            an = f.nodes[f.strip(a)]
            if an["k"] == "ref" and an.get("dk") == "local":
                srcs = []
                init, v = local_init(f, an["name"], must=False)
                if v is not None and init is not None and init >= 0:
                    srcs.append(X(init))
                for w in local_writes(f, an["name"], must=False):
                    wn = f.nodes[w]
                    rhs = wn.get("r", (wn.get("args") or [None])[0])
                    if rhs is not None:
                        srcs.append(X(rhs))
            # (an rvalue-reference parameter hands the descriptor over: `Fd&& fd` ... std::move(fd).fd() releases it)
            owned_params = {p_["name"] for g_ in (f, owner) for p_ in g_.params if "&&" in (p_.get("type") or "")}
            bad = [s_ for s_ in srcs if BORROWED.match(s_.replace("var:", "")) and re.match(r"^\(?param:(\w+)", s_.replace("var:", "")).group(1) not in owned_params]
            ctx.check(not bad, "borrowed-fd-not-consumed:%s:%s" % (short(owner), plain_name(f.nodes[i])), "ownership (reaching definitions)", f.loc(i),
                      "the descriptor handed to %s() is the function's own (dup/open), never the caller's" % plain_name(f.nodes[i]),
                      "%s() can receive %s - the descriptor of a Fd the function only borrows: it is closed behind its owner's back, the cached "
                      "cgroup context keeps the stale number and aliases whatever is opened next (another cgroup's cgroup.procs / cgroup.kill)" % (plain_name(f.nodes[i]), bad[0] if bad else ""))
    ctx.counters["fd_consumer_sites"] = n_sites
    ctx.floor("fd_consumer_sites", 1, "close()/fdopendir() sites in functions that take a Fd by reference (Fs::readDirAt)")


def plain_name(n):
    from ..program import plain
    return plain(n.get("callee", "") or "").split("::")[-1]


def uuid_generator_keeps_state(ctx):
    """Shared by C06 and C17: run / kill uuids are fresh per chain and per attempt.  Util::generateUuid draws from a random engine whose
    state PERSISTS across calls (a static or thread_local engine seeded once), or - if the engine is built per call - it is seeded from
    std::random_device on that call.  An engine rebuilt per call from a fixed seed mixed with a coarse clock returns the same id for
    every call within one clock step (two chains fired on the same tick share a uuid)."""
    P = ctx.prog
    f = ctx.fn1("Oomd::Util::generateUuid")
    ENGINE = re.compile(r"std::(mt19937(_64)?|mersenne_twister_engine|minstd_rand0?|linear_congruential_engine|default_random_engine|ranlux\w+|knuth_b)\b")
    engines = []
    for d in f.all("decl"):
        for v in f.nodes[d].get("vars", []):
            if ENGINE.search(v.get("type") or ""):
                engines.append((d, v))
    if not engines:
        ctx.broken("uuid-generator-keeps-state", "anchor", f.loc(), "no random engine local found in Util::generateUuid")
        return
    X = Expander(P, f)
    for d, v in engines:
        persistent = bool(v.get("static")) or bool(v.get("tls"))
        seeded_per_call = False
        if not persistent and v.get("init") is not None and v.get("init", -1) >= 0:
            t = X(v["init"])
            # std::random_device{}() / rd() in the seed expression of THIS call (not via a static initialised once)
            seeded_per_call = re.search(r"random_device\b[^;]*\)\(\)|random_device\(\)\.operator\(\)|\brd\(\)", t) is not None and "static" not in t
            for x in f.walk(v["init"]):
                xn = f.nodes[x]
                if xn["k"] == "ref" and xn.get("dk") == "static_local":
                    seeded_per_call = False
        ctx.check(persistent or seeded_per_call, "uuid-generator-keeps-state", "storage_class", f.loc(d),
                  "the random engine behind the uuids keeps its state across calls (or is re-seeded from the entropy source on every call)",
                  "Util::generateUuid builds its engine '%s' on every call from %s: every call within one step of that seed returns the same id - two "
                  "chains fired on the same tick (or a chain re-fired at once) share a run uuid, and kill attempts share their kill uuid"
                  % (v["name"], (X(v["init"])[:80] if v.get("init") is not None and v.get("init", -1) >= 0 else "a default seed")))


def failure_tests_see_the_sign(ctx, tag, roots, floor=2):
    """A failed system call is recognised by its negative result.  In every function the given roots reach, a test `x < 0` (or `0 > x`)
    is made on a signed value: on an unsigned one (the result was stored in a size_t, or cast on the way) the test is never true, the
    error return behind it is dead and a failed write is reported as a success.  A contradiction rule - the code states the belief
    "this can be negative" and the type says it cannot."""
    P, cg = ctx.prog, ctx.cg
    n = 0
    for u in sorted(cg.reach([f.usr for q in roots for f in P.fn(q)])):
        f = P.fns[u]
        if not f.file.startswith("oomd/"):
            continue
        for i, nd in enumerate(f.nodes):
            if nd["k"] != "bin" or nd.get("op") not in ("<", ">"):
                continue
            val, zero = (nd["l"], nd["r"]) if nd["op"] == "<" else (nd["r"], nd["l"])
            if const_int(f, zero) != 0 or const_int(f, val) is not None:
                continue
            # the operand as compared: the usual arithmetic conversions have already been applied to it
            tw = f.nodes[val].get("tw") or ""
            src = f.nodes[f.strip(val)]
            if not (tw.startswith("i") or tw.startswith("u")):
                continue
            n += 1
            ctx.use(f)
            ctx.check(not tw.startswith("u"), "failure-test-sees-the-sign:%s@%d" % (short(f), nd.get("line", 0)), "E-TYPE contradiction", f.loc(i),
                      "the value tested for being negative is signed",
                      "%s tests `%s < 0`, but the value is unsigned (%s) when it is compared: the test is never true, so the failure it is "
                      "meant to recognise - a system call returning -1 - is taken for a success and the error path behind it is dead" % (
                          f.pq, f.text(val), f.nodes[val].get("type") or src.get("type")))
        # ... and the result of a read / write call (ssize_t: the count, or -1) is not kept in an unsigned variable: -1 becomes the largest
        # value there is, so `written < size` is false for a failed write just as `written < 0` is
        for d in f.all("decl"):
            for v in f.nodes[d].get("vars", []):
                ini = v.get("init")
                if ini is None or ini < 0 or not (v.get("tw") or "").startswith("u"):
                    continue
                src = f.nodes[f.strip(ini)]
                if src["k"] == "call" and (src.get("tw") or "").startswith("i") and re.search(r"(^|::)(writeFull|readFull|sendFull|write|read|send|recv|pwrite|pread)$", src.get("callee") or ""):
                    n += 1
                    ctx.use(f)
                    ctx.check(False, "failure-test-sees-the-sign:%s:%s" % (short(f), v["name"]), "E-TYPE contradiction", f.loc(d), "an I/O result is kept signed",
                              "%s keeps the result of %s in the unsigned '%s' (%s): the -1 of a failed call becomes the largest value, every later test "
                              "(`< 0`, `< size`) takes the failure for a complete transfer and the error path is dead" % (f.pq, src.get("callee"), v["name"], v.get("type")))
    ctx.counters["sign_tests"] = n
    ctx.floor("sign_tests", floor, "tests of a result for being negative on the kill path")


def ruleset_state_is_per_instance(ctx):
    """'Rulesets do not influence one another', 'its own post-action pause and suspended chain': the suspended chain, the pause deadline,
    the plugin-override flag and the enablement of a ruleset are non-static data members of Ruleset - one per ruleset object (and per
    cgroup instance).  A `static` member is one flag for all rulesets: a raise one ruleset never consumed is consumed by the next one."""
    P = ctx.prog
    rc = P.classes.get("Oomd::Engine::Ruleset")
    if not rc:
        ctx.broken("ruleset-class", "anchor", "-", "class Oomd::Engine::Ruleset not found")
        return
    for fld in ("active_action_chain_state_", "pause_actions_until_", "plugin_overrode_post_action_delay_"):
        rec = [x for x in rc["fields"] if x["name"] == fld]
        ctx.check(rec and not rec[0].get("static"), "per-instance-state:" + fld, "storage_class",
                  "oomd/engine/Ruleset.h:%d" % (rec[0]["line"] if rec else 0),
                  fld + " is a non-static member", fld + " is missing or static (shared between rulesets)")


def json_nonscalar_arg_rejected(ctx, tag):
    """The arguments a plugin runs with are the ones its configuration names - all of them (for a kill action: `dry` among them).
    parsePlugin refuses the plugin when an argument value is not a JSON scalar; returning the partially filled plugin instead drops
    that argument and every later one (jsoncpp iterates in key order) and the plugin is accepted with defaults in their place."""
    P, cg = ctx.prog, ctx.cg
    n = 0
    for f in P.fns.values():
        if f.pq != "parsePlugin" and not f.pq.endswith("::parsePlugin"):
            continue
        ctx.use(f)
        n += 1
        fl_ = Flow(P, f, cg=cg)
        for r in returns(f):
            g = fl_.guards(r)
            nonscalar = any(p is False and isinstance(k, str) and k.endswith("isBool()") for k, p in g) and any(p is False and isinstance(k, str) and k.endswith("isString()") for k, p in g)
            if not nonscalar:
                continue
            mentions_local = any(f.nodes[x]["k"] == "ref" and f.nodes[x].get("dk") == "local" for x in f.walk(f.nodes[r]["val"])) if "val" in f.nodes[r] else False
            ctx.check(not mentions_local, "%s:json:nonscalar-arg-rejected:%s" % (tag, f.d.get("ret", "")[-20:]), "return_table", f.loc(r),
                      "a non-scalar argument value yields the invalid plugin",
                      "a non-scalar argument value (null, array, object) returns the partially filled plugin: that argument and all later ones - `dry` "
                      "sorts after `cgroup` and `debug` - are dropped silently and the plugin runs with their defaults")
    ctx.counters[tag + "_parsePlugin_instances"] = n
    ctx.floor(tag + "_parsePlugin_instances", 2, "instantiations of parsePlugin (detector, action)")


def detector_group_runs_every_detector(ctx, tag):
    """'Its detectors keep running each tick': DetectorGroup::check runs every detector of the group exactly once per call and never
    leaves the loop early - not on a STOP (the verdict is known, the remaining sliding windows still need their sample), and not
    because the verdict will not be used."""
    P = ctx.prog
    chk = ctx.fn1("Oomd::Engine::DetectorGroup::check")
    ctx.use(chk)
    ls = loop_over(chk, "detectors_")
    if len(ls) != 1:
        ctx.broken(tag + ":check-loop", "anchor", chk.loc(), "expected one loop over detectors_ in check, found %d" % len(ls))
        return
    L = ls[0]
    runs = [i for i in virtual_run_calls(chk, prog=P) if chk.pos_of(i)[0] in L["body"]]
    ctx.counters[tag + "_virtual_run_sites"] = len(runs)
    ctx.floor(tag + "_virtual_run_sites", 1, "the detector's run() in DetectorGroup::check")
    per_iter_once(ctx, chk, L, runs, tag + ":check:every-detector-runs", "the detector's run()")
    no_early_exit(ctx, chk, L, tag + ":check:no-early-exit", "detectors_")


def no_use_after_move(ctx, fns, tag):
    """A variable (parameter or local) that was handed to std::move is not read afterwards: a moved-from std::string / vector is
    unspecified - in practice empty - so a test like `cgroup_fs.size() > 1` made after `cgroup_fs_(std::move(cgroup_fs))` is never
    true.  Member initialisers count: they run before the body.  Assigning a new value to the variable revives it."""
    P, cg = ctx.prog, ctx.cg
    n = 0
    for f in fns:
        mv = [i for i in f.calls("std::move") if f.nodes[i].get("args") and f.nodes[f.strip(f.nodes[i]["args"][0])]["k"] == "ref"
              and f.nodes[f.strip(f.nodes[i]["args"][0])].get("dk") in ("param", "local") and f.pos_of(i) is not None]
        for m in mv:
            n += 1
            ctx.use(f)
            var = f.nodes[f.strip(f.nodes[m]["args"][0])]
            ev = {m: [("set", "mv")]}
            # a local declared inside a loop is a new object in every iteration
            for d_ in f.all("decl"):
                if any(v_.get("decl") == var.get("decl") for v_ in f.nodes[d_].get("vars", [])) and f.pos_of(d_) is not None:
                    ev.setdefault(d_, []).append(("clear", "mv"))
            fl_ = Flow(P, f, events=ev, cg=cg)
            bad = []
            for x, nn in enumerate(f.nodes):
                if nn["k"] == "ref" and nn.get("decl") == var.get("decl") and x != f.strip(f.nodes[m]["args"][0]) and f.pos_of(x) is not None:
                    par = f.parent.get(x)
                    is_assign = par is not None and ((f.nodes[par]["k"] == "bin" and f.nodes[par].get("op") == "=" and f.strip(f.nodes[par]["l"]) == x) or
                                                     (f.nodes[par]["k"] == "call" and f.nodes[par].get("op") == "=" and f.strip(f.nodes[par].get("recv", -1)) == x))
                    if fl_.may(x, "mv") and not is_assign:
                        bad.append(x)
            ctx.check(not bad, "%s:no-use-after-move:%s:%s" % (tag, short(f), var["name"]), "use_after_move", f.loc(bad[0]) if bad else f.loc(m),
                      "'%s' is not read after std::move" % var["name"],
                      "%s reads '%s' (%s) after it was handed to std::move at %s: the moved-from value is empty, so the test or copy made from it no longer "
                      "sees the caller's text" % (f.pq, var["name"], f.text(f.parent.get(bad[0], bad[0]))[:60] if bad else "", f.loc(m)))
    ctx.counters[tag + "_moves_examined"] = n
    return n


def cgroup_argument_pieces_taken_verbatim(ctx, tag):
    """A `cgroup` argument names cgroups by the text between its commas, exactly: PluginArgParser::parseCgroup turns every piece of
    Util::split(text, ',') into one CgroupPath, unchanged - nothing trims, rewrites or skips a piece.  The ruleset hands each instance's
    cgroup to its actions as such a text (registerRunnableRulesetForCgroupPath), so a cgroup name the parser 'normalises' (leading or
    trailing blank) makes the instance's actions target a different cgroup than the one the instance stands for."""
    P = ctx.prog
    f = ctx.use(ctx.fn1("Oomd::PluginArgParser::parseCgroup"))
    ls = [l for l in loops(f) if l["stmt"] is not None and f.nodes[l["stmt"]]["k"] in ("rangefor", "for", "while")]
    if len(ls) != 1:
        ctx.broken(tag + ":cgroup-argument-pieces-verbatim", "anchor", f.loc(), "expected one loop over the pieces in parseCgroup, found %d" % len(ls))
        return
    L = ls[0]
    body = set()
    for bn in body_nodes(f, L):
        body |= set(f.walk(bn))
    adds = [i for i in f.calls("emplace", "insert", "emplace_back", "push_back", "emplace_hint") if i in body]
    ctx.counters[tag + "_cgroup_piece_adds"] = len(adds)
    ctx.floor(tag + "_cgroup_piece_adds", 1, "insertion of a CgroupPath per piece in parseCgroup")
    per_iter_once(ctx, f, L, adds, tag + ":cgroup-argument-pieces-verbatim:every-piece-becomes-a-path", "the insertion of the piece's CgroupPath")
    st = f.nodes[L["stmt"]]
    lv = None
    if st["k"] == "rangefor":
        lv = next((v_ for d_ in f.walk(L["stmt"]) if f.nodes[d_]["k"] == "decl" for v_ in f.nodes[d_].get("vars", []) if v_.get("name") and "range" not in v_["name"] and "begin" not in v_["name"] and "end" not in v_["name"]), None)
    if lv is None:
        ctx.ok(tag + ":cgroup-argument-pieces-verbatim:piece-unchanged", "who-may-write (loop variable)", f.loc(L["stmt"]), "not a range-for: the per-iteration rule stands alone")
        return
    touched = []
    for i in body:
        nd = f.nodes[i]
        if nd["k"] != "call" or i in adds:
            continue
        ops = [a for a in nd.get("args", [])] + ([nd["recv"]] if "recv" in nd else [])
        for a in ops:
            t = f.nodes[f.strip(a)]
            if t["k"] == "ref" and t.get("decl") == lv.get("decl") and not nd.get("cconst") and not re.match(r"^(size|length|empty|c_str|data|begin|end|front|back|at|operator\[\]|find|compare|substr|starts_with|ends_with)$", nd.get("cname") or ""):
                if (nd.get("callee") or "").endswith("CgroupPath::CgroupPath"):
                    continue
                touched.append(i)
    ctx.check(not touched and "const" in (lv.get("type") or "") or not touched, tag + ":cgroup-argument-pieces-verbatim:piece-unchanged", "who-may-write (loop variable)",
              f.loc(touched[0]) if touched else f.loc(L["stmt"]), "a piece of the argument reaches CgroupPath as split produced it",
              "parseCgroup passes the piece through %s before it becomes a CgroupPath: a cgroup whose name the call changes (leading / trailing blanks trimmed) is "
              "replaced by a different cgroup - the actions of a per-cgroup ruleset instance, which receive their instance's cgroup as this text, then act "
              "on a sibling" % (f.text(touched[0])[:60] if touched else "?"))
