"""Helpers shared by the per-property rule modules."""
import re

from ..cfg import Flow, loops, loop_of_stmt, dominators
from ..program import plain
from ..facts import AnalysisBroken


def field_writes(fn, field):
    """Node ids of assignments / compound assignments / inc-dec / operator= calls
    whose target is field (short name or qualified)."""
    out = []
    for i, n in enumerate(fn.nodes):
        tgt = None
        if n["k"] == "bin" and n["op"] in ("=", "+=", "-=", "*=", "/=", "|=", "&=", "^="):
            tgt = n["l"]
        elif n["k"] == "un" and n["op"] in ("++", "--"):
            tgt = n["sub"]
        elif n["k"] == "call" and n.get("op") in ("=", "+=", "-=", "++", "--") and "recv" in n:
            tgt = n["recv"]
        if tgt is None:
            continue
        t = fn.nodes[fn.strip(tgt)]
        if t["k"] == "member" and (t["name"] == field or t.get("qname") == field):
            out.append(i)
    return out


def write_rhs(fn, i):
    n = fn.nodes[i]
    if n["k"] == "bin":
        return n["r"]
    if n["k"] == "call":
        a = n.get("args", [])
        return a[0] if a else -1
    return -1


def field_reads(fn, field):
    out = []
    for i, n in enumerate(fn.nodes):
        if n["k"] == "member" and (n["name"] == field or n.get("qname") == field):
            out.append(i)
    return out


def returns(fn):
    return list(fn.all("return"))


def ret_text(fn, i):
    n = fn.nodes[i]
    return fn.text(n["val"]) if "val" in n else ""


def ret_const(fn, i):
    """Short name of the enum constant / literal returned, else None."""
    n = fn.nodes[i]
    if "val" not in n:
        return None
    v = fn.nodes[fn.strip(n["val"])]
    if v["k"] == "ref" and v["dk"] == "enumconst":
        return v["name"]
    if v["k"] == "lit":
        return str(v["v"])
    return None


def key_has(*subs):
    """Predicate factory on (key, pol, node): key contains all substrings."""
    def p(k, pol=None, node=None):
        return all(s in k for s in subs)
    return p


def has_fact(guards, pol, *subs):
    """True if some fact in `guards` has polarity pol and a key containing all subs."""
    for k, p in guards:
        if p == pol and all(s in k for s in subs):
            return True
    return False


def find_facts(guards, *subs):
    return [(k, p) for k, p in guards if all(s in k for s in subs)]


def virtual_run_calls(fn, method="run"):
    """Call nodes that are virtual calls to BasePlugin::<method>."""
    out = []
    for i in fn.calls():
        n = fn.nodes[i]
        if n.get("virt") and n.get("cname") == method and "BasePlugin" in n.get("callee", ""):
            out.append(i)
    return out


def loop_over(fn, container_sub):
    """Loops (from cfg.loops) whose statement iterates something whose text
    contains container_sub (range-for range, or for-init/cond text)."""
    res = []
    for l in loops(fn):
        s = l["stmt"]
        if s is None:
            continue
        n = fn.nodes[s]
        txt = ""
        if n["k"] == "rangefor":
            txt = fn.text(n["range"])
        elif n["k"] == "for":
            txt = " ".join(fn.text(n[k]) for k in ("init", "c") if k in n)
        elif n["k"] in ("while", "do"):
            txt = fn.text(n["c"])
        if container_sub in txt:
            res.append(l)
    return res


def body_nodes(fn, loop):
    """Node ids that are CFG elements inside the loop's blocks."""
    out = []
    for b in loop["body"]:
        for e in fn.blocks[b]["elems"]:
            if "dtor" not in e and e.get("n", -1) >= 0:
                out.append(e["n"])
    return out


def loop_exits(fn, loop):
    """Edges (src, dst) leaving the loop body from a block other than the head."""
    out = []
    for b in loop["body"]:
        for s in fn.blocks[b]["succ"]:
            if isinstance(s, int) and s not in loop["body"]:
                out.append((b, s))
    return out


def early_exits(fn, loop):
    """Loop exits other than the head's own condition-false edge."""
    return [(b, s) for b, s in loop_exits(fn, loop) if b != loop["head"]]


def iter_flow(ctx, fn, loop, events, **kw):
    """Flow over one iteration of a loop: starts at the head, back edges cut."""
    return Flow(ctx.prog, fn, events=events, start=loop["head"],
                cut=set(loop["back_edges"]), cg=ctx.cg, **kw)


def witness_path(fn, flow, node):
    """Readable guards at node (for diagnostics)."""
    g = sorted(flow.guards(node), key=lambda x: x[0])
    return ["guards at %s: %s" % (fn.loc(node), ", ".join("%s=%s" % (k, p) for k, p in g) or "(none)")]


def who_calls(prog, *names):
    """[(fn, node)] of all direct call sites of library-external or internal callees by plain qname."""
    out = []
    for f in prog.fns.values():
        for i in f.calls(*names):
            out.append((f, i))
    return out


def short(fn):
    return fn.pq.replace("Oomd::", "")
