"""C14 Drop-in directory watcher (DESIGN 4/C14)."""
import re
from .common import *
from ..escape import Escape
from ..lockset import LockAnalysis
from ..callgraph import node_writes

EXPLANATION = (
    "Decides for all file-operation sequences and all interleavings of the watcher thread with the "
    "main loop: data-race freedom by lock discipline - the hand-off queue is only touched under "
    "queue_mutex_, the inotify descriptors only under event_loop_mutex_ (held by every non-constructor/"
    "destructor call path), the directory-deleted flag is atomic, the remaining shared fields are never "
    "written after construction, every further field of the two classes reached from both threads with "
    "a write outside construction has one common lock (generic audit, also covers fields added "
    "later), the engine reference is used only on the tick thread; no mutable "
    "global or static is touched by both threads outside an audited table; the lock-order graph is "
    "acyclic (no deadlock by lock inversion); no exception can escape the watcher thread's entry "
    "function; the watcher's abort points are the enumerated ones; dot-files never reach the queue; "
    "start-up loading registers the watch first, then adds the existing files in sorted order, all "
    "under the lock.  Convergence 'within a few ticks', inotify/epoll semantics and liveness are not "
    "decided.")
RULE_SUMMARY = "E-LOCK guarded-by tables, shared-state audit over thread reachability, lock-order graph, E-ESCAPE from the watcher root, frozen abort table, guard dominance"
NOT_DECIDED = ["convergence to the files present within a few ticks", "inotify / epoll behaviour", "liveness"]
ASSUMPTIONS = ["initialisation of function-local statics is thread safe (C++11)", "std::mutex / std::atomic semantics"]

QM = "Oomd::DropInServiceAdaptor::queue_mutex_"
EM = "Oomd::FsDropInService::event_loop_mutex_"
WRITE_ONCE = {  # field -> where it may be written
    "Oomd::DropInServiceAdaptor::cgroup_fs_": "constructor",
    "Oomd::DropInServiceAdaptor::root_": "constructor (reference)",
    "Oomd::FsDropInService::drop_in_dir_": "constructor (trailing '/' removed before the thread starts)",
    "Oomd::FsDropInService::epollfd_": "constructor",
    "Oomd::FsDropInService::terminatefd_": "constructor",
    "Oomd::FsDropInService::event_loop_": "constructor (thread handle)",
}
# mutable globals / function statics that both threads may reach, with the reason they are safe
SHARED_OK = {
    "r": "plugin registries: filled by REGISTER_PLUGIN during static initialisation, read-only afterwards",
    "singleton": "Log / Stats singletons: thread-safe static initialisation, all state behind their own locks (C19, C20)",
    "init": "Stats::isInitInternal flag: written by Stats::init before any thread is started",
    "enabled": "thread_local silencing flag",
}
WATCHER_ABORTS = {
    "Oomd::FsDropInService::run": "OCHECK(ret != 1): unrecoverable event-loop error",
    "Oomd::Fs::readFileByLine": "OCHECK(line != nullptr) after a successful getline",
    "__OCHECK_FAIL": "the OCHECK failure handler itself",
    "Oomd::Fs::pressureTypeToString": "__builtin_unreachable() after an exhaustive switch",
    "Oomd::Fs::readRespressureFromLines": "__builtin_unreachable() after an exhaustive switch",
}


def owner_of(P, f):
    while f.kind == "lambda" and f.d.get("parentfn") in P.fns:
        f = P.fns[f.d["parentfn"]]
    return f


def event_name_is_a_c_string(ctx):
    """The tag of a drop-in is its file name, and both sources have to spell it the same way: the directory scan (Fs::readDir names) and
    the inotify events.  inotify_event::name is NUL-terminated and then PADDED with further NULs up to `len`; a std::string built with
    `len` as its length carries the padding, no longer equals the scan's name for the same file, and Engine::removeDropInConfig (which
    matches tags) can never remove or replace what the scan loaded."""
    P = ctx.prog
    n = 0
    for f in sorted(P.fns.values(), key=lambda x: x.usr):
        if f.file != "oomd/dropin/FsDropInService.cpp":
            continue
        for i, nd in enumerate(f.nodes):
            if nd["k"] not in ("construct", "call"):
                continue
            a = [x for x in nd.get("args", []) if "allocator" not in f.text(x)]
            if not a or not re.search(r"(->|\.)name$", f.text(a[0])) or "event" not in f.text(a[0]).lower() and "inotify" not in (f.nodes[f.strip(a[0])].get("type") or ""):
                continue
            n += 1
            ctx.use(f)
            lens = [f.text(x) for x in a[1:] if re.search(r"(->|\.)len\b", f.text(x))]
            ctx.check(not lens, "event-name-is-a-c-string:%s@%d" % (short(f), nd.get("line", 0)), "value-shape", f.loc(i),
                      "the event's file name is taken as the NUL-terminated string it is",
                      "%s builds the name from %s with length %s: inotify pads name[] with NULs up to len, so the tag differs from the one the directory "
                      "scan gives the same file and a start-up drop-in can never be removed or replaced by a later event" % (short(f), f.text(a[0]), lens[0] if lens else ""))
    # the plain hand-over `processDropInAdd(event->name)` (implicit conversion from const char*) is the reference form
    pw = ctx.fn1("Oomd::FsDropInService::processDropInWatcher")
    direct = [i for i in pw.calls("processDropInAdd", "processDropInRemove") if pw.nodes[i].get("args") and re.search(r"(->|\.)name\b", pw.text(pw.nodes[i]["args"][0]))]
    ctx.counters["event_name_uses"] = n + len(direct)
    ctx.floor("event_name_uses", 1, "uses of inotify_event::name as a drop-in tag")


def watcher_descriptor_not_leaked_on_failure(ctx):
    """'oomd keeps running ... deleting and re-creating the directory': while the drop-in directory is gone the main loop retries
    prepDropInWatcher on every tick.  Each retry creates a fresh inotify instance; if setting the watch up fails after that (the
    directory vanished again, EACCES, the user's inotify watch limit), the failure return has to give the descriptor back - otherwise
    every failing tick leaks one descriptor and one inotify instance, and once fs.inotify.max_user_instances / RLIMIT_NOFILE is
    reached inotify_init1 itself fails for good: a re-created directory is never watched again."""
    P, cg = ctx.prog, ctx.cg
    f = ctx.use(ctx.fn1("Oomd::FsDropInService::prepDropInWatcherEventLoop"))
    inits = f.calls("inotify_init1", "inotify_init")
    ctx.counters["inotify_instance_creations"] = len(inits)
    ctx.floor("inotify_instance_creations", 1, "inotify_init1 in prepDropInWatcherEventLoop")
    if not inits:
        return
    # where the descriptor lives: the field (or local) the result is assigned to
    holder = None
    for i in inits:
        par = f.parent.get(i)
        while par is not None and f.nodes[par]["k"] in ("cast", "paren"):
            par = f.parent.get(par)
        if par is not None and f.nodes[par]["k"] == "bin" and f.nodes[par].get("op") == "=":
            holder = f.text(f.nodes[par]["l"])
        elif par is not None and f.nodes[par]["k"] == "decl":
            holder = f.nodes[par]["vars"][0]["name"]
    if holder is None:
        ctx.broken("watcher-descriptor-not-leaked-on-failure", "anchor", f.loc(), "cannot see where the inotify descriptor is kept")
        return
    H = re.escape(holder)
    closes = [i for i in f.calls("close") if f.nodes[i].get("args") and f.text(f.nodes[i]["args"][0]) == holder and f.pos_of(i) is not None]
    # a helper that closes the field (deregisterDropInWatcherFromEventLoop) releases it as well
    for i in f.calls():
        cu = f.nodes[i].get("cusr")
        for u in (P.resolve(cu) if cu else []):
            h = P.fns.get(u)
            if h is not None and h.file.startswith("oomd/") and any(h.nodes[c].get("args") and h.text(h.nodes[c]["args"][0]) == holder for c in h.calls("close")) and f.pos_of(i) is not None:
                closes.append(i)
    tok = lambda k, p: ["released"] if (isinstance(k, str) and ((re.fullmatch(r"\(%s < 0\)|\(0 > %s\)|\(%s == -1\)|\(-1 == %s\)" % (H, H, H, H), k) and p is True) or
                                                                (re.fullmatch(r"\(%s >= 0\)|\(0 <= %s\)" % (H, H), k) and p is False))) else None
    fl = Flow(P, f, events={c: [("set", "released")] for c in closes}, cg=cg, edge_tokens=tok)
    bad = []
    n_fail = 0
    for kind, node, b, parts in fl.exits():
        if kind != "return" or node is None:
            continue
        t = ret_text(f, node)
        if t == "0":
            continue          # success: the watcher keeps the descriptor
        n_fail += 1
        if not all("released" in st.must for st in parts.values()):
            bad.append(f.loc(node))
    ctx.counters["watcher_setup_failure_returns"] = n_fail
    ctx.floor("watcher_setup_failure_returns", 2, "failure returns of prepDropInWatcherEventLoop")
    ctx.check(not bad, "watcher-descriptor-not-leaked-on-failure", "must_follow (acquire / release on error exits)", f.loc(),
              "every failure return has closed the inotify descriptor it created (or never got one)",
              "prepDropInWatcherEventLoop returns failure at %s with the inotify descriptor it has just created still open and nobody left to close it: the main "
              "loop retries on every tick while the directory is unavailable, so each tick leaks one descriptor and one inotify instance until inotify_init1 "
              "fails for good (EMFILE) - a re-created drop-in directory is then never watched again" % ", ".join(bad))


def only_dot_files_are_ignored(ctx):
    """'Converges to exactly the valid non-dot files present': the watcher passes a file name over - without looking at the file - only when
    the name is empty or begins with a dot.  Every other early return of processDropInAdd / processDropInRemove comes after the file was
    opened (its CONTENT is invalid) or does not exist.  A wider 'ignore' list (backup suffixes, editor leftovers) makes valid files
    with such names never become active, and a rename to such a name switches a drop-in off without a trace."""
    P, cg = ctx.prog, ctx.cg
    FIRST = r"(file\.at\(0\)|file\.front\(\)|file\[0\]|\*file\.begin\(\))"
    n = 0
    for q, callee in (("Oomd::FsDropInService::processDropInAdd", "scheduleDropInAdd"), ("Oomd::FsDropInService::processDropInRemove", "scheduleDropInRemove")):
        f = ctx.use(ctx.fn1(q))
        if not f.params:
            ctx.broken("only-dot-files-are-ignored:" + short(f), "anchor", f.loc(), "no file-name parameter")
            continue
        ev = {}
        for d_ in f.all("decl"):
            if any("ifstream" in (v_.get("type") or "") or "fstream" in (v_.get("type") or "") for v_ in f.nodes[d_].get("vars", [])) and f.pos_of(d_) is not None:
                ev[d_] = [("set", "looked")]
        for i in f.calls(callee, "open", "fopen"):
            if f.pos_of(i) is not None:
                ev.setdefault(i, []).append(("set", "looked"))
        fl = Flow(P, f, events=ev, cg=cg)
        for kind, node, b, parts in fl.exits():
            if kind != "return" or node is None:
                continue
            if all("looked" in st.must for st in parts.values()):
                continue
            n += 1
            g = fl.guards(node)
            by_name = any(isinstance(k, str) and p is True and (k in ("file.empty()", "(0 == file.size())", "(file.size() == 0)") or
                                                                (re.search(FIRST, k) and ("46" in k or "'.'" in k) and "==" in k and " || " not in k)) for k, p in g) or \
                any(isinstance(k, str) and p is False and k in ("file.size()",) for k, p in g)
            # `file.empty() || (file.size() && file.at(0) == '.')` as one condition: true means empty-or-dot
            whole = any(isinstance(k, str) and p is True and re.fullmatch(r"\(file\.empty\(\) \|\| \((file\.size\(\)|!file\.empty\(\)) && \((%s == 46|46 == %s)\)\)\)" % (FIRST, FIRST), k)
                        for k, p in g) or any(isinstance(k, str) and p is True and re.fullmatch(r"\(file\.empty\(\) \|\| \((%s == 46|46 == %s)\)\)" % (FIRST, FIRST), k) for k, p in g)
            ctx.check(by_name or whole, "only-dot-files-are-ignored:%s@%d" % (short(f), f.nodes[node].get("line", 0)), "guarded_by (early returns before the file is looked at)", f.loc(node),
                      "a name is passed over unseen only when it is empty or begins with a dot",
                      "%s returns at line %d without having looked at the file, under %s - not (only) because the name is empty or begins with a dot: valid drop-in files "
                      "whose names meet that condition never become active (and renaming an active drop-in to such a name removes it silently)"
                      % (f.pq, f.nodes[node].get("line", 0), [(k, p) for k, p in g if isinstance(k, str)][:3]), witness_path(f, fl, node))
    ctx.counters["name_based_returns"] = n
    ctx.floor("name_based_returns", 2, "early returns of processDropInAdd / processDropInRemove taken before the file is looked at")


def every_add_event_is_handed_on(ctx, tag):
    """'Re-adding a tag replaces its previous content and moves it to the front' / 'converges to the files present': whether a file
    event becomes an add request depends on the file alone - its name, whether it opens and parses - never on what the service remembers
    about earlier events.  No return of FsDropInService::processDropInAdd that bypasses scheduleDropInAdd is conditioned on a data member
    of the service (a memo of the text last scheduled, a set of tags seen): an identical re-add is a request like any other - the engine
    answers it by moving the tag to the front."""
    P, cg = ctx.prog, ctx.cg
    f = ctx.use(ctx.fn1("Oomd::FsDropInService::processDropInAdd"))
    sched = [i for i in f.calls("scheduleDropInAdd") if f.pos_of(i) is not None]
    ctx.counters[tag + "_add_handovers"] = len(sched)
    ctx.floor(tag + "_add_handovers", 1, "scheduleDropInAdd call in processDropInAdd")
    fl = Flow(P, f, events={i: [("set", "handed")] for i in sched}, cg=cg)
    X = Expander(P, f)
    n = 0
    for kind, node, b, parts in fl.exits():
        if kind != "return" or node is None or all("handed" in st.must for st in parts.values()):
            continue
        n += 1
        g = expanded_guards(P, f, fl, node, X)
        # conditions the hand-over itself is under are on the way, not reasons for dropping the event
        on_the_way = {x for i in sched for x in expanded_guards(P, f, fl, i, X)}
        hist = [(k, p_) for k, p_ in g if isinstance(k, str) and (k, p_) not in on_the_way and re.search(r"this->(?!drop_in_dir_\b)\w+_\b", k)]
        ctx.check(not hist, "%s:every-add-event-is-handed-on@%d" % (tag, f.nodes[node].get("line", 0)), "guarded_by (no service state), helpers followed", f.loc(node),
                  "an add event is dropped only for reasons found in the file itself",
                  "FsDropInService::processDropInAdd returns without scheduling the add under %s - a condition on what the service remembers from earlier "
                  "events: a drop-in re-added with the same content is swallowed, so it neither replaces the previous one nor moves to the front" % hist[:2],
                  witness_path(f, fl, node))
    ctx.counters[tag + "_add_early_returns"] = n
    ctx.floor(tag + "_add_early_returns", 2, "returns of processDropInAdd that bypass scheduleDropInAdd")


def run(ctx):
    every_add_event_is_handed_on(ctx, "C14")
    only_dot_files_are_ignored(ctx)
    watcher_descriptor_not_leaked_on_failure(ctx)
    from .C13 import compile_dropin_refuses_whole_unit
    compile_dropin_refuses_whole_unit(ctx)
    event_name_is_a_c_string(ctx)
    from .C13 import tagged_dropins_all_erased
    tagged_dropins_all_erased(ctx)
    # locals / parameters the rules below refer to by name (a rename makes the analysis 'broken', never a violation)
    ctx.anchor(ctx.fn1('Oomd::FsDropInService::processDropInAdd'), 'file')
    ctx.anchor(ctx.fn1('Oomd::FsDropInService::processDropInRemove'), 'file')
    P, cg = ctx.prog, ctx.cg
    cd = {f.usr for f in P.fns.values() if f.kind in ("ctor", "dtor") and f.cls in ("Oomd::FsDropInService", "Oomd::DropInServiceAdaptor")}
    # entry-held sets: constructor/destructor call sites do not count (thread not started / joined)
    LA = LockAnalysis(P, cg, ignore_callers=cd)
    run_f = ctx.fn1("Oomd::FsDropInService::run")
    upd = ctx.fn1("Oomd::DropInServiceAdaptor::updateDropIns")
    ctx.check(any(t == run_f.usr for t, _, _ in cg.thread_roots), "watcher-thread-root", "thread-root", run_f.loc(),
              "FsDropInService::run is started as a thread", "FsDropInService::run is not a thread entry any more")
    W = cg.reach([run_f.usr])
    main = ctx.fn1("Oomd::Oomd::run")
    T = cg.reach([main.usr])
    ctx.counters["watcher_reachable_functions"] = len(W)
    ctx.counters["tick_reachable_functions"] = len(T)
    ctx.floor("watcher_reachable_functions", 100, "functions reachable from the watcher thread")

    # ------------------------------------------------ guarded-by tables
    for fld, mtx, floor in (("Oomd::DropInServiceAdaptor::drop_in_queue_", QM, 3),
                            ("Oomd::FsDropInService::inotifyfd_", EM, 4),
                            ("Oomd::FsDropInService::inotifywd_", EM, 2)):
        n = 0
        for f, i in LA.field_accesses(fld):
            if f.usr in cd:
                continue
            n += 1
            ctx.use(f)
            h = LA.held(f, i)
            ctx.check(mtx in h, "%s-under-%s:%s" % (fld.split("::")[-1], mtx.split("::")[-1], short(owner_of(P, f))), "guarded_by(lockset)", f.loc(i),
                      "%s is accessed with %s held" % (fld.split("::")[-1], mtx.split("::")[-1]),
                      "%s is accessed without %s (held: %s): data race between the watcher thread and the main loop" % (
                          fld.split("::")[-1], mtx.split("::")[-1], sorted(x.split("::")[-1] for x in h) or "none"))
        ctx.counters["accesses:" + fld.split("::")[-1]] = n
        if n < floor:
            ctx.broken("floor:" + fld, "instance-floor", "-", "only %d accesses of %s found (floor %d)" % (n, fld, floor))
    edges = LA.order_edges()
    # every other field of the two classes (also ones added later): shared + written => one common lock
    shared_fields_rule(ctx, LA, ["Oomd::FsDropInService", "Oomd::DropInServiceAdaptor"], {"watcher": run_f.usr}, floor=3)
    # the destructor's unlocked deregistration: audited
    dt = [f for f in P.fns.values() if f.pq == "Oomd::FsDropInService::~FsDropInService"]
    for f in dt:
        ctx.use(f)
        j = f.calls("join")
        d = f.calls("deregisterDropInWatcherFromEventLoop")
        fl = Flow(P, f, events={x: [("set", "joined")] for x in j}, cg=cg)
        ctx.check(bool(j) and bool(d), "destructor-joins-watcher", "order", f.loc(), "destructor joins the watcher thread (deregistration afterwards is single threaded)",
                  "destructor does not join the watcher thread")
    # atomic flag
    cls = P.classes.get("Oomd::FsDropInService", {})
    fl_ = {x["name"]: x for x in cls.get("fields", [])}
    # 'the directory went away' stays pending until the watch is back: the flag is cleared only where prepDropInWatcher succeeded, or it
    # is raised again on every path on which the re-watch failed
    n_clr = 0
    for f_ in [x for x in P.fns.values() if x.cls == "Oomd::FsDropInService" or (x.kind == "lambda" and "FsDropInService" in x.pq)]:
        clears = []
        for i_, n_ in enumerate(f_.nodes):
            if f_.pos_of(i_) is None:
                continue
            if n_["k"] in ("bin", "call") and n_.get("op") == "=" and "drop_in_dir_deleted_" in f_.text(n_.get("l", n_.get("recv", -1))) and \
                    f_.text(n_["r"] if "r" in n_ else n_["args"][0]) == "false":
                clears.append(i_)
            elif n_["k"] == "call" and n_.get("cname") in ("store", "exchange") and "drop_in_dir_deleted_" in f_.text(n_.get("recv", -1)) and n_.get("args") and f_.text(n_["args"][0]) == "false":
                clears.append(i_)
        if not clears or f_.kind in ("ctor",):
            continue
        raises = [i_ for i_, n_ in enumerate(f_.nodes) if f_.pos_of(i_) is not None and (
            (n_["k"] in ("bin", "call") and n_.get("op") == "=" and "drop_in_dir_deleted_" in f_.text(n_.get("l", n_.get("recv", -1))) and f_.text(n_["r"] if "r" in n_ else n_["args"][0]) == "true") or
            (n_["k"] == "call" and n_.get("cname") in ("store", "exchange") and "drop_in_dir_deleted_" in f_.text(n_.get("recv", -1)) and n_.get("args") and f_.text(n_["args"][0]) == "true"))]
        PREP_OK = lambda k, p: isinstance(k, str) and "prepDropInWatcher(" in k and ((re.match(r"^\((0 == .*|.* == 0)\)$", k) and p is True) or (re.match(r"^this->prepDropInWatcher\(.*\)$", k) and p is False))
        PREP_BAD = lambda k, p: isinstance(k, str) and "prepDropInWatcher(" in k and ((re.match(r"^\((0 == .*|.* == 0)\)$", k) and p is False) or (re.match(r"^this->prepDropInWatcher\(.*\)$", k) and p is True))
        for c_ in clears:
            n_clr += 1
            g_ = Flow(P, f_, cg=cg).guards(c_)
            okc = any(PREP_OK(k, p) for k, p in g_)
            if not okc:
                fl2 = Flow(P, f_, events={r_: [("set", "raised")] for r_ in raises}, cg=cg, start=f_.pos_of(c_)[0],
                           edge_tokens=lambda k, p: ["rewatch-failed"] if PREP_BAD(k, p) else (["rewatch-ok"] if PREP_OK(k, p) else None))
                okc = True
                seen_prep = False
                for kind, node, b, parts in fl2.exits():
                    for st in parts.values():
                        if "rewatch-failed" in st.may or "rewatch-ok" in st.may:
                            seen_prep = True
                        if "rewatch-failed" in st.may and "raised" not in st.must:
                            okc = False
                        if "rewatch-ok" not in st.must and "rewatch-failed" not in st.must and "raised" not in st.must:
                            okc = False      # a path that neither re-watched nor raised the flag again
                okc = okc and seen_prep
            ctx.check(okc, "deleted-flag-cleared-only-after-rewatch:" + short(f_), "guarded_by / must_follow", f_.loc(c_),
                      "drop_in_dir_deleted_ is cleared only where the directory is being watched again",
                      "drop_in_dir_deleted_ is cleared although prepDropInWatcher may have failed (and is not raised again on that path): the tick stops retrying, "
                      "a drop-in directory that is re-created later is never watched or scanned again")
    ctx.counters["deleted_flag_clears"] = n_clr
    ctx.floor("deleted_flag_clears", 1, "places where drop_in_dir_deleted_ is cleared")
    ctx.check("atomic" in fl_.get("drop_in_dir_deleted_", {}).get("type", ""), "deleted-flag-atomic", "type", "oomd/dropin/FsDropInService.h",
              "drop_in_dir_deleted_ (written by the watcher, read by the tick) is atomic", "drop_in_dir_deleted_ is not atomic")
    # write-once fields
    for fq, where in WRITE_ONCE.items():
        bad = []
        for f in P.fns.values():
            if f.usr in cd:
                continue
            for i in range(len(f.nodes)):
                if ("F:" + fq) in node_writes(f, i):
                    bad.append(f.loc(i))
        ctx.check(not bad, "write-once:" + fq.split("::")[-1], "who-may-write", bad[0] if bad else "-", "%s is only written in the %s" % (fq.split("::")[-1], where),
                  "%s is written after construction at %s while both threads read it" % (fq.split("::")[-1], ", ".join(bad[:3])))
    # engine_ only on the tick thread
    users = {owner_of(P, f).pq for f, i in LA.field_accesses("Oomd::DropInServiceAdaptor::engine_") if f.kind != "ctor"}
    in_w = [f.pq for f, i in LA.field_accesses("Oomd::DropInServiceAdaptor::engine_") if f.usr in W and f.kind != "ctor"]
    ctx.check(users <= {"Oomd::DropInServiceAdaptor::updateDropIns"} and not in_w and upd.usr not in W, "engine-only-on-tick-thread", "thread-reachability", upd.loc(),
              "the engine is touched only by updateDropIns, which the watcher thread cannot reach",
              "the engine is used by %s (watcher-reachable: %s)" % (sorted(users), in_w))
    # the watcher never reaches engine mutation or tick-only code
    for q in ("Oomd::Engine::Engine::addDropInConfig", "Oomd::Engine::Engine::removeDropInConfig", "Oomd::Engine::Engine::runOnce"):
        g = ctx.fn1(q)
        ctx.check(g.usr not in W, "watcher-cannot-reach:" + short(g), "thread-reachability", g.loc(), short(g) + " is not reachable from the watcher thread",
                  short(g) + " is reachable from the watcher thread", [str(x) for x in (cg.path(run_f.usr, g.usr) or [])][:1])

    # ------------------------------------------------ shared mutable globals
    n_g = 0
    for q, g in sorted(P.globals.items()):
        if g.get("const") or g.get("tls"):
            continue
        t = g.get("type", "")
        if "atomic" in t or t.startswith("const ") or "constexpr" in t:
            continue
        acc_w, acc_t, writers = [], [], []
        for f in P.fns.values():
            if f.kind == "globalinit":
                continue
            hit = False
            for i, n in enumerate(f.nodes):
                if n["k"] == "ref" and n.get("dk") in ("global", "static_local") and n.get("qname", n["name"]) == q:
                    hit = True
                    if ("G:" + q) in node_writes(f, f.parent.get(i, i)) or ("G:" + q) in node_writes(f, i):
                        writers.append(f)
            if hit:
                if f.usr in W:
                    acc_w.append(f)
                if f.usr in T:
                    acc_t.append(f)
        if not (acc_w and acc_t):
            continue
        n_g += 1
        name = g.get("name", q)
        ok = name in SHARED_OK or q in SHARED_OK
        ctx.check(ok, "shared-global:" + q, "shared-state-audit", "%s:%s" % (g.get("file"), g.get("line")),
                  "%s is reachable from both threads: %s" % (q, SHARED_OK.get(name, SHARED_OK.get(q, ""))),
                  "mutable %s '%s' is reachable from the watcher thread (%s) and from the main loop (%s) and is not atomic, thread_local or audited" % (
                      "function static" if g.get("static_local") else "global", q, acc_w[0].pq, acc_t[0].pq))
    ctx.counters["shared_globals_examined"] = n_g
    ctx.tables["shared_ok"] = SHARED_OK

    # ------------------------------------------------ lock order
    cyc = LA.cycle(edges)
    ctx.check(cyc is None, "lock-order-acyclic", "lock-order", "-", "lock-order graph is acyclic (%d edges)" % len(edges),
              "lock-order cycle (possible deadlock between watcher and main loop): " + " -> ".join(x.split("::")[-1] for x in (cyc or [])),
              [edges[(a, b)] for a, b in zip((cyc or [])[:-1], (cyc or [])[1:]) if (a, b) in edges])
    ctx.check((EM, QM) in edges, "expected-order:event_loop->queue", "lock-order", "-", "event_loop_mutex_ is taken before queue_mutex_ (never the reverse)",
              "the expected nesting event_loop_mutex_ -> queue_mutex_ was not observed (analysis cannot see the watcher's locking)")
    ctx.check((QM, EM) not in edges, "no-inverse-order", "lock-order", "-", "queue_mutex_ is never held while taking event_loop_mutex_",
              "queue_mutex_ is held while event_loop_mutex_ is taken: " + edges.get((QM, EM), ""))
    ctx.tables["lock_order_edges"] = {"%s -> %s" % (a.split("::")[-1], b.split("::")[-1]): v for (a, b), v in sorted(edges.items())}
    # the tick thread holds queue_mutex_ only to swap the queue out (no engine work under it)
    for i in upd.calls("Engine::removeDropInConfig", "Engine::addDropInConfig", "handleDropInAddResult", "handleDropInRemoveResult"):
        ctx.check(QM not in LA.held_local(upd, i), "engine-work-outside-queue-lock:" + upd.nodes[i]["cname"], "guarded_by(lockset)", upd.loc(i),
                  "the queue lock is released before the engine is modified", "the engine is modified while holding queue_mutex_ (blocks the watcher for a whole compile/apply)")
    # compile on the watcher thread happens outside the queue lock as well
    sda = ctx.fn1("Oomd::DropInServiceAdaptor::scheduleDropInAdd")
    for i in sda.calls("Config2::compileDropIn"):
        ctx.check(QM not in LA.held_local(sda, i), "compile-outside-queue-lock", "guarded_by(lockset)", sda.loc(i), "compilation happens before the queue lock is taken",
                  "a drop-in is compiled while holding queue_mutex_")

    # ------------------------------------------------ watcher cannot die of an exception; abort table
    E = Escape(P, cg)
    esc = E.from_root(run_f, classes={"text", "absent", "explicit", "shape", "assert", "strpos", "fs"})
    esc = [(s, c) for s, c in esc if not (s.fn.pq == "Oomd::Stats::Stats")]
    ctx.check(not esc, "watcher-cannot-throw", "E-ESCAPE", run_f.loc(), "no throw site escapes FsDropInService::run",
              "an exception can escape the watcher thread (std::terminate): " + "; ".join("%s at %s" % (s.what, s.loc()) for s, _ in esc[:3]),
              esc[0][1] if esc else None)
    n_ab = 0
    for u in sorted(W):
        f = P.fns[u]
        for i in f.calls():
            n = f.nodes[i]
            c = f.callee(i)
            if not (n.get("noreturn") or c in ("exit", "abort", "std::terminate", "_exit")) or "__throw" in c:
                continue
            o = owner_of(P, f)
            n_ab += 1
            ctx.check(o.pq in WATCHER_ABORTS, "watcher-abort-site:" + short(o), "frozen-table", f.loc(i), WATCHER_ABORTS.get(o.pq, ""),
                      "%s is a new abort point reachable from the watcher thread" % f.text(i)[:50])
    ctx.counters["watcher_abort_sites"] = n_ab
    ctx.floor("watcher_abort_sites", 1, "abort sites on the watcher thread (OCHECK in run)")

    # ------------------------------------------------ dot files / start-up order
    for q, callee in (("Oomd::FsDropInService::processDropInAdd", "scheduleDropInAdd"), ("Oomd::FsDropInService::processDropInRemove", "scheduleDropInRemove")):
        f = ctx.fn1(q)
        fl = Flow(P, f, cg=cg)
        cs = f.calls(callee)
        ctx.count("schedule_sites", len(cs))
        for i in cs:
            g = fl.guards(i)
            nonempty = has_fact(g, False, "file.empty()")
            FIRST = r"(file\.at\(0\)|file\.front\(\)|file\[0\]|\*file\.begin\(\))"
            nodot = any(isinstance(k, str) and p is False and re.search(FIRST, k) and ("46" in k or "'.'" in k) and " && " not in k for k, p in g)
            if not nodot and nonempty:
                # `!file.empty() && file.front() == '.'` known false while the name is known non-empty: the first character is not a dot
                nodot = any(isinstance(k, str) and p is False and re.fullmatch(r"\(!file\.empty\(\) && \((%s == 46|46 == %s)\)\)" % (FIRST, FIRST), k) for k, p in g) or \
                    any(isinstance(k, str) and p is False and re.fullmatch(r"\(file\.size\(\) && \((%s == 46|46 == %s)\)\)" % (FIRST, FIRST), k) for k, p in g)
            ctx.check(nonempty and nodot, "dot-files-ignored:" + short(f), "guarded_by", f.loc(i), "empty names and dot-files never reach the queue",
                      callee + " is reachable for a dot-file or an empty name", witness_path(f, fl, i))
            ctx.check(f.text(f.nodes[i]["args"][0]) == "file", "tag-is-file-name:" + short(f), "provenance", f.loc(i), "the drop-in tag is the file name", "tag is " + f.text(f.nodes[i]["args"][0]))
    ctx.floor("schedule_sites", 2, "scheduleDropInAdd/Remove call sites")
    pw = ctx.fn1("Oomd::FsDropInService::prepDropInWatcher")
    reg = pw.calls("prepDropInWatcherEventLoop")
    srt = pw.calls("std::sort")
    adds = pw.calls("processDropInAdd")
    ev = {i: [("set", "watch-registered")] for i in reg}
    ev.update({i: [("set", "sorted")] for i in srt})
    fpw = Flow(P, pw, events=ev, cg=cg)
    ctx.counters["startup_add_sites"] = len(adds)
    ctx.floor("startup_add_sites", 1, "processDropInAdd in prepDropInWatcher")
    for i in adds:
        ctx.check(fpw.must(i, "sorted") and fpw.must(i, "watch-registered") and EM in LA.held_local(pw, i), "startup-load-sorted-under-lock", "order+lockset", pw.loc(i),
                  "existing files are added in sorted order, after the watch is registered, with the event-loop lock held",
                  "start-up loading is not (registered watch, sorted, under the lock)")
    Xpw = Expander(P, pw)
    for i in srt:
        a = [Xpw(x) for x in pw.nodes[i]["args"]]
        ctx.check(len(a) == 2 and re.search(r"files\.begin\(\)$", a[0]) is not None and re.search(r"files\.end\(\)$", a[1]) is not None and a[0][:-len("begin()")] == a[1][:-len("end()")],
                  "startup-sort-by-name", "value-shape", pw.loc(i), "the file list is sorted by name (default comparison)", "sort arguments are " + str(a))
    addl = [l for l in loops(pw) if l["stmt"] is not None and any(pw.pos_of(i)[0] in l["body"] for i in adds)]
    hdrs = [Xpw(pw.nodes[l["stmt"]]["range"]) if pw.nodes[l["stmt"]]["k"] == "rangefor" else " ".join(Xpw(pw.nodes[l["stmt"]][k]) for k in ("init", "c") if k in pw.nodes[l["stmt"]]) for l in addl]
    if adds:
      ctx.check(len(addl) == 1 and forward_iteration(pw, addl[0]) and "files" in (hdrs[0] if hdrs else "") + loop_header(pw, addl[0]) + "".join(Xpw(x) for x in pw.walk(addl[0]["stmt"]) if pw.nodes[x]["k"] == "ref")[:400],
                "startup-load-in-order", "loop-shape", pw.loc(), "files are added in list order", "files are not added in list order")
    # requests reach the main loop in the order the watcher made them (add v1, remove, add v2 must end on the add)
    from .C13 import handoff_queue_fifo
    handoff_queue_fifo(ctx)
    readdir_does_not_follow_links(ctx, "C14")
    # the inotify read buffer holds at least one maximal event (header + NAME_MAX + 1): otherwise read(2) fails with EINVAL for a
    # long file name, processDropInWatcher returns 1 and the OCHECK in run() aborts the daemon
    pdw = ctx.fn1("Oomd::FsDropInService::processDropInWatcher")
    ELEM = {"char": 1, "unsigned char": 1, "signed char": 1, "uint8_t": 1, "std::byte": 1, "struct inotify_event": 16, "inotify_event": 16}
    NEED = 16 + 255 + 1

    def const_int(name):
        if re.match(r"^\d+$", name):
            return int(name)
        for u_, g_ in P.fns.items():
            if g_.kind == "globalinit" and g_.pq.split("::")[-1] == name and g_.nodes:
                t_ = g_.text(0)
                if re.match(r"^\d+$", t_):
                    return int(t_)
        return None
    rd = [i for i in pdw.calls("read") if len(pdw.nodes[i].get("args", [])) == 3]
    ctx.counters["inotify_read_sites"] = len(rd)
    ctx.floor("inotify_read_sites", 1, "read(2) of the inotify descriptor")
    for i in rd:
        a = pdw.nodes[i]["args"]
        refs_ = [x for x in pdw.walk(a[1]) if pdw.nodes[x]["k"] == "ref" and pdw.nodes[x].get("dk") == "local"]
        root = pdw.nodes[refs_[0]] if refs_ else {"k": "?"}
        size = None
        if root["k"] == "ref" and root.get("decl"):
            _, v = pdw.vardecl(root["decl"])
            m = re.match(r"^(?:const )?std::array<(.+), (\w+)>$", (v or {}).get("type", ""))
            if m and m.group(1) in ELEM and const_int(m.group(2)) is not None:
                size = ELEM[m.group(1)] * const_int(m.group(2))
            m2 = re.match(r"^(char|unsigned char|uint8_t)\[(\w+)\]$", (v or {}).get("type", ""))
            if m2 and const_int(m2.group(2)) is not None:
                size = const_int(m2.group(2))
        if size is None:
            ctx.broken("inotify-buffer-holds-one-event", "anchor", pdw.loc(i), "cannot determine the byte size of the buffer handed to read(): " + pdw.text(a[1]))
        else:
            ctx.check(size >= NEED, "inotify-buffer-holds-one-event", "constant evaluation (buffer size)", pdw.loc(i),
                      "the inotify read buffer is %d bytes >= sizeof(inotify_event) + NAME_MAX + 1 = %d" % (size, NEED),
                      "the inotify read buffer is only %d bytes (< %d = header + NAME_MAX + 1): read(2) returns EINVAL for an event with a long file "
                      "name, processDropInWatcher returns 1 and run() aborts the daemon" % (size, NEED))
    # processEventLoop holds the lock while dispatching
    pel = ctx.fn1("Oomd::FsDropInService::processEventLoop")
    for i in pel.calls("processDropInWatcher"):
        ctx.check(EM in LA.held_local(pel, i), "events-processed-under-lock", "guarded_by(lockset)", pel.loc(i), "inotify events are processed with event_loop_mutex_ held",
                  "inotify events are processed without event_loop_mutex_")
    for i in pel.calls("epoll_wait"):
        ctx.check(EM not in LA.held_local(pel, i), "no-blocking-wait-under-lock", "guarded_by(lockset)", pel.loc(i), "the blocking epoll_wait runs without the lock",
                  "epoll_wait blocks while holding event_loop_mutex_ (the main loop's tick() would stall)")
