"""C10 Tick robustness (DESIGN 4/C10)."""
import re
from .common import *
from ..escape import Escape
from ..misc import erase_in_iteration

EXPLANATION = (
    "Decides for the fault model 'any control file missing, empty or unreadable; optional keys absent "
    "from /proc/vmstat, /proc/meminfo or memory.stat; directory entries without d_type; a cgroup "
    "removed or re-created between two file accesses': (i) no exception whose trigger is the absence "
    "of a file, key or value (explicit throw, container/optional/SystemMaybe access) escapes from the "
    "four calls of the main loop body, computed by exception-escape propagation over the whole-library "
    "call graph with try/handler types; (ii) every index into the lines vector of a control file "
    "(result of readFileByLine, or the *FromLines helpers' parameter) is dominated by a size fact "
    "that makes it in-bounds, so an empty file cannot cause an out-of-bounds read; (iii) the d_type-"
    "less fstatat fallback of readDirFromDIR classifies directories and files like the fast path; "
    "(iv) no container is modified while being iterated in tick-reachable code; (v) tick-reachable "
    "code opens cgroup files only relative to a held directory fd except at the enumerated path-based "
    "sites, so a vanished/re-created cgroup yields an error, not another cgroup's data; (vi) the "
    "abort sites reachable from the tick are the enumerated ones; (vii) a struct filled by a stat-family call is read only on that call's success edge; no thread started from tick "
    "code lets an exception leave its entry; (viii) loop progress: in tick-reachable code every loop "
    "whose condition depends on local state only changes some loop-carried local on every iteration "
    "path (a non-advancing 'continue' would spin for ever), with one audited path in Senpai::run that "
    "is dead as long as CgroupContext::id() only fails when fstat on the held fd fails - which is "
    "checked.  std::sto* on the text of a present "
    "kernel file is outside the fault model (kernel grammar).  Freedom from all undefined behaviour "
    "and from hangs by blocking calls or externally controlled loops is not decided.")
RULE_SUMMARY = "E-ESCAPE from the main-loop roots, E-MISC index_guard / sibling_agreement / erase_in_iteration, who-may-call (by-fd discipline), frozen abort table"
NOT_DECIDED = ["absence of all undefined behaviour", "absence of hangs", "file contents outside the kernel grammar"]
ASSUMPTIONS = ["present kernel files follow the kernel's grammar (numbers parse)",
               "fstat/dup on a held fd do not fail"]

# accepted escape sites (one line of reason each), keyed by (function plain name suffix, what)
ACCEPTED_ESCAPES = {
    ("Oomd::Oomd::updateContext", "assert"): "/proc/swaps malformed: content outside the kernel grammar is out of the fault model",
    ("Oomd::BaseKillPlugin::resumeTryingToKillSomething", "assert"): "internal invariant (no outstanding prekill hook), not triggered by file faults",
    ("Oomd::getPressureTotalSome", "explicit"): "legacy PSI without 'total' is a kernel configuration, not a fault",
    ("Oomd::Stats::Stats", "explicit"): "the singleton is constructed by Stats::init before the main loop; get() at tick time constructs nothing",
}
# configuration-time throw sites are C12's subject: reached from the tick only through drop-in compilation
CONFIG_SCOPE = re.compile(r"^Oomd::(PluginArgParser|Config2|JsonConfigParser|Util::parseSize|Util::parseSizeOrPercent)|::init$|::init\(")

PATH_OPENERS = {"Oomd::Fs::Fd::open", "Oomd::Fs::DirFd::open", "Oomd::Fs::readDir", "Oomd::Fs::glob",
                "Oomd::Fs::getxattr", "Oomd::Fs::setxattr", "Oomd::Fs::hasxattr", "Oomd::Fs::isDir",
                "open", "fopen", "opendir", "stat", "lstat", "access"}
# functions allowed to open by path (tick-reachable), with the reason
PATH_SITES = {
    "Oomd::Fs::readFileByLine": "the path overload itself (callers are checked)",
    "Oomd::CgroupContext::make": "the one place a cgroup path becomes a held directory fd",
    "Oomd::Engine::Ruleset::runOnce": "opens the ruleset-cgroup directory to probe its xattr filter",
    "Oomd::CgroupPath::resolveWildcard": "glob(3) resolution of configured patterns",
    "Oomd::Fs::glob": "glob(3) wrapper", "Oomd::Fs::readDir": "path wrapper over readDirFromDIR",
    "Oomd::Fs::getxattr": "path based xattr read (kill accounting)", "Oomd::Fs::setxattr": "path based xattr write (kill accounting)",
    "Oomd::Fs::getSwappiness": "/proc/sys/vm/swappiness", "Oomd::Fs::setSwappiness": "/proc/sys/vm/swappiness",
    "Oomd::Fs::Fd::open": "wrapper", "Oomd::Fs::DirFd::open": "wrapper",
    "Oomd::Fs::isDir": "stat wrapper", "Oomd::Fs::getDeviceType": "/sys/dev/block/<maj:min>",
    "Oomd::Fs::getCgroup2MountPoint": "/proc/mounts", "Oomd::Fs::hasGlob": "pure string test",
    "Oomd::Log::Log": "kmsg sink",
    "Oomd::FsDropInService::processDropInAdd": "drop-in file under the watched directory",
    "Oomd::FsDropInService::prepDropInWatcher": "drop-in directory",
    "Oomd::FsDropInService::prepDropInWatcherEventLoop": "drop-in directory watch",
    "Oomd::BaseKillPlugin::getxattr": "kill accounting xattrs are path based (re-creation TOCTOU is listed as not decided in C01)",
    "Oomd::BaseKillPlugin::setxattr": "kill accounting xattrs are path based (re-creation TOCTOU is listed as not decided in C01)",
    "Oomd::BaseKillPlugin::tryToKillPids": "/proc/<pid>/comm for the kill log line",
}
ABORTS_OK = {
    "Oomd::Fs::readFileByLine": "OCHECK(line != nullptr) after a successful getline",
    "Oomd::BaseKillPlugin::getAndTryToKillPids": "OCHECK(line != nullptr) after a successful getline",
    "Oomd::BaseKillPlugin::resumeFromPrekillHook": "OCHECK(prekillHookState_) internal invariant",
    "Oomd::Oomd::run": "sigtimedwait failure",
    "Oomd::timed_invoke": "pthread_kill failure other than ESRCH",
    "Oomd::FsDropInService::run": "watcher thread, not the tick",
    "Oomd::FsDropInService::processEventLoop": "watcher thread, not the tick",
    "Oomd::Stats::~Stats": "shutdown",
    "__OCHECK_FAIL": "the OCHECK failure handler itself (its call sites are what is enumerated)",
    "Oomd::Fs::pressureTypeToString": "__builtin_unreachable() after an exhaustive enum switch",
    "Oomd::Fs::readRespressureFromLines": "__builtin_unreachable() after an exhaustive enum switch",
}


def main_loop_roots(ctx):
    main = ctx.fn1("Oomd::Oomd::run")
    roots = []
    for nm in ("updateDropIns", "Oomd::updateContext", "Engine::prerun", "Engine::runOnce"):
        for i in main.calls(nm):
            roots.append((nm.split("::")[-1], i))
    return main, roots


def canon_obj(t):
    """*x, x.value(), x-> all denote the vector held by x."""
    t = t.strip()
    while t.startswith("*"):
        t = t[1:]
    if t.endswith(".value()"):
        t = t[:-8]
    return t


def size_keys(obj):
    o = canon_obj(obj)
    return {"%s.size()" % o, "%s->size()" % o, "*%s.size()" % o, "%s.value().size()" % o, "%s.size()" % obj}


def size_fact_covers(guards, obj, k, idx_text=None):
    """Do the condition facts imply obj.size() > k (or > the index expression)?"""
    for sz in size_keys(obj):
        if _size_fact_covers(guards, obj, sz, k, idx_text):
            return True
    return False


def _size_fact_covers(guards, obj, sz, k, idx_text):
    o = canon_obj(obj)
    for key, pol in guards:
        if idx_text is not None and pol is True and key == "(%s < %s)" % (idx_text, sz):
            return True
        if k is None:
            continue
        m = re.match(r"^\((\d+) == %s\)$" % re.escape(sz), key) or re.match(r"^\(%s == (\d+)\)$" % re.escape(sz), key)
        if m and pol is False and int(m.group(1)) == 0 and k == 0:
            return True            # size != 0
        if k == 0 and pol is True and key in ("%s->size()" % o, "%s.size()" % o):
            return True
        if k == 0 and pol is False and key in ("%s->empty()" % o, "%s.empty()" % o):
            return True
    if k is None:
        return False
    for key, pol in guards:
        m = re.match(r"^\((\d+) < %s\)$" % re.escape(sz), key)
        if m and pol is True and int(m.group(1)) >= k:
            return True            # size > n, n >= k
        m = re.match(r"^\(%s < (\d+)\)$" % re.escape(sz), key)
        if m and pol is False and int(m.group(1)) > k:
            return True            # !(size < n)  => size >= n > k
        m = re.match(r"^\((\d+) == %s\)$" % re.escape(sz), key) or re.match(r"^\(%s == (\d+)\)$" % re.escape(sz), key)
        if m and pol is True and int(m.group(1)) > k:
            return True
        if k == 0 and ((key == "%s.empty()" % obj and pol is False) or (key == sz and pol is True)):
            return True
    return False


def max_index(fn, idx):
    """Largest constant value the index expression can take, or None."""
    i = fn.strip(idx)
    n = fn.nodes[i]
    if n["k"] == "lit" and n["lk"] == "int":
        return int(n["v"])
    if n["k"] == "bin" and n["op"] == "+":
        a, b = max_index(fn, n["l"]), max_index(fn, n["r"])
        return a + b if a is not None and b is not None else None
    if n["k"] == "cond":
        a, b = max_index(fn, n["t"]), max_index(fn, n["f"])
        return max(a, b) if a is not None and b is not None else None
    if n["k"] == "ref" and n["dk"] == "local":
        vals = []
        init, v = local_init(fn, n["name"])
        if v is None:
            return None
        if init >= 0:
            m = max_index(fn, init)
            if m is None:
                return None
            vals.append(m)
        for w in local_writes(fn, n["name"]):
            wn = fn.nodes[w]
            if wn["k"] != "bin" or wn["op"] != "=":
                return None
            m = max_index(fn, wn["r"])
            if m is None:
                return None
            vals.append(m)
        return max(vals) if vals else None
    return None


# iteration paths that change no loop-carried local, with the reason they cannot be taken (checked below)
AUDITED_NO_PROGRESS = {
    ("Oomd::Senpai::run", "id_opt"): "taken only if CgroupContext::id() is nullopt, i.e. fstat on the held directory fd failed (assumption of this check; "
                                     "the two obligations id-fails-only-when-fstat-fails and id-is-inode-of-held-fd keep the path dead for removed/re-created cgroups)",
}


def find_result_checked_before_use(ctx):
    """'Optional keys are absent': an iterator obtained from find() on a map / set is dereferenced only where it is known not to be end()
    (an `it == m.end()` test with polarity false dominates the use, and nothing has re-assigned the iterator since - condition facts die
    with writes to the variables they mention).  Dereferencing end() is undefined behaviour - in practice a crash inside the tick."""
    P, cg = ctx.prog, ctx.cg
    n = 0
    for f in sorted(P.fns.values(), key=lambda x: (x.file, x.line)):
        if not f.file.startswith("oomd/") or f.file.endswith("Test.cpp") or "fixtures" in f.file or not f.cfg:
            continue
        its = set()
        for d in f.all("decl"):
            for v in f.nodes[d].get("vars", []):
                if v.get("init") is not None and v.get("init", -1) >= 0:
                    c = f.nodes[f.strip(v["init"])]
                    if c["k"] == "call" and c.get("cname") == "find" and "recv" in c and re.search(r"(unordered_)?(multi)?(map|set)\b", c.get("callee") or ""):
                        its.add(v["name"])
        for nm in list(its):
            pass
        for i_, n_ in enumerate(f.nodes):
            if n_["k"] in ("bin", "call") and n_.get("op") == "=":
                rhs = n_.get("r", (n_.get("args") or [None])[0])
                lhs = n_.get("l", n_.get("recv"))
                if rhs is not None and lhs is not None:
                    c = f.nodes[f.strip(rhs)]
                    ln = f.nodes[f.strip(lhs)]
                    if c["k"] == "call" and c.get("cname") == "find" and re.search(r"(unordered_)?(multi)?(map|set)\b", c.get("callee") or "") and ln.get("k") == "ref" and ln.get("dk") == "local":
                        its.add(ln["name"])
        if not its:
            continue
        fl = None
        for i, nd in enumerate(f.nodes):
            if nd["k"] != "call" or nd.get("op") not in ("->", "*") or "recv" not in nd or f.pos_of(i) is None:
                continue
            r = f.nodes[f.strip(nd["recv"])]
            if r.get("k") != "ref" or r.get("name") not in its:
                continue
            fl = fl or Flow(P, f, cg=cg)
            g = fl.guards(i)
            nm = r["name"]
            ok = any(isinstance(k, str) and p is False and re.search(r"(?<![\w.])%s(?![\w])" % re.escape(nm), k) and "end()" in k and "==" in k for k, p in g)
            n += 1
            ctx.use(f)
            ctx.check(ok, "find-result-checked-before-use:%s:%s@%d" % (short(f), nm, nd.get("line", 0)), "guarded_by (facts die with re-assignment)", f.loc(i),
                      "the iterator is dereferenced only where it was found",
                      "%s is dereferenced in %s without a dominating '%s != end()' test that is still valid at that point (the iterator was re-assigned, or "
                      "never tested): when the key is absent this reads through end() - undefined behaviour, a crash of the tick rather than 'statistic "
                      "unavailable'" % (nm, f.pq, nm), witness_path(f, fl, i))
    ctx.counters["find_deref_sites"] = n
    ctx.floor("find_deref_sites", 8, "dereferences of iterators returned by map/set find()")


def pressure_without_total_only_from_legacy_format(ctx):
    """Precondition of an audited throw: Senpai's getPressureTotalSome throws when a pressure record has no `total` ("legacy PSI ... is a
    kernel configuration, not a fault").  That holds only while the PSI readers hand out a record without total for the EXPERIMENTAL
    format alone: every other ResourcePressure they build carries all four fields.  A default-constructed record for an empty / odd file
    would turn a transient file state into that exception - out of the tick, out of the main loop."""
    P, cg = ctx.prog, ctx.cg
    n = 0
    for f in sorted(P.fns.values(), key=lambda x: (x.file, x.line, x.usr)):
        if f.file != "oomd/util/Fs.cpp":
            continue
        fl = None
        for i, nd in enumerate(f.nodes):
            if nd.get("k") not in ("initlist", "construct") or not (nd.get("type") or "").replace("const ", "").endswith("ResourcePressure") or f.pos_of(i) is None:
                continue
            kids = nd.get("kids", nd.get("args", []))
            if nd["k"] == "construct" and nd.get("copymove"):
                continue
            n += 1
            ctx.use(f)
            full = len(kids) >= 4 and f.text(kids[3]) not in ("std::nullopt", "{}")
            if full:
                continue
            fl = fl or Flow(P, f, cg=cg)
            g = fl.guards(i)
            is_legacy = lambda g_: any((isinstance(p_, str) and p_ == "case:EXPERIMENTAL") or (isinstance(k, str) and "EXPERIMENTAL" in k and "==" in k and p_ is True) for k, p_ in g_)
            legacy = is_legacy(g)
            if not legacy:
                # the legacy branch moved into a helper of its own: every call of that helper sits in the EXPERIMENTAL branch of its caller
                edges = [e for e in cg.callers(f.usr) if isinstance(e.node, int) and e.src in P.fns]
                if edges:
                    legacy = True
                    for e in edges:
                        cf = P.fns[e.src]
                        try:
                            if not is_legacy(Flow(P, cf, cg=cg).guards(e.node)):
                                legacy = False
                        except KeyError:
                            legacy = False
            ctx.check(legacy, "pressure-without-total-only-from-legacy-format:%s@%d" % (short(f), nd.get("line", 0)), "guarded_by (precondition of an audited throw)", f.loc(i),
                      "a pressure record without `total` is built only for the EXPERIMENTAL format",
                      "%s builds a ResourcePressure without a total (%s) outside the EXPERIMENTAL-format branch: Senpai's getPressureTotalSome answers a record "
                      "without total with std::runtime_error, which nothing between Senpai::run and the main loop catches - an empty or half-written "
                      "memory.pressure now takes the daemon down instead of making the statistic unavailable for the tick" % (f.pq, f.text(i)[:50]))
    ctx.counters["pressure_record_constructions"] = n
    ctx.floor("pressure_record_constructions", 2, "ResourcePressure constructions in the PSI readers")


def deferred_kill_state_owns_its_data(ctx):
    """What a kill plugin keeps ACROSS TICKS while a prekill hook is pending (the Serialized* records: target, kill root, peers, the stack of
    next-best candidates) owns its data: no member of those records is a reference, pointer, reference_wrapper or view.  The contexts the
    data was taken from live in OomdContext's per-tick cache; refresh() destroys the context of a cgroup that has gone away, and a
    borrowed CgroupPath is then read after free when the kill is resumed."""
    P = ctx.prog
    n = 0
    for q, c in sorted(P.classes.items()):
        if not q.startswith("Oomd::BaseKillPlugin::Serialized"):
            continue
        n += 1
        for fld in c.get("fields", []):
            t = (fld.get("type") or "")
            inner = re.sub(r"^(const\s+)?std::(shared_ptr|unique_ptr|optional|vector|deque|list)<(.*)>$", r"\3", t.strip())
            borrowed = any(x in t for x in ("reference_wrapper", "string_view", "span<")) or inner.rstrip().endswith(("&", "*")) or t.rstrip().endswith(("&", "*"))
            ctx.check(not borrowed, "deferred-kill-state-owns-its-data:%s:%s" % (q.split("::")[-1], fld["name"]), "E-TYPE (declared member type)", "oomd/plugins/BaseKillPlugin.h",
                      "%s::%s is owned (%s)" % (q.split("::")[-1], fld["name"], t),
                      "%s::%s is declared %s: the record outlives the tick it was made in, but what it refers to lives in OomdContext's per-tick cache - when that cgroup "
                      "is removed before the deferred kill resumes, the resumed kill reads freed memory (undefined behaviour in the main loop)" % (q, fld["name"], t))
    ctx.counters["serialized_record_types"] = n
    ctx.floor("serialized_record_types", 2, "Serialized* record types of BaseKillPlugin")


def run(ctx):
    find_result_checked_before_use(ctx)
    deferred_kill_state_owns_its_data(ctx)
    pressure_without_total_only_from_legacy_format(ctx)
    from .C09 import selection_index_is_within_the_selected_range
    selection_index_is_within_the_selected_range(ctx)
    from .C15 import every_context_refreshed
    every_context_refreshed(ctx)          # a second advance after erase() skips a context (stale statistics) or steps past end()
    borrowed_fd_not_consumed(ctx)
    # locals / parameters the rules below refer to by name (a rename makes the analysis 'broken', never a violation)
    ctx.anchor(ctx.fn1('Oomd::Fs::readDirFromDIR'), 'flags')
    P, cg = ctx.prog, ctx.cg
    E = Escape(P, cg)
    main, roots = main_loop_roots(ctx)
    ctx.counters["main_loop_roots"] = len(roots)
    ctx.floor("main_loop_roots", 4, "main-loop calls (updateDropIns, updateContext, prerun, runOnce)")
    tick_fns = set()
    for nm, node in roots:
        for e in cg.out.get(main.usr, ()):
            if e.node == node:
                tick_fns |= cg.reach([e.dst])
    ctx.counters["tick_reachable_functions"] = len(tick_fns)
    ctx.floor("tick_reachable_functions", 200, "functions reachable from the tick")

    # ------------------------------------------------ (i) exception escape
    seen = {}
    for nm, node in roots:
        for s, chain in E.from_call(main, node, classes={"explicit", "absent", "assert", "fs"}):
            seen.setdefault(s.key, (s, chain, nm))
    n_acc = 0
    for key, (s, chain, nm) in sorted(seen.items(), key=lambda x: (x[1][0].fn.file, x[1][0].fn.nodes[x[1][0].node]["line"])):
        owner = s.fn
        while owner.kind == "lambda" and owner.d.get("parentfn") in P.fns:
            owner = P.fns[owner.d["parentfn"]]
        if CONFIG_SCOPE.search(owner.pq) or CONFIG_SCOPE.search(s.fn.pq):
            continue        # configuration loading: decided by C12 on its own roots
        acc = ACCEPTED_ESCAPES.get((owner.pq, s.cls))
        inst = "escape:%s:%s" % (short(owner), s.what.replace(" ", "_")[:60])
        if acc:
            n_acc += 1
            ctx.ok(inst, "E-ESCAPE(accepted)", s.loc(), acc)
        else:
            ctx.violation(inst, "E-ESCAPE", s.loc(),
                          "%s (%s) can escape the main loop through %s: a missing/empty file or absent key kills the daemon" % (
                              s.what, s.exc, nm), chain)
    # helper threads started from inside the tick (Senpai's timed write): an exception leaving their entry is std::terminate
    n_thr = 0
    for t_usr, creator, node in cg.thread_roots:
        if creator.usr not in tick_fns and t_usr not in tick_fns:
            continue
        t = P.fns[t_usr]
        n_thr += 1
        ctx.use(t)
        esc = E.from_root(t, classes={"explicit", "absent", "assert", "fs"})
        ctx.check(not esc, "tick-helper-thread-cannot-throw:" + short(creator), "E-ESCAPE", t.loc(),
                  "no missing-file / absent-key / explicit throw escapes the helper thread started in " + creator.pq,
                  "an exception can escape the helper thread started in %s (std::terminate in the middle of a tick): %s" % (
                      creator.pq, "; ".join("%s at %s" % (s.what, s.loc()) for s, _ in esc[:3])), esc[0][1] if esc else None)
    ctx.counters["tick_helper_threads"] = n_thr
    ctx.floor("tick_helper_threads", 1, "threads started from tick code (Senpai timed_invoke)")
    # ------------------------------------------------ (i-c) a stat buffer is read only where the call that fills it succeeded
    from ..misc import stat_buffer_reads
    n_stat = 0
    for f in sorted(P.fns.values(), key=lambda x: (x.file, x.line)):
        if not f.file.startswith("oomd/") or f.usr not in tick_fns:
            continue
        res, n_c = stat_buffer_reads(P, cg, f)
        n_stat += n_c
        if n_c:
            ctx.use(f)
        for i, bname, bad in res:
            ctx.violation("stat-buffer-read-only-on-success:%s:%s" % (short(f), bname), "def-use (out-parameter of a failing call)", f.loc(bad[0][0]),
                          "'%s' is filled by %s, but it is read at %s on a path where that call may have failed (e.g. the entry vanished between readdir and "
                          "fstatat): the fields are indeterminate - undefined behaviour, in practice the previous entry's type" % (
                              bname, f.text(i)[:60], ", ".join(f.loc(x) for x, _ in bad[:3])), ["guards at %s: %s" % (f.loc(bad[0][0]), bad[0][1])])
        if n_c and not res:
            ctx.ok("stat-buffer-read-only-on-success:" + short(f), "def-use (out-parameter of a failing call)", f.loc(), "every read of the stat buffer is dominated by the call's success")
    ctx.counters["stat_family_calls_in_tick"] = n_stat
    ctx.floor("stat_family_calls_in_tick", 2, "stat-family calls with a local buffer in tick-reachable code (readDirFromDIR, Fd::inode)")
    # ------------------------------------------------ (i-b) no hang by a non-advancing iteration (loop progress)
    from ..misc import loop_progress
    n_loops = 0
    for u in sorted(tick_fns):
        f = P.fns[u]
        if not f.file.startswith("oomd/"):
            continue
        res, n_ex = loop_progress(P, cg, f)
        n_loops += n_ex
        for L, ctl, bad in res:
            ctx.use(f)
            for b, line, conds in bad:
                t = f.blocks[b].get("term") or {}
                ctext = ""
                if t.get("cond") is not None and t.get("cond") >= 0:
                    refs = [f.nodes[x]["name"] for x in f.walk(t["cond"]) if f.nodes[x]["k"] == "ref" and f.nodes[x].get("dk") == "local"]
                    ctext = refs[0] if len(set(refs)) == 1 else f.text(t["cond"])
                aud = AUDITED_NO_PROGRESS.get((f.pq, ctext))
                inst = "loop-progress:%s@%s" % (short(f), ctext or line)
                if aud:
                    ctx.ok(inst, "loop-progress(audited)", "%s:%s" % (f.file, line), aud)
                    ctx.count("audited_no_progress_paths")
                else:
                    ctx.violation(inst, "loop-progress", "%s:%s" % (f.file, line or f.nodes[L["stmt"]].get("line")),
                                  "the loop at %s is controlled by local state only (%s) and the path leaving the test at line %s goes round without "
                                  "changing any of it: the same iteration repeats for ever and the tick never ends" % (
                                      f.loc(L["stmt"]), ", ".join(x[2:].split("@")[0] for x in ctl), line))
    ctx.counters["loops_examined_for_progress"] = n_loops
    ctx.floor("loops_examined_for_progress", 8, "locally controlled loops in tick-reachable code")
    # the audited path (Senpai::run: 'continue' without advancing when the cgroup has no id) is dead only while a context
    # always has an id: id() is the inode of the held directory fd, which fails only if fstat on that fd fails
    if AUDITED_NO_PROGRESS:
        ino = ctx.fn1("Oomd::Fs::Fd::inode")
        fi = Flow(P, ino, cg=cg)
        ok_ino, n_err = True, 0
        for r in returns(ino):
            t = ret_text(ino, r)
            g = fi.guards(r)
            succeeded = any(p is True and re.match(r"^\(0 == (::)?fstat\(", k) for k, p in g) or any(p is False and re.match(r"^\(0 != (::)?fstat\(|^\((::)?fstat\(.*\) != 0\)$", k) for k, p in g)
            failed = any(p is False and re.match(r"^\(0 == (::)?fstat\(", k) for k, p in g)
            is_err = "systemError(" in t or "SYSTEM_ERROR" in t
            if is_err:
                n_err += 1
                ok_ino = ok_ino and failed
            else:
                ok_ino = ok_ino and succeeded
        ctx.check(ok_ino and n_err >= 1, "id-fails-only-when-fstat-fails:Fs::Fd::inode", "return_table", ino.loc(),
                  "inode() reports an error exactly on the fstat failure edge (a held fd of a removed cgroup still has an inode)",
                  "inode() can fail although fstat succeeded (e.g. for an unlinked directory): CgroupContext::id() becomes nullopt for a removed "
                  "cgroup, which makes the non-advancing 'continue' in Senpai::run reachable - the tick loops for ever")
        ids = [g_ for g_ in P.fns.values() if g_.pq == "Oomd::CgroupContext::id"]
        ctx.check(len(ids) == 1 and [ids[0].text(i) for i in ids[0].calls("Fd::inode")] == ["this->cgroup_dir_.inode()"], "id-is-inode-of-held-fd", "provenance",
                  ids[0].loc() if ids else "-", "CgroupContext::id() is the inode of the held directory fd", "CgroupContext::id() is no longer cgroup_dir_.inode()")
    ctx.tables["audited_no_progress"] = {"%s / %s" % k: v for k, v in AUDITED_NO_PROGRESS.items()}
    ctx.counters["accepted_escape_sites"] = n_acc
    ctx.ok("escape-analysis", "E-ESCAPE", main.loc(), "%d throw sites examined from %d roots" % (len(seen), len(roots)))
    ctx.tables["accepted_escapes"] = {"%s/%s" % k: v for k, v in ACCEPTED_ESCAPES.items()}

    # ------------------------------------------------ (ii) index_guard on lines vectors
    n_idx = 0
    for f in P.fns.values():
        if not f.file.startswith("oomd/"):
            continue
        fl = None
        X = None
        for i, n in enumerate(f.nodes):
            if n["k"] != "call" or n.get("op") != "[]" or "recv" not in n:
                continue
            rt = n.get("rtype", "")
            if not rt.startswith(("std::vector<std::string>", "const std::vector<std::string>", "std::vector<std::basic_string<char>>",
                                  "const std::vector<std::basic_string<char>>")):
                continue
            X = X or Expander(P, f)
            src = X(n["recv"])
            is_lines = "readFileByLine(" in src or re.match(r"^param:\w*lines\w*$", src) is not None or src.startswith("*param:") and "lines" in src
            if not is_lines:
                continue
            n_idx += 1
            ctx.use(f)
            fl = fl or Flow(P, f, cg=cg)
            obj = f.text(n["recv"])
            k = max_index(f, n["args"][0])
            g = fl.guards(i)
            # the same vector may be known under a local alias (const auto& content = *lines)
            names = {obj}
            for d_ in f.all("decl"):
                for v_ in f.nodes[d_].get("vars", []):
                    if v_["decl"] in X.single and X._decl_text(v_["decl"], v_["name"]) == src:
                        names.add(v_["name"])
            ok = any(size_fact_covers(g, o_, k, f.text(n["args"][0])) for o_ in names)
            why = ""
            if not ok and k is not None:
                # summary: guarded by a switch on a classifier of the same vector (getPsiFormat)
                for key, pol in g:
                    m = re.match(r"^(?:.*::)?getPsiFormat\((.+)\)$", key)
                    if m and m.group(1) == obj and isinstance(pol, str) and pol.startswith("case:"):
                        need = psi_min_lines(ctx, pol[5:])
                        if need is not None and need > k:
                            ok = True
                            why = " (getPsiFormat returns %s only with >= %d lines)" % (pol[5:], need)
            inst = "index-guard:%s:%s[%s]" % (short(f), obj, f.text(n["args"][0]))
            ctx.check(ok, inst, "index_guard", f.loc(i),
                      "index %s of the lines vector is dominated by a size check%s" % (f.text(n["args"][0]), why),
                      "%s[%s] is read without a dominating size check: an empty control file (zero lines) is an "
                      "out-of-bounds read" % (obj, f.text(n["args"][0])), witness_path(f, fl, i))
    ctx.counters["lines_index_sites"] = n_idx
    ctx.floor("lines_index_sites", 6, "indexing sites into control-file line vectors")

    # ------------------------------------------------ (iii) readDirFromDIR sibling agreement
    readdir_classification(ctx, "C10")

    readdir_does_not_follow_links(ctx, "C10")
    # references into the context cache stay valid for the whole tick (plugins hold ConstCgroupContextRef across further lookups):
    # entries leave OomdContext::cgroups_ only in OomdContext::refresh(), between ticks
    n_rm = 0
    for f in P.fns.values():
        for i, n in enumerate(f.nodes):
            if n["k"] != "call" or f.pos_of(i) is None or "recv" not in n:
                continue
            r = f.nodes[f.strip(n["recv"])]
            if r["k"] != "member" or r.get("qname") != "Oomd::OomdContext::cgroups_":
                continue
            nm = n.get("cname") or ""
            if nm in ("erase", "clear", "extract", "swap", "merge", "operator=", "insert_or_assign", "rehash") or n.get("op") == "=":
                n_rm += 1
                owner = f
                while owner.kind == "lambda" and owner.d.get("parentfn") in P.fns:
                    owner = P.fns[owner.d["parentfn"]]
                okc = owner.pq == "Oomd::OomdContext::refresh" or (nm in ("operator=", "swap") and owner.kind in ("ctor", "method") and owner.name in ("OomdContext", "operator="))
                ctx.check(okc, "context-cache-stable-within-tick:%s@%s" % (short(owner), nm), "who-may-write (removal)", f.loc(i),
                          "cached cgroup contexts are dropped only by refresh(), between ticks",
                          "%s removes or replaces entries of the context cache outside refresh(): references handed out earlier in the same tick "
                          "(kill candidates, parent contexts held across lookups) dangle, and the tick continues on freed memory" % short(owner))
    ctx.counters["context_cache_removals"] = n_rm
    ctx.floor("context_cache_removals", 1, "removal of entries from OomdContext::cgroups_ (refresh)")
    # ------------------------------------------------ (iv) erase in iteration (tick-reachable)
    n_loops = 0
    for u in sorted(tick_fns):
        f = P.fns[u]
        if not f.cfg or not f.file.startswith("oomd/"):
            continue
        bad = erase_in_iteration(P, f, cg)
        n_loops += 1
        for node, msg in bad:
            ctx.violation("erase-in-iteration:" + short(f), "erase_in_iteration", f.loc(node), msg)
    ctx.counters["functions_scanned_for_erase_in_iteration"] = n_loops
    ctx.ok("erase-in-iteration-scan", "erase_in_iteration", "-", "%d tick-reachable functions scanned" % n_loops)

    # ------------------------------------------------ (v) by-fd discipline
    n_path = 0
    for u in sorted(tick_fns):
        f = P.fns[u]
        for i in f.calls():
            c = f.callee(i)
            is_path_read = c == "Oomd::Fs::readFileByLine" and f.nodes[i].get("ptypes", [""])[0].startswith("const std::string")
            if c not in PATH_OPENERS and not is_path_read:
                continue
            owner = f
            while owner.kind == "lambda" and owner.d.get("parentfn") in P.fns:
                owner = P.fns[owner.d["parentfn"]]
            n_path += 1
            arg0 = f.text(f.nodes[i]["args"][0]) if f.nodes[i].get("args") else ""
            literal = arg0.startswith('"/proc/') or arg0.startswith('"/sys/') or "std::string(\"/proc/" in arg0 or "std::string(\"/sys/" in arg0
            procpid = "/proc/" in arg0 and "/comm" in arg0
            ok = owner.pq in PATH_SITES or literal or procpid or arg0.startswith(("path", "param:path")) and owner.pq.startswith("Oomd::Fs::get")
            inst = "by-fd:%s:%s" % (short(owner), c.replace("Oomd::", ""))
            if ok:
                ctx.ok(inst, "who-may-call", f.loc(i), PATH_SITES.get(owner.pq, "fixed /proc or /sys path"))
            else:
                ctx.violation(inst, "who-may-call", f.loc(i),
                              "%s(%s) opens by path in tick-reachable code outside the audited sites: a cgroup removed "
                              "or re-created between two accesses would be read as another cgroup" % (c, arg0[:60]))
    ctx.counters["path_based_opens_in_tick"] = n_path
    ctx.tables["path_sites"] = PATH_SITES

    # ------------------------------------------------ (vi) abort sites
    n_ab = 0
    for u in sorted(tick_fns):
        f = P.fns[u]
        for i in f.calls():
            n = f.nodes[i]
            c = f.callee(i)
            if not (n.get("noreturn") or c in ("exit", "abort", "std::terminate", "_exit", "quick_exit")):
                continue
            if c.startswith("std::__throw") or "__throw" in c:
                continue
            owner = f
            while owner.kind == "lambda" and owner.d.get("parentfn") in P.fns:
                owner = P.fns[owner.d["parentfn"]]
            n_ab += 1
            inst = "abort-site:%s" % short(owner)
            if owner.pq in ABORTS_OK:
                ctx.ok(inst, "frozen-table", f.loc(i), ABORTS_OK[owner.pq])
            else:
                ctx.violation(inst, "frozen-table", f.loc(i), "%s is a new abort site reachable from the tick" % f.text(i)[:60])
    ctx.counters["abort_sites_in_tick"] = n_ab
    ctx.tables["abort_sites"] = ABORTS_OK


_psi_cache = {}


def psi_min_lines(ctx, case):
    """Smallest lines.size() under which getPsiFormat returns `case` (from its own guards)."""
    if case in _psi_cache:
        return _psi_cache[case]
    f = ctx.fn1("getPsiFormat")
    fl = Flow(ctx.prog, f, cg=ctx.cg)
    best = None
    for r in returns(f):
        if ret_const(f, r) != case:
            continue
        g = fl.guards(r)
        lo = 0
        for key, pol in g:
            m = re.match(r"^\((\d+) < lines\.size\(\)\)$", key)
            if m and pol is True:
                lo = max(lo, int(m.group(1)) + 1)
            m = re.match(r"^\(lines\.size\(\) < (\d+)\)$", key)
            if m and pol is False:
                lo = max(lo, int(m.group(1)))
            m = re.match(r"^\((\d+) == lines\.size\(\)\)$", key) or re.match(r"^\(lines\.size\(\) == (\d+)\)$", key)
            if m and pol is True:
                lo = max(lo, int(m.group(1)))
        best = lo if best is None else min(best, lo)
    _psi_cache[case] = best
    return best
