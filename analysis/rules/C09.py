"""C09 Ranking policy: type agreement and metric table (DESIGN 4/C09)."""
import re
from .common import *

EXPLANATION = (
    "Decides only the clause 'thresholds and ratios act at exactly the configured value for 64-bit "
    "byte counts and fractional numbers alike, and an ineligible cgroup is never chosen', as type "
    "agreement and eligibility-filter structure: in every kill plugin's init, rankForKilling, ranking "
    "closures, getSwapExcess and get_ranking_fn there is no implicit 64->32-bit integer conversion "
    "and no floating->(<=32-bit) integer conversion, and no local deduced as a 32-bit int receives a "
    "64-bit or floating value; every addArgumentCustom parser agrees with its destination type; and "
    "each plugin's ranking key reads the accessor its documentation names (io_cost_rate; pg_scan_rate "
    "with the '> 0' filter; swap_usage with the '> threshold' filter and the swap excess when biased; "
    "the mean of sec_10 and sec_60 of the configured resource; the (size-phase usage, growth-phase "
    "ratio, usage) tuple with the documented eligibility tests); ceil/floor/round in the ranking scope "
    "(the growing_size_percentile cut-off index) are applied only to an exactly computed integer or "
    "to one correctly rounded quotient of exact integers (abstract domain INT/QUOT/INEXACT), so the "
    "index equals the real-number formula for every percentile and sibling count.  The ranking outcomes themselves "
    "(three-phase policy, means, rates on concrete numbers) are numeric and not decided.")
RULE_SUMMARY = "E-TYPE narrowing scan over the ranking scope, parser/destination agreement, metric table by expression shape"
# (exactness of the percentile cut-off: see the discretised-fraction rule below)
NOT_DECIDED = ["the three-phase policy and all ranking outcomes on concrete statistics (numeric)",
               "tie handling and rounding of rates and moving averages"]
ASSUMPTIONS = ["accessor names (io_cost_rate, pg_scan_rate, swap_usage, ...) denote the documented statistics (C15)"]

SCOPE_NAMES = ("init", "rankForKilling", "getSwapExcess", "get_ranking_fn", "prerun")
KILL_CLASSES = re.compile(r"^Oomd::(KillMemoryGrowth|KillSwapUsage|KillPressure|KillIOCost|KillPgScan)\b")


def bits(tw):
    m = re.match(r"^[iue](\d+)$", tw or "")
    return int(m.group(1)) if m else None


def scope(ctx):
    P = ctx.prog
    out = []
    for f in P.fns.values():
        o = f
        while o.kind == "lambda" and o.d.get("parentfn") in P.fns:
            o = P.fns[o.d["parentfn"]]
        if KILL_CLASSES.match(o.pq) and o.name in SCOPE_NAMES:
            out.append(f)
    return out


SIZE_CHANGERS = ("push_back", "emplace_back", "pop_back", "erase", "clear", "resize", "insert", "emplace", "assign", "swap", "reserve_and_fill")


def selection_index_is_within_the_selected_range(ctx):
    """A percentile cut-off picks the n-th element of a sequence, with n computed from a size: the sequence that std::nth_element is
    run over (and that is subscripted with n afterwards) has exactly that size - it is the container whose size() n was computed from,
    or an unmodified copy of it.  An index computed from the number of candidates but applied to a shorter list (those with an available
    statistic) points past its end whenever enough statistics are unavailable: undefined behaviour inside the tick."""
    P = ctx.prog
    n_sites = 0
    for f in sorted(P.fns.values(), key=lambda x: (x.file, x.line, x.usr)):
        if not f.file.startswith("oomd/") or f.file.endswith("Test.cpp"):
            continue
        for i in f.calls("nth_element", "std::nth_element", "partial_sort", "std::partial_sort"):
            a = f.nodes[i].get("args", [])
            if len(a) < 3:
                continue
            n_sites += 1
            ctx.use(f)
            inst = "selection-index-within-range:%s@%d" % (short(f), f.nodes[i].get("line", 0))
            m0 = re.match(r"^(.+)\.c?begin\(\)$", f.text(a[0]))
            m2 = re.match(r"^(.+)\.c?end\(\)$", f.text(a[2]))
            m1 = re.match(r"^\((.+)\.c?begin\(\) \+ (\w+)\)$", f.text(a[1]))
            if not (m0 and m1 and m2) or not (m0.group(1) == m1.group(1) == m2.group(1)):
                ctx.broken(inst, "anchor", f.loc(i), "cannot read the selection as (C.begin(), C.begin() + n, C.end()) over one container: %s" % [f.text(x)[:40] for x in a[:3]])
                continue
            cont, idx = m0.group(1), m1.group(2)
            init, v = local_init(f, idx, must=False)
            if v is None or init is None or init < 0 or local_writes(f, idx, must=False):
                ctx.broken(inst, "anchor", f.loc(i), "the index %s is not a once-initialised local" % idx)
                continue
            sized = sorted(set(re.findall(r"([\w.>-]+?)\.size\(\)", f.text(init))))
            if len(sized) != 1:
                ctx.broken(inst, "anchor", f.loc(i), "the index %s is not computed from the size of one container: %s" % (idx, f.text(init)[:80]))
                continue
            src = sized[0]
            same = cont == src
            if not same:
                ci, cv = local_init(f, cont, must=False)
                same = cv is not None and ci is not None and ci >= 0 and f.text(ci) == src
            changed = [c for c in f.calls(*SIZE_CHANGERS) if "recv" in f.nodes[c] and f.text(f.nodes[c]["recv"]) in (cont, src)]
            ctx.check(same and not changed, inst, "provenance (index / container agreement)", f.loc(i),
                      "the index %s is computed from the size of the sequence it selects in (%s)" % (idx, cont),
                      "%s selects position %s in %s, but %s is computed from %s.size()%s: when %s is shorter (entries left out, e.g. cgroups whose statistic is "
                      "unavailable) the iterator %s.begin() + %s and the subscript %s[%s] lie past the end - undefined behaviour inside the tick, a garbage "
                      "threshold at best" % (f.pq, idx, cont, idx, src, " and the sequence is resized in between" if changed and same else "", cont, cont, idx, cont, idx))
    ctx.counters["selection_sites"] = n_sites
    ctx.floor("selection_sites", 1, "nth_element / partial_sort selections in oomd's own code")


def growth_ratio_definition(ctx):
    """kill_by_memory_size_or_growth ranks its growth phase by CgroupContext::memory_growth = current usage / moving average, as a real
    number - and 0 when the average is 0 (a cgroup that was empty for its whole history has not 'grown' by a factor equal to its few
    bytes).  Every value-returning exit is the plain quotient of the two accessors or the literal 0; nothing clamps or rewrites the
    divisor."""
    P, cg = ctx.prog, ctx.cg
    f = ctx.use(ctx.fn1("Oomd::CgroupContext::memory_growth"))
    X = Expander(P, f)
    CUR = r"\*?this->current_usage\((nullptr|param:\w+)?\)(\.value\(\))?"
    AVG = r"\*?this->average_usage\((nullptr|param:\w+)?\)(\.value\(\))?"
    n = 0
    for r, leaf in return_leaves(f):
        t = X(leaf)
        if t in ("std::nullopt", "{}"):
            continue
        n += 1
        ok = t in ("0", "0.0", "0.") or re.fullmatch(r"\((static_cast<double>\()?%s\)? / %s\)" % (CUR, AVG), t) is not None or \
            re.fullmatch(r"\(%s / (static_cast<double>\()?%s\)?\)" % (CUR, AVG), t) is not None
        ctx.check(ok, "growth-ratio-definition@%d" % f.nodes[r].get("line", 0), "return_table (value shape)", f.loc(r),
                  "memory_growth returns 0 or current_usage / average_usage",
                  "CgroupContext::memory_growth returns %s - not the plain quotient current_usage / average_usage (or 0 for an average of 0): the growth "
                  "ranking of kill_by_memory_size_or_growth is no longer by the documented ratio (a clamped divisor makes a cgroup that was empty until now "
                  "the fastest 'grower')" % t[:120])
    ctx.counters["growth_ratio_returns"] = n
    ctx.floor("growth_ratio_returns", 1, "value returns of CgroupContext::memory_growth")


def run(ctx):
    growth_ratio_definition(ctx)
    from .C01 import candidates_come_from_ranking
    candidates_come_from_ranking(ctx)
    selection_index_is_within_the_selected_range(ctx)
    integer_text_is_decimal(ctx, "C09")
    size_components_kept_in_double(ctx, "C09")
    prerun_walk_visits_every_cgroup(ctx)
    from .C15 import rate_definitions, psi_tables, memory_protection_scheme, refresh_archives_one_tick
    refresh_archives_one_tick(ctx)         # io-cost / pgscan rates and the moving average rank by deltas over exactly one tick
    memory_protection_scheme(ctx)          # kill_by_memory_size_or_growth and kill_by_swap_usage rank by usage - protection
    rate_definitions(ctx)
    psi_tables(ctx)          # kill_by_pressure ranks by what the PSI reader hands out
    P, cg = ctx.prog, ctx.cg
    fns = scope(ctx)
    ctx.counters["scope_functions"] = len(fns)
    ctx.floor("scope_functions", 15, "functions and closures in the ranking scope")
    # (0) a sum of fractional values (pressures, ratios) is kept in a fractional accumulator: std::accumulate / std::reduce take the type
    # of the running sum from the initial value, and a plain `0` makes it an int - every partial sum is truncated, inside the library
    # header where no conversion is visible in oomd's own code.  Looked for in the ranking scope and in every oomd function it reaches.
    n_acc = 0
    reach = [P.fns[u] for u in cg.reach([f.usr for f in fns]) if P.fns[u].file.startswith("oomd/")]
    for f in {g.usr: g for g in list(fns) + reach}.values():
        for i in f.calls("accumulate", "reduce", "inner_product", "transform_reduce"):
            nd = f.nodes[i]
            if not (nd.get("callee") or "").startswith("std::"):
                continue
            n_acc += 1
            ctx.use(f)
            elem = (nd.get("ptypes") or [""])[0] + " " + " ".join(f.nodes[a].get("type") or "" for a in nd.get("args", [])[:1])
            frac = re.search(r"\b(float|double)\b", elem) is not None
            ctx.check(not (frac and (nd.get("tw") or "").startswith(("i", "u"))), "sum-kept-in-the-value-type:%s@%d" % (short(f), nd.get("line", 0)),
                      "E-TYPE narrowing", f.loc(i), "a sum over fractional values has a fractional accumulator",
                      "%s sums fractional values (%s) into an accumulator of type %s (the type of the initial value %s): every partial sum is truncated "
                      "to a whole number, so pressures and ratios that differ by less than 1 rank as equal" % (
                          f.pq, (nd.get("ptypes") or ["?"])[0], nd.get("type"), f.text(nd["args"][2]) if len(nd.get("args", [])) > 2 else "?"))
    ctx.counters["accumulations_examined"] = n_acc
    # (0') 'exactly, for 64-bit byte counts': a byte count is not multiplied by another run-time value in 64-bit integer arithmetic -
    # total * percent wraps for totals above 2^63 / percent and the threshold goes negative (every sibling passes it); the percentage
    # is applied as a floating-point factor (total * (double(percent) / 100)), which cannot wrap.  Products with a constant are left alone.
    n_mul = 0
    for f in fns:
        for i, nd in enumerate(f.nodes):
            if nd["k"] != "bin" or nd.get("op") not in ("*", "*=") or not (nd.get("tw") or "").startswith(("i64", "u64")):
                continue
            if const_int(f, nd["l"]) is not None or const_int(f, nd["r"]) is not None:
                continue
            lt, rt = f.nodes[f.strip(nd["l"])].get("tw") or "", f.nodes[f.strip(nd["r"])].get("tw") or ""
            if lt.startswith("f") or rt.startswith("f"):
                continue
            # one side is a byte count (by what it is read from, or - for an accumulated local - by what it is called): a count of
            # cgroups times a percentage cannot come near 2^63
            Xm = Expander(P, f)
            BYTES = r"usage|memcurrent|mem_current|bytes|swap(total|used|_)|memory_(min|low|high|max|protection)|pg_scan|io_cost"
            if not any(re.search(BYTES, f.text(o)) or re.search(BYTES, Xm(o)) for o in (nd["l"], nd["r"])):
                continue
            # divide-first forms (total / 100 * percent, total % 100 * percent) stay below the total: they cannot wrap
            def scaled_down(o):
                on = f.nodes[f.strip(o)]
                return on["k"] == "bin" and on.get("op") in ("/", "%") and (const_int(f, on["r"]) or 0) >= 100
            if scaled_down(nd["l"]) or scaled_down(nd["r"]):
                continue
            n_mul += 1
            ctx.use(f)
            ctx.violation("byte-count-product-cannot-wrap:%s@%d" % (short(f), nd.get("line", 0)), "E-TYPE overflow (integer product of two run-time values)", f.loc(i),
                          "%s multiplies two run-time 64-bit integers (%s): with a byte count on one side the product wraps for large totals - a percentage of a "
                          "total becomes negative and every candidate passes the threshold it stands for" % (f.pq, f.text(i)[:80]))
    ctx.counters["integer_products_examined"] = n_mul
    if not n_mul:
        ctx.ok("byte-count-product-cannot-wrap:scan", "E-TYPE overflow (integer product of two run-time values)", "-", "no 64-bit integer product of two run-time values in the %d ranking functions" % len(fns))
    n_casts = 0
    for f in fns:
        ctx.use(f)
        o = f
        while o.kind == "lambda" and o.d.get("parentfn") in P.fns:
            o = P.fns[o.d["parentfn"]]
        # (a) implicit narrowing conversions
        for i, n in enumerate(f.nodes):
            if n["k"] != "cast" or not n.get("implicit"):
                continue
            ck = n.get("ck")
            src = f.nodes[f.strip(n["sub"])]
            if src["k"] == "lit":
                continue
            if ck == "IntegralCast":
                fb, tb = bits(n.get("fromtw")), bits(n.get("tw"))
                if fb and tb and fb > tb and tb <= 32:
                    n_casts += 1
                    # counts of elements (size()) narrowed for logging are harmless only if not stored: report all
                    ctx.violation("narrowing:%s:%s" % (short(o), f.text(n["sub"])[:40]), "E-TYPE narrowing", f.loc(i),
                                  "a %d-bit value (%s) is implicitly narrowed to %d bits: byte counts above 2 GiB are truncated" % (
                                      fb, f.text(n["sub"])[:60], tb))
            elif ck == "IntegralToFloating" and n.get("tw") == "f32" and n.get("fromtw") in ("i64", "u64"):
                # a 64-bit byte count squeezed through single precision (24-bit mantissa): 8 KiB steps at 64 GiB
                Xn = Expander(P, f)
                srct = Xn(n["sub"])
                metric = re.search(r"\b(swap_usage|current_usage|effective_usage|anon_usage|pg_scan_rate|pg_scan_cumulative|io_cost_rate|memory_growth)\(", srct)
                n_casts += 1
                if metric:
                    ctx.violation("metric-through-float:%s:%s" % (short(o), metric.group(1)), "E-TYPE narrowing", f.loc(i),
                                  "the ranking metric %s (64-bit byte count) is converted to single-precision float (%s): siblings whose keys differ by less than "
                                  "the float step (8 KiB at 64 GiB) tie or swap places" % (metric.group(1), f.text(n["sub"])[:60]))
                else:
                    ctx.ok("i64-to-float-operand:%s@%d" % (short(o), n.get("line", 0)), "E-TYPE narrowing(audited class)", f.loc(i),
                           "a 64-bit operand other than the ranking metric enters float arithmetic (bias term x float ratio): " + f.text(n["sub"])[:50])
            elif ck == "FloatingToIntegral":
                tb = bits(n.get("tw"))
                if tb and tb <= 32:
                    n_casts += 1
                    ctx.violation("truncation:%s:%s" % (short(o), f.text(n["sub"])[:40]), "E-TYPE narrowing", f.loc(i),
                                  "a fractional value (%s) is implicitly truncated to a %d-bit integer: pressures and ratios below 1 become 0" % (
                                      f.text(n["sub"])[:60], tb))
        # (a') a comparison between a single-precision and a double-precision value (neither a literal): the float side was rounded to 24
        # bits when it was computed, the double side was not - a measurement that equals the configured ratio exactly compares as below it
        for i, n in enumerate(f.nodes):
            if n["k"] != "cast" or not n.get("implicit") or n.get("ck") != "FloatingCast" or n.get("fromtw") != "f32" or n.get("tw") != "f64":
                continue
            par = f.parent.get(i)
            hops = 0
            while par is not None and f.nodes[par]["k"] in ("paren", "implicit") and hops < 3:
                par = f.parent.get(par)
                hops += 1
            pn = f.nodes[par] if par is not None else None
            if pn is None or pn["k"] != "bin" or pn.get("op") not in ("<", "<=", ">", ">=", "==", "!="):
                continue
            other = pn["r"] if f.strip(pn["l"]) == f.strip(i) or i in set(f.walk(pn["l"])) else pn["l"]
            if f.nodes[f.strip(other)]["k"] == "lit" or f.nodes[f.strip(n["sub"])]["k"] == "lit":
                continue
            n_casts += 1
            ctx.violation("mixed-precision-comparison:%s:%s" % (short(o), f.text(par)[:50]), "E-TYPE narrowing", f.loc(par),
                          "%s compares a single-precision value (%s) with a double-precision one (%s): the float was rounded when it was computed, so a "
                          "measurement that equals a configured non-dyadic ratio exactly (1.3, 1.15) no longer satisfies '>=' - the threshold does not act at "
                          "the configured value" % (f.text(par)[:80], f.text(n["sub"])[:40], f.text(other)[:40]))
        # (b) locals whose deduced type is a 32-bit int but that are assigned wider values
        for d in f.all("decl"):
            for v in f.nodes[d].get("vars", []):
                if v.get("tw") not in ("i32", "u32"):
                    continue
                for w in local_writes(f, v["name"]):
                    r = f.nodes[f.strip(write_rhs(f, w))] if write_rhs(f, w) >= 0 else None
                    if r is None:
                        continue
                    rt = r.get("fromtw") if r["k"] == "cast" else r.get("tw")
                    if r["k"] == "cast" and r.get("implicit") and (bits(r.get("fromtw")) or 0) > 32 or (r["k"] == "cast" and r.get("ck") == "FloatingToIntegral"):
                        pass    # already reported by (a)
    ctx.ok("narrowing-scan", "E-TYPE narrowing", "-", "%d functions/closures scanned for implicit 64->32 and float->int conversions" % len(fns))

    # deduced types of the totals in kill_by_swap_usage
    for f in P.fns.values():
        if f.pq == "Oomd::KillSwapUsage::init":
            for nm in ("swapTotal", "memTotal"):
                init, v = local_init(f, nm)
                ctx.count("swap_totals")
                ctx.check(v is not None and v.get("tw") in ("i64", "u64"), "swap-totals-64bit:" + nm, "E-TYPE deduced type", f.loc(),
                          "%s is a 64-bit integer" % nm, "%s is deduced as %s: SwapTotal/MemTotal of 2 GiB or more are truncated" % (nm, v.get("type") if v else "?"))
            for l in P.lambdas_in(f):
                for i in l.calls("Util::parseSizeOrPercent"):
                    a = l.nodes[i]["args"]
                    t = l.nodes[l.strip(a[2])]
                    ctx.check(t.get("tw") in ("i64", "u64"), "percent-of-64bit-total", "E-TYPE", l.loc(i), "the percent base handed to parseSizeOrPercent is 64-bit",
                              "percent threshold is computed from a %s total" % t.get("type"))
    ctx.floor("swap_totals", 2, "SwapTotal/MemTotal locals in KillSwapUsage::init")

    # ---- parser / destination agreement in the kill plugins (shared rule with C12)
    from .C12 import scalar_class
    n_reg = 0
    for f in fns:
        for i in f.calls("PluginArgParser::addArgumentCustom"):
            n = f.nodes[i]
            if len(n.get("args", [])) < 3:
                continue
            dest_t = f.nodes[f.strip(n["args"][1])].get("type", "")
            ret_t = None
            for x in f.walk(n["args"][2]):
                m = f.nodes[x]
                if m["k"] == "lambda":
                    for u in P.resolve(m["lusr"]):
                        ret_t = P.fns[u].d.get("ret")
                elif m["k"] == "ref" and m.get("dk") == "func":
                    for u in P.resolve(m.get("usr", "")):
                        ret_t = P.fns[u].d.get("ret")
                    if ret_t is None and "parseValue" in m.get("qname", ""):
                        ret_t = dest_t
            n_reg += 1
            dc, dw = scalar_class(dest_t)
            rc, rw = scalar_class(ret_t or "")
            bad = None
            if ret_t is None:
                ctx.broken("parser-dest:%s:%s" % (short(f), f.text(n["args"][0])[:30]), "E-TYPE", f.loc(i), "cannot determine parser result type")
                continue
            if dc == "float" and rc in ("int", "uint"):
                bad = "an integer parser (%s) fills the fractional destination %s" % (ret_t, dest_t)
            elif dc in ("int", "uint") and rc in ("int", "uint") and rw and dw and rw > dw:
                bad = "a %d-bit parser result is narrowed into a %d-bit destination" % (rw, dw)
            elif dc in ("int", "uint") and rc == "float":
                bad = "a floating parser result is truncated into an integer destination"
            arg = re.sub(r'.*?"([^"]+)".*', r"\1", f.text(n["args"][0]))
            ctx.check(bad is None, "parser-dest:%s:%s" % (short(f), arg), "E-TYPE parser/destination", f.loc(i), "parser %s -> destination %s" % (ret_t, dest_t), bad or "")
    ctx.counters["kill_plugin_custom_args"] = n_reg
    ctx.floor("kill_plugin_custom_args", 4, "addArgumentCustom registrations in kill plugins")

    # ---- metric table
    def rank_lambdas(cls):
        res = []
        for f in P.fns.values():
            if f.pq == "Oomd::%s::rankForKilling" % cls:
                # the closures that rank or filter a candidate: they take the cgroup context (helper closures over other types do not)
                res.append((f, [l_ for l_ in P.lambdas_in(f) if not l_.params or "CgroupContext" in (l_.params[0].get("type") or "")]))
        return res
    # kill_by_io_cost
    for f, ls in rank_lambdas("KillIOCost"):
        # the closure's parameter is the candidate, whatever it is called
        keys = [re.sub(r"^%s\b" % re.escape(l.params[0]["name"]), "cgroup_ctx", ret_text(l, r)) if l.params else ret_text(l, r) for l in ls for r in returns(l)]
        ctx.check(keys == ["cgroup_ctx.io_cost_rate(nullptr).value_or(0)"], "metric:kill_by_io_cost", "value-shape", f.loc(), "ranks by io_cost_rate", "ranks by " + str(keys))
    # kill_by_pg_scan
    for f, ls in rank_lambdas("KillPgScan"):
        # `0 < rate` is `rate > 0` with the operands mirrored
        keys = sorted(re.sub(r"^\(0 < (.*)\)$", r"(\1 > 0)", ret_text(l, r)) for l in ls for r in returns(l))
        ctx.check(keys == ["(cgroup_ctx.pg_scan_rate(nullptr).value_or(0) > 0)", "cgroup_ctx.pg_scan_rate(nullptr).value_or(0)"], "metric:kill_by_pg_scan", "value-shape", f.loc(),
                  "ranks by pg_scan_rate among cgroups with a positive rate", "key/filter are " + str(keys))
        X = Expander(P, f)
        for r in returns(f):
            t = X(f.nodes[r]["val"])
            ctx.check("Oomd::Util::filter(param:cgroups" in t, "eligibility:kill_by_pg_scan", "value-shape", f.loc(r), "only cgroups passing the filter are ranked", "ranked set is " + t[:80])
    # kill_by_swap_usage
    for f, ls in rank_lambdas("KillSwapUsage"):
        texts = []
        for l in ls:
            texts.append([l.text(v) for _r, v in return_leaves(l)])
        flt = [t for t in texts if t == ["(cgroup_ctx.swap_usage(nullptr).value_or(0) > this->threshold_)"]]
        key = [t for t in texts if sorted(t) == sorted(["this->getSwapExcess(cgroup_ctx)", "cgroup_ctx.swap_usage(nullptr).value_or(0)"])]
        ctx.check(len(flt) == 1, "eligibility:kill_by_swap_usage", "value-shape", f.loc(), "only cgroups with swap usage strictly above the threshold are eligible", "filters are " + str(texts))
        ctx.check(len(key) == 1, "metric:kill_by_swap_usage", "value-shape", f.loc(), "ranks by swap usage, or by the swap excess when biased", "keys are " + str(texts))
        for l in ls:
            fl = Flow(P, l, cg=cg)
            for _r, r in return_leaves(l):
                if "getSwapExcess" in l.text(r):
                    ctx.check(has_fact(fl.guards(r), True, "this->biasedSwapKill_"), "metric:swap-excess-only-when-biased", "guarded_by", l.loc(r), "the excess is the key only with biased_swap_kill", "excess used without biased_swap_kill")
        X = Expander(P, f)
        for r in returns(f):
            ctx.check("Oomd::Util::filter(param:cgroups" in X(f.nodes[r]["val"]), "eligibility:kill_by_swap_usage:applied", "value-shape", f.loc(r), "the filter is applied before ranking", "filter not applied")
    # kill_by_pressure
    for f, ls in rank_lambdas("KillPressure"):
        for l in ls:
            fl = Flow(P, l, cg=cg)
            # where the key comes from: a local that is returned (its assignments), or the returns themselves
            rl = {ret_text(l, r) for r in returns(l)}
            keyvar = next((t_ for t_ in rl if re.match(r"^\w+$", t_) and local_init(l, t_, must=False)[1] is not None and local_writes(l, t_, must=False)), None)
            if keyvar is not None:
                srcs = [(w, write_rhs(l, w)) for w in local_writes(l, keyvar)]
                init, v = local_init(l, keyvar)
                frac = v is not None and v.get("tw", "").startswith("f")
                ftype = v.get("type") if v else "?"
            else:
                srcs = [(r, leaf) for r, leaf in return_leaves(l) if l.text(leaf) not in ("0", "0.0", "0.F", "0.0F")]
                frac = any(x in (l.d.get("ret") or "") for x in ("float", "double"))
                ftype = l.d.get("ret")
            ctx.count("pressure_mean_writes", len(srcs))
            ctx.check(frac, "metric:kill_by_pressure:key-is-fractional", "E-TYPE deduced type", l.loc(), "the mean is kept as a floating value",
                      "the mean pressure is stored in %s" % ftype)
            for w, rhs_n in srcs:
                rhs = l.text(rhs_n)
                g = fl.guards(rhs_n if l.pos_of(rhs_n) is not None else w)
                case = [p for k, p in g if isinstance(p, str) and p.startswith("case:")]
                src = "io_pressure" if "case:IO" in case else "mem_pressure" if "case:MEMORY" in case else None
                norm = re.sub(r"pressure@\d+", "pressure", rhs).replace("->->", "->")
                okm = re.match(r"^\(\(pressure->sec_10 / 2\) \+ \(pressure->sec_60 / 2\)\)$", norm) is not None
                if not okm:
                    # the mean may be computed by a one-expression closure / new helper: expand it (the pressure local expands with it)
                    ex_ = Expander(P, l)(rhs_n).replace("->->", "->")
                    m_ = re.match(r"^\(?\(\(\*?(.+?)(?:->|\.)sec_10 / 2\) \+ \(\*?(.+?)(?:->|\.)sec_60 / 2\)\)\)?$", ex_)
                    okm = m_ is not None and m_.group(1) == m_.group(2) and re.search(r"\.(io|mem)_pressure\((nullptr)?\)$", m_.group(1)) is not None
                    if okm:
                        rhs = ex_
                ctx.check(okm, "metric:kill_by_pressure:mean-of-10s-and-60s", "value-shape", l.loc(w),
                          "key = sec_10/2 + sec_60/2", "key = " + rhs + ("" if okm else " (expanded: %s)" % Expander(P, l)(rhs_n).replace("->->", "->")[:160]))
                where_ = ""
                if src is None:
                    # what the pressure local holds, so that a helper standing between the switch and the mean is named in the finding
                    inits_ = [l.text(v_["init"]) for d_ in l.all("decl") for v_ in l.nodes[d_].get("vars", []) if v_["name"].startswith("pressure") and v_.get("init") is not None and v_.get("init", -1) >= 0]
                    where_ = " (the pressure read is %s)" % "; ".join(inits_)[:160] if inits_ else ""
                ctx.check(src is not None, "metric:kill_by_pressure:resource-case", "switch_table", l.loc(w), "mean computed under the configured resource's case", "mean assigned outside a resource case" + where_)
            if keyvar is not None:
                for r in returns(l):
                    ctx.check(ret_text(l, r) == keyvar, "metric:kill_by_pressure:returns-mean", "return_table", l.loc(r), "the key returned is the mean", "returns " + ret_text(l, r))
            # each case reads the pressure of its resource
            for d in l.all("decl"):
                for vv in l.nodes[d].get("vars", []):
                    if vv["name"] == "pressure" and "init" in vv and l.pos_of(d) is not None:
                        g = fl.guards(d)
                        case = [p for k, p in g if isinstance(p, str) and p.startswith("case:")]
                        t = l.text(vv["init"])
                        want = "io_pressure" if "case:IO" in case else "mem_pressure"
                        ctx.check(("cgroup_ctx.%s(" % want) in t, "metric:kill_by_pressure:%s" % (case[0] if case else "?"), "switch_table", l.loc(d),
                                  "%s reads %s" % (case[0] if case else "?", want), "%s reads %s" % (case, t))
    ctx.floor("pressure_mean_writes", 2, "mean computations in kill_by_pressure")
    # kill_by_memory_size_or_growth
    for f in P.fns.values():
        if f.pq != "Oomd::KillMemoryGrowth::get_ranking_fn":
            continue
        ls = [l for l in P.lambdas_in(f) if l.calls("make_tuple")]
        ctx.check(len(ls) == 1, "metric:kmg:ranking-closure", "anchor", f.loc(), "one ranking closure", "expected one ranking closure")
        for l in ls:
            ctx.use(l)
            X = Expander(P, l)
            for i in l.calls("make_tuple"):
                a = [l.text(x) for x in l.nodes[i]["args"]]
                ctx.check(a == ["(size_phase_eligible ? effective_usage : 0)", "(growth_phase_eligible ? growth_ratio : 0)", "effective_usage"], "metric:kmg:tuple-order", "value-shape", l.loc(i),
                          "rank tuple is (size-phase usage, growth-phase ratio, usage)", "rank tuple is " + str(a))
            exp = {"size_phase_eligible": r"^\(size_threshold_in_bytes <= current_usage\)$|^\(current_usage >= size_threshold_in_bytes\)$",
                   "growth_phase_eligible": r"^\(\(growth_ratio >= this->min_growth_ratio_\) && \(effective_usage >= growth_kill_min_effective_usage_threshold\)\)$",
                   "current_usage": r"^cgroup_ctx\.current_usage\(nullptr\)\.value_or\(0\)$",
                   "effective_usage": r"^cgroup_ctx\.effective_usage\(nullptr.*\)\.value_or\(0\)$",
                   "growth_ratio": r"^cgroup_ctx\.memory_growth\(nullptr\)\.value_or\(0\)$"}
            for nm, rx in exp.items():
                init, v = local_init(l, nm)
                ctx.check(v is not None and re.match(rx, l.text(init)) is not None, "metric:kmg:" + nm, "value-shape", l.loc(),
                          nm + " follows the documented definition", "%s = %s" % (nm, l.text(init) if v else "?"))
            init, v = local_init(l, "growth_ratio")
            ctx.check(v is not None and v.get("tw", "").startswith("f"), "metric:kmg:growth-ratio-fractional", "E-TYPE deduced type", l.loc(), "growth ratio is floating", "growth ratio stored as %s" % (v.get("type") if v else "?"))
        init, v = local_init(f, "size_threshold_in_bytes")
        ctx.check(v is not None and v.get("tw") == "i64" and "size_threshold_" in f.text(init) and "/ 100" in f.text(init), "metric:kmg:size-threshold", "value-shape", f.loc(),
                  "size threshold = siblings' total * size_threshold%% in 64 bits", "size threshold is " + (f.text(init) if v else "?"))
    # discretised fractions (percentile cut-off): ceil/floor/round only of exactly representable values
    from ..misc import exactness
    n_disc = 0
    for f in fns:
        for i in f.calls("ceil", "floor", "round", "lround", "llround", "trunc", "std::ceil", "std::floor", "std::round"):
            if f.nodes[i].get("cname") not in ("ceil", "floor", "round", "lround", "llround", "trunc") or not f.nodes[i].get("args"):
                continue
            n_disc += 1
            e = exactness(f, f.nodes[i]["args"][0])
            ctx.check(e in ("INT", "QUOT"), "discretised-fraction-exact:%s@%s" % (short(f), f.nodes[i]["cname"]), "E-TYPE exactness domain (INT/QUOT/INEXACT)", f.loc(i),
                      "%s() is applied to one correctly rounded quotient of exact integers: the cut-off index equals the real-number formula" % f.nodes[i]["cname"],
                      "%s() is applied to an inexactly computed value (%s): a rounding error of one ulp moves the cut-off by a whole sibling for some "
                      "(percentile, sibling count) pairs" % (f.nodes[i]["cname"], f.text(f.nodes[i]["args"][0])[:120]))
    # the cut-off index itself: either one of the discretised fractions above or pure integer arithmetic
    for f in fns:
        if f.pq != "Oomd::KillMemoryGrowth::get_ranking_fn":
            continue
        init, v = local_init(f, "nth")
        if v is not None and init is not None and init >= 0:
            has_disc = any(f.nodes[x]["k"] == "call" and f.nodes[x].get("cname") in ("ceil", "floor", "round", "lround", "llround", "trunc") for x in f.walk(init))
            if not has_disc:
                n_disc += 1
                e = exactness(f, init)
                ctx.check(e in ("INT", "QUOT"), "discretised-fraction-exact:%s@nth" % short(f), "E-TYPE exactness domain (INT/QUOT/INEXACT)", f.loc(init),
                          "the cut-off index is computed in integer arithmetic", "the cut-off index is a truncated inexact floating value (%s)" % f.text(init)[:120])
    ctx.counters["discretised_fractions"] = n_disc
    ctx.floor("discretised_fractions", 1, "ceil/floor sites or integer cut-off in the ranking scope (growing_size_percentile cut-off)")
    # percent thresholds (kill_by_swap_usage 'threshold=N%'): the conversion the plugins' parsers delegate to is exact
    pp = ctx.fn1("Oomd::Util::parseSizeOrPercent")
    users = [f for f in fns if f.calls("Util::parseSizeOrPercent")]
    ctx.counters["percent_threshold_parsers"] = len(users)
    ctx.floor("percent_threshold_parsers", 1, "kill-plugin argument parsers that delegate to Util::parseSizeOrPercent")
    ctx.use(pp)
    outw = [i for i, n in enumerate(pp.nodes) if n["k"] == "bin" and n.get("op") == "=" and pp.pos_of(i) is not None and pp.text(n["l"]).replace(" ", "") in ("*output", "(*output)")]
    for i in outw:
        e = exactness(pp, pp.nodes[i]["r"])
        ctx.check(e in ("INT", "QUOT"), "percent-threshold-exact@%d" % pp.nodes[i].get("line", 0), "E-TYPE exactness domain (INT/QUOT/INEXACT)", pp.loc(i),
                  "the threshold in bytes is computed exactly (at most one truncating division, as the last step)",
                  "'%s' divides before it multiplies: 'N%%' of a total that is not a multiple of the divisor comes out too low and a cgroup exactly at the "
                  "threshold passes the 'above threshold' filter" % pp.text(pp.nodes[i]["r"])[:80])
    # the common ranking helper orders by (preference, key): inside a preference class the documented metric decides
    from .C03 import ranking_comparator
    ranking_comparator(ctx)
    # min_growth_ratio_ destination is floating
    kc = P.classes.get("Oomd::KillMemoryGrowth<Oomd::BaseKillPlugin>") or next((c for q, c in P.classes.items() if q.startswith("Oomd::KillMemoryGrowth")), None)
    if kc:
        fld = {x["name"]: x for x in kc.get("fields", [])}
        ctx.check(fld.get("min_growth_ratio_", {}).get("type") in ("float", "double"), "metric:kmg:min-growth-ratio-type", "E-TYPE", "oomd/plugins/KillMemoryGrowth.h", "min_growth_ratio_ is floating",
                  "min_growth_ratio_ has type " + str(fld.get("min_growth_ratio_", {}).get("type")))
