"""C01 Kill containment (DESIGN 4/C01)."""
import re
from .common import *

EXPLANATION = (
    "Decides, for every cgroup tree / configuration / history at once: (i) the only signalling, "
    "reaping, cgroup.kill/freeze and xattr-write sites of the whole library are the known ones in "
    "BaseKillPlugin (who-may-call over all 44 units) and the signal is the constant SIGKILL; "
    "(ii) the pid handed to kill(2) can only be a line of a cgroup.procs opened with openat() on the "
    "victim's held directory fd, or on that of a child obtained through "
    "addChildToCacheAndGet(victim, name in victim.children()); (iii) the pid is positive on every path "
    "to kill(2); (iv) a victim is always a KillCandidate built from rankForKilling(addToCacheAndGet("
    "cgroups_)), from rankForKilling(addChildrenToCacheAndGet(candidate)) under the recursive guard, "
    "or re-resolved by (path, inode id); every rankForKilling override returns a permutation/subset "
    "of its input; control files and xattrs written derive from the same victim; (v) one invocation "
    "stops at the first victim with a signalled process; (vi) no configured pattern can be empty "
    "(an empty pattern is the root cgroup): pieces of the 'cgroup' argument are used as Util::split "
    "produced them, or tested for emptiness, and Util::split emits no empty piece.  Provenance is decided on expression "
    "shape after substituting single-definition locals (Expander).  Not decided: that the xattr "
    "write (by path) lands on the same cgroup across a re-creation history; kernel semantics of "
    "cgroup.kill.")
RULE_SUMMARY = "E-EFFECT who-may-call, argument provenance by expression expansion, guard dominance, never-after"
NOT_DECIDED = ["xattr writes by path across cgroup re-creation (TOCTOU over histories)",
               "kernel semantics of cgroup.kill / cgroup.freeze"]
ASSUMPTIONS = ["libc kill/syscall/setxattr act only on their arguments",
               "CgroupContext::children() lists names of the directory behind the held fd"]

# sink -> set of functions (plain qualified names, closures by enclosing function) allowed to call it
SINKS = {
    "kill": {"Oomd::BaseKillPlugin::tryToKillPids"},
    "syscall": {"(anonymous namespace)::pidfd_open", "(anonymous namespace)::process_mrelease",
                "pidfd_open", "process_mrelease"},
    "pthread_kill": {"Oomd::Oomd::run", "Oomd::timed_invoke"},
    "tgkill": set(), "killpg": set(), "sigqueue": set(), "raise": set(), "pthread_cancel": set(),
    "pidfd_send_signal": set(), "abort_handler": set(),
    "setxattr": {"Oomd::Fs::setxattr"}, "fsetxattr": set(), "lsetxattr": set(),
    "removexattr": set(), "fremovexattr": set(), "lremovexattr": set(),
    "Oomd::Fs::setxattr": {"Oomd::BaseKillPlugin::setxattr"},
    "Oomd::Fs::writeKillAt": {"Oomd::BaseKillPlugin::tryToKillCgroup"},
    "Oomd::Fs::writeFreezeAt": {"Oomd::BaseKillPlugin::tryToKillCgroup"},
    "(anonymous namespace)::pidfd_open": {"Oomd::BaseKillPlugin::reapProcess"},
    "(anonymous namespace)::process_mrelease": {"Oomd::BaseKillPlugin::reapProcess"},
    "Oomd::BaseKillPlugin::tryToKillPids": {"Oomd::BaseKillPlugin::getAndTryToKillPids"},
    "Oomd::BaseKillPlugin::getAndTryToKillPids": {"Oomd::BaseKillPlugin::tryToKillCgroup",
                                                  "Oomd::BaseKillPlugin::getAndTryToKillPids"},
    "Oomd::BaseKillPlugin::reapProcess": {"Oomd::BaseKillPlugin::reapCgroupRecursively"},
    "Oomd::BaseKillPlugin::reapCgroupRecursively": {"Oomd::BaseKillPlugin::tryToKillCgroup",
                                                    "Oomd::BaseKillPlugin::reapCgroupRecursively"},
    "Oomd::BaseKillPlugin::tryToKillCgroup": {"Oomd::BaseKillPlugin::tryToLogAndKillCgroup"},
    "Oomd::BaseKillPlugin::tryToLogAndKillCgroup": {"Oomd::BaseKillPlugin::resumeTryingToKillSomething",
                                                    "Oomd::BaseKillPlugin::resumeFromPrekillHook"},
    "Oomd::BaseKillPlugin::setxattr": {"Oomd::BaseKillPlugin::reportKillInitiationToXattr",
                                       "Oomd::BaseKillPlugin::reportKillCompletionToXattr",
                                       "Oomd::BaseKillPlugin::reportKillUuidToXattr"},
    "Oomd::BaseKillPlugin::reportKillInitiationToXattr": {"Oomd::BaseKillPlugin::tryToKillCgroup"},
    "Oomd::BaseKillPlugin::reportKillCompletionToXattr": {"Oomd::BaseKillPlugin::tryToKillCgroup"},
    "Oomd::BaseKillPlugin::reportKillUuidToXattr": {"Oomd::BaseKillPlugin::tryToKillCgroup"},
    "Oomd::Fs::writeControlFileAt": {"Oomd::Fs::writeMemhighAt", "Oomd::Fs::writeMemhightmpAt",
                                     "Oomd::Fs::writeMemReclaimAt", "Oomd::Fs::writeFreezeAt",
                                     "Oomd::Fs::writeKillAt", "Oomd::Fs::setSwappiness"},
}
MUST_EXIST = ["kill", "syscall", "Oomd::Fs::writeKillAt", "Oomd::Fs::writeFreezeAt", "Oomd::Fs::setxattr",
              "Oomd::BaseKillPlugin::tryToKillPids", "Oomd::BaseKillPlugin::tryToKillCgroup",
              "Oomd::BaseKillPlugin::tryToLogAndKillCgroup", "Oomd::BaseKillPlugin::setxattr"]


def owner(prog, f):
    """Plain name of the nearest enclosing named function (closures -> their creator)."""
    hops = 0
    while f.kind == "lambda" and f.d.get("parentfn") in prog.fns and hops < 6:
        f = prog.fns[f.d["parentfn"]]
        hops += 1
    return f.pq


CHILD = r"\*param:target\.oomd_ctx\(\)\.addChildToCacheAndGet\(param:target, elem\(\*param:target\.children\([^)]*\)\)\)"


def configured_patterns(ctx):
    """(vi) the configured patterns are the comma-separated pieces of the 'cgroup' argument: a piece that was transformed after
    the split (trimmed, unescaped, ...) can have become empty, and an empty pattern is the ROOT cgroup."""
    P, cg = ctx.prog, ctx.cg
    pc = ctx.fn1("Oomd::PluginArgParser::parseCgroup")
    ctx.anchor(pc, "cgroupStr")
    X = Expander(P, pc, mark_modified=True)
    fl = Flow(P, pc, cg=cg)
    sites = [i for i in pc.calls("emplace", "insert", "emplace_back", "push_back") if len(pc.nodes[i].get("args", [])) >= 1] + \
            [i for i, n in enumerate(pc.nodes) if n["k"] == "construct" and "CgroupPath" in n.get("type", "") and len(n.get("args", [])) == 2 and pc.pos_of(i) is not None]
    n = 0
    for i in sites:
        a = pc.nodes[i]["args"]
        pat = a[-1]
        t = X(pat)
        if "split(" not in t and "cgroupStr" not in t:
            continue
        n += 1
        raw = pc.text(pat)
        verbatim = re.match(r"^elem\(Oomd::Util::split\(param:cgroupStr, 44\)\)$", t) is not None
        guarded = has_fact(fl.guards(i), False, raw + ".empty()") or any(p is True and k in ("(0 < %s.size())" % raw, "(%s.size() > 0)" % raw) for k, p in fl.guards(i))
        ctx.check(verbatim or guarded, "configured-pattern-never-empty:parseCgroup", "provenance + guarded_by", pc.loc(i),
                  "each pattern is a piece of Util::split(cgroup argument, ',') as produced (non-empty by construction) or is tested for emptiness",
                  "the pattern '%s' (= %s) was changed after the split and is not tested for emptiness: a blank piece becomes CgroupPath(fs, \"\"), the ROOT "
                  "cgroup, which then is a kill candidate although no configured pattern names it" % (raw, t[:90]), witness_path(pc, fl, i))
    ctx.counters["configured_pattern_sites"] = n
    ctx.floor("configured_pattern_sites", 1, "CgroupPath constructions from the cgroup argument in parseCgroup")
    # Util::split never emits an empty piece (so a verbatim piece is non-empty)
    sp = ctx.fn1("Oomd::Util::split")
    n_emit = 0
    for g in [sp] + list(P.lambdas_in(sp)):
        fg = Flow(P, g, cg=cg)
        for i in g.calls("emplace_back", "push_back"):
            if g.text(g.nodes[i].get("recv", -1)) not in ("ret",):
                continue
            n_emit += 1
            gs = fg.guards(i)
            # the emitted range [a, b) is non-empty: a length that is true / non-zero, or a != b for the two ends of the emitted range
            ends = [g.text(x) for x in g.nodes[i].get("args", [])][:2]
            ends = [re.sub(r"^\(?\w+\.begin\(\) \+ (\w+)\)?$", r"\1", e_) for e_ in ends]
            ne_keys = set()
            if len(ends) == 2 and all(re.match(r"^\w+$", e_) for e_ in ends):
                a_, b_ = ends
                ne_keys = {"(%s == %s)" % (a_, b_), "(%s == %s)" % (b_, a_)}
            nonempty = any(p is True and k in ("len", "(0 < len)", "(len != 0)", "(0 != len)", "(beg < end)", "(beg != end)", "(end != beg)") for k, p in gs) or \
                any(p is False and (k in ("(0 == len)", "(beg == end)", "(end == beg)", "(len == 0)") or k in ne_keys) for k, p in gs) or \
                any(p is True and re.match(r"^\w+$", k) and re.match(r"^\(?\(?%s - %s\)?\)?$" % tuple(map(re.escape, ends[::-1])), g.text(local_init(g, k, must=False)[0]) if local_init(g, k, must=False)[1] else "") for k, p in gs if len(ends) == 2)
            ctx.check(nonempty, "split-emits-no-empty-piece", "guarded_by", g.loc(i), "Util::split emits a piece only when it is non-empty",
                      "Util::split can emit an empty piece (guards: %s)" % sorted(gs, key=str))
    ctx.counters["split_emit_sites"] = n_emit
    ctx.floor("split_emit_sites", 1, "emission sites in Util::split")


def child_context_summary(ctx):
    """The rules below trust addChildToCacheAndGet(parent, name) to hand out THE child 'name' of 'parent': every context it returns is
    the cache entry keyed by the path of the context createChildCgroupCtx(name) opened below the parent's own fd, or by
    parent.cgroup().getChild(name) - never by the bare name."""
    P = ctx.prog
    f = ctx.fn1("Oomd::OomdContext::addChildToCacheAndGet")
    ctx.anchor(f, "cgroup_ctx", "child")
    X = Expander(P, f)
    OWN = "param:cgroup_ctx.createChildCgroupCtx(param:child)->cgroup()"
    KEYS = (OWN, "param:cgroup_ctx.cgroup().getChild(param:child)")
    n = 0
    for i in f.calls("find", "at", "emplace", "try_emplace", "operator[]", "insert", "insert_or_assign", "contains", "count"):
        if "cgroups_" not in f.text(f.nodes[i].get("recv", -1)) or not f.nodes[i].get("args"):
            continue
        n += 1
        k = X(f.nodes[i]["args"][0])
        ctx.check(k in KEYS, "child-context-is-the-parents-child:key@%d" % f.nodes[i].get("line", 0), "provenance (cache key)", f.loc(i),
                  "the context cache is addressed by the child's full path (parent path + name)",
                  "the context cache is addressed with '%s' in addChildToCacheAndGet: a child NAME that equals the path of another cached cgroup (a container's "
                  "inner system.slice vs the host's) returns that other cgroup's context, and the kill walks and signals the wrong subtree" % k[:110])
    for r in returns(f):
        t = X(f.nodes[r]["val"]) if "val" in f.nodes[r] else ""
        if t in ("std::nullopt", "{}", ""):
            continue
        n += 1
        ok_ = ("this->cgroups_.emplace(%s, *param:cgroup_ctx.createChildCgroupCtx(param:child))" % OWN) in t or any(("this->cgroups_.find(%s)" % k_) in t or ("this->cgroups_.at(%s)" % k_) in t for k_ in KEYS)
        ctx.check(ok_, "child-context-is-the-parents-child:return@%d" % f.nodes[r].get("line", 0), "provenance (returned context)", f.loc(r),
                  "the context returned is the cache entry of the child opened below the parent's fd", "returns " + t[:140])
    ctx.counters["child_context_sites"] = n
    ctx.floor("child_context_sites", 2, "cache accesses / value returns in addChildToCacheAndGet")
    cc = ctx.fn1("Oomd::CgroupContext::createChildCgroupCtx")
    ctx.use(cc)
    Xc = Expander(P, cc)
    opens = [i for i in cc.calls("openChildDir", "Fs::DirFd::openChildDir", "openat", "DirFd::openChildDir")]
    ctx.check(any("cgroup_dir_" in Xc(cc.nodes[i].get("recv", cc.nodes[i]["args"][0] if cc.nodes[i].get("args") else -1)) or any("cgroup_dir_" in Xc(a) for a in cc.nodes[i].get("args", [])) for i in opens) and bool(opens),
              "child-context-opened-below-parent-fd", "provenance", cc.loc(), "createChildCgroupCtx opens the child relative to the parent's held directory fd",
              "createChildCgroupCtx does not open the child relative to cgroup_dir_")


def children_are_direct(ctx):
    """OomdContext::addChildrenToCacheAndGet(c) hands out the DIRECT children of c and nothing else: every child context comes from
    addChildToCacheAndGet(c, name) with name drawn from c.children().  (The kill walk descends one level per step and stops at a
    memory.oom.group cgroup by testing each level it is handed; a helper that skips levels would take those tests away - shared by C01
    and C03.)  Closures inside the function are followed: a closure parameter has to be bound to c at every call of the closure."""
    P = ctx.prog
    f = ctx.fn1("Oomd::OomdContext::addChildrenToCacheAndGet")
    ctx.use(f)
    if len(f.params) != 1:
        ctx.broken("children-are-direct", "anchor", f.loc(), "addChildrenToCacheAndGet no longer takes one parameter")
        return
    pn = f.params[0]["name"]
    scope, stack = [f], list(P.lambdas_in(f))
    while stack:
        l = stack.pop()
        scope.append(l)
        stack.extend(P.lambdas_in(l))

    def bound_to_parent(g, node):
        """does expression `node` of g denote the function's parameter c?"""
        t = Expander(P, g)(node)
        if t == "param:" + pn and (g is f or not any(p_["name"] == pn for p_ in g.params)):
            return True
        m = re.match(r"^param:(\w+)$", t)
        if g is f or not m:
            return False
        own = [k for k, p_ in enumerate(g.params) if p_["name"] == m.group(1)]
        if not own:
            return False
        # the closure's own parameter: every call of the closure passes c there
        holder = None
        par = P.fns.get(g.d.get("parentfn"))
        if par is None:
            return False
        for d_ in par.all("decl"):
            for v_ in par.nodes[d_].get("vars", []):
                if v_.get("init") is not None and v_.get("init", -1) >= 0 and any(par.nodes[y].get("lusr") == g.usr for y in par.walk(v_["init"])):
                    holder = v_["name"]
        if holder is None:
            return False
        sites = [i for i in par.calls() if par.nodes[i].get("op") == "()" and par.text(par.nodes[i].get("recv", -1)) == holder]
        return bool(sites) and all(len(par.nodes[i].get("args", [])) > own[0] and bound_to_parent(par, par.nodes[i]["args"][own[0]]) for i in sites)
    n = 0
    for g in scope:
        for i in g.calls("addChildToCacheAndGet"):
            n += 1
            a = g.nodes[i].get("args", [])
            ctx.check(bool(a) and bound_to_parent(g, a[0]), "children-are-direct:parent@%d" % g.nodes[i].get("line", 0), "provenance", g.loc(i),
                      "child contexts are created below the cgroup that was asked for",
                      "addChildrenToCacheAndGet creates child contexts below %s, not (only) below its argument: it can hand out cgroups that are not direct "
                      "children, so the kill walk skips levels - and with them the memory.oom.group test of the skipped cgroups" % (Expander(P, g)(a[0]) if a else "?"))
            nm = Expander(P, g)(a[1]) if len(a) > 1 else ""
            m = re.match(r"^elem\(\*(.+)\.children\([^)]*\)\)$", nm) or re.match(r"^elem\((.+)\.children\([^)]*\)\.value\(\)\)$", nm)
            okn = False
            if m:
                for j in g.calls("children"):
                    if "recv" in g.nodes[j] and bound_to_parent(g, g.nodes[j]["recv"]):
                        okn = True
            ctx.check(okn, "children-are-direct:name@%d" % g.nodes[i].get("line", 0), "provenance", g.loc(i),
                      "the child names are the entries of that cgroup's children()", "child name is " + nm[:100])
    ctx.counters["child_creation_sites"] = n
    ctx.floor("child_creation_sites", 1, "addChildToCacheAndGet calls in addChildrenToCacheAndGet")



def candidates_come_from_ranking(ctx):
    """Every KillCandidate is an element of what the plugin's own rankForKilling returned (for the configured cgroups, or for the children of
    the candidate being descended into), or the re-resolved serialised victim of a deferred kill.  rankForKilling is where a plugin's
    eligibility filter lives (kill_by_swap_usage, kill_by_pg_scan): a candidate built past it was never filtered.  Shared by C01 and C09."""
    P = ctx.prog
    # ------------------------------------------------------------ R10 KillCandidate construction sites
    PAT = [
        ("initial", r"^\{elem\(\*std::make_shared\(this->rankForKilling\(param:ctx, param:initialCgroups\)\)\), "),
        ("children", r"^\{elem\(\*std::make_shared\(this->rankForKilling\(param:ctx, param:ctx\.addChildrenToCacheAndGet\("
                     r"param:nextBestOptionStack\.back\(\)\.cgroupCtx\.get\(\)\)\)\)\), "),
        ("deserialised", r"^\{\*deserializeCgroupRef\(param:skc\.target\), "),
    ]
    seen = set()
    for f in P.fns.values():
        if "BaseKillPlugin" not in f.qname:
            continue
        Xk = None
        for i, n in enumerate(f.nodes):
            t = n.get("type", "")
            if n["k"] != "initlist" or not t.endswith("KillCandidate") or "Serialized" in t:
                continue
            Xk = Xk or Expander(P, f)
            txt = Xk(i)
            ctx.use(f)
            which = next((nm for nm, p in PAT if re.match(p, txt)), None)
            ctx.count("killcandidate_sites")
            if which:
                seen.add(which)
                ctx.ok("candidate-source:" + which, "provenance", f.loc(i), "KillCandidate built from " + which)
            else:
                ctx.violation("candidate-source:other:" + owner(P, f).replace("Oomd::", ""), "provenance", f.loc(i),
                              "KillCandidate built from an unlisted source: " + txt[:200])
    ctx.floor("killcandidate_sites", 3, "KillCandidate construction sites")
    for nm, _ in PAT:
        if nm not in seen:
            ctx.broken("candidate-source-missing:" + nm, "anchor", "-", "expected construction site '%s' not found" % nm)

def run(ctx):
    # 'the victim is a cgroup matched by the configured patterns': what a pattern resolves to is glob(3)'s shell-glob answer (shared with C16 / C11)
    from .C16 import resolve_rule
    resolve_rule(ctx)
    from .C16 import components_come_from_split
    components_come_from_split(ctx)
    from .C07 import deferred_victim_is_the_selected_candidate
    deferred_victim_is_the_selected_candidate(ctx)
    from .C12 import one_name_per_destination
    one_name_per_destination(ctx)
    from .C15 import cached_slot_types_agree
    cached_slot_types_agree(ctx)
    from .C15 import refresh_keeps_nothing
    refresh_keeps_nothing(ctx)          # the cached inode id is re-read every tick: the (path, id) re-resolution of a deferred victim relies on it
    borrowed_fd_not_consumed(ctx)
    children_are_direct(ctx)
    from .C11 import instance_action_args
    instance_action_args(ctx)
    configured_patterns(ctx)
    child_context_summary(ctx)
    # locals / parameters the rules below refer to by name (a rename makes the analysis 'broken', never a violation)
    ctx.anchor(ctx.fn1('Oomd::BaseKillPlugin::tryToKillPids'), 'pids', 'pid')
    ctx.anchor(ctx.fn1('Oomd::BaseKillPlugin::getAndTryToKillPids'), 'target', 'pids', 'line')
    ctx.anchor(ctx.fn1('Oomd::BaseKillPlugin::tryToKillCgroup'), 'target', 'cgroupPath', 'killUuid')
    ctx.anchor(ctx.fn1('Oomd::BaseKillPlugin::tryToLogAndKillCgroup'), 'candidate', 'target')
    ctx.anchor(ctx.fn1('Oomd::BaseKillPlugin::resumeTryingToKillSomething'), 'nextBestOptionStack', 'ctx', 'candidate')
    ctx.anchor(ctx.fn1('Oomd::BaseKillPlugin::resumeFromPrekillHook'), 'ctx', 'intendedVictim', 'nextBestOptionStack', 'skc', 'deserializeKillCandidate', 'deserializeCgroupRef')
    ctx.anchor(ctx.fn1('Oomd::BaseKillPlugin::tryToKillSomething'), 'ctx', 'initialCgroups', 'nextBestOptionStack')
    ctx.anchor(ctx.fn1('Oomd::BaseKillPlugin::reapCgroupRecursively'), 'target')
    ctx.anchor(ctx.fn1('Oomd::BaseKillPlugin::reapProcess'), 'pid')
    ctx.anchor(ctx.fn1('Oomd::BaseKillPlugin::setxattr'), 'path', 'attr', 'val')
    ctx.anchor(ctx.fn1('Oomd::BaseKillPlugin::reportKillInitiationToXattr'), 'cgroupPath')
    ctx.anchor(ctx.fn1('Oomd::BaseKillPlugin::reportKillCompletionToXattr'), 'cgroupPath')
    ctx.anchor(ctx.fn1('Oomd::BaseKillPlugin::reportKillUuidToXattr'), 'cgroupPath')
    ctx.anchor(ctx.fn1('Oomd::BaseKillPlugin::run'), 'ctx')
    P = ctx.prog
    # ------------------------------------------------------------ R1 who-may-call
    found = {k: 0 for k in SINKS}
    from ..inline import known_functions
    kf = (known_functions() or (set(), set()))[0]
    callers_of = {}
    for f in P.fns.values():
        for i in f.calls():
            callers_of.setdefault(f.callee(i), set()).add(owner(P, f))

    def allowed(c, own, depth=0):
        """own may call sink c: it is in the table; or a wrapper from the table was inlined into a function that may call that wrapper;
        or own is a function that does not exist on the reference tree (an extracted helper) and everything that calls it may call c"""
        if own in SINKS[c]:
            return True
        if any(own in SINKS.get(w, ()) for w in SINKS[c]):
            return True
        if depth < 3 and kf and own not in kf and callers_of.get(own):
            return all(allowed(c, o2, depth + 1) for o2 in callers_of[own])
        return False
    for f in P.fns.values():
        for i in f.calls():
            c = f.callee(i)
            if c not in SINKS:
                continue
            found[c] += 1
            own = owner(P, f)
            ok = allowed(c, own)
            if ok:
                ctx.ok("who-may-call:%s:%s" % (c, own.replace("Oomd::", "")), "who-may-call", f.loc(i),
                       "%s called from %s" % (c, own))
            else:
                ctx.violation("who-may-call:%s:%s" % (c, own.replace("Oomd::", "")), "who-may-call", f.loc(i),
                              "%s is called from %s, which is not in the frozen table %s" % (c, own, sorted(SINKS[c])))
            ctx.use(f)
    for c in MUST_EXIST:
        if not found.get(c):
            ctx.broken("sink-exists:" + c, "instance-floor", "-", "no call site of %s found in the library" % c)
    ctx.tables["sinks"] = {k: sorted(v) for k, v in SINKS.items()}
    ctx.counters["sink_call_sites"] = sum(found.values())

    # pthread_kill targets: own thread / thread created in the same function
    for f in P.fns.values():
        for i in f.calls("pthread_kill"):
            X = Expander(P, f)
            a0 = X(f.nodes[i]["args"][0])
            ctx.check(a0 == "pthread_self()" or a0.endswith(".native_handle()"),
                      "pthread_kill-target:" + short(f), "provenance", f.loc(i),
                      "pthread_kill targets the calling thread / a thread owned by this function",
                      "pthread_kill target is " + a0)

    # ------------------------------------------------------------ R2/R3 kill(2)
    tkp = ctx.fn1("Oomd::BaseKillPlugin::tryToKillPids")
    X = Expander(P, tkp)
    fl = Flow(P, tkp, cg=ctx.cg)
    kills = tkp.calls("kill")
    ctx.count("kill_sites", len(kills))
    ctx.floor("kill_sites", 1, "::kill call sites")
    for i in kills:
        a = tkp.nodes[i]["args"]
        ctx.check(X(a[1]) == "9", "kill:signal-is-SIGKILL", "constant", tkp.loc(i),
                  "signal argument is the constant SIGKILL (9)", "signal argument is " + X(a[1]))
        ctx.check(re.match(r"^(elem\(param:pids\)|param:pids\[[^\]]*\]|param:pids\.at\(.*\))$", X(a[0])) is not None,
                  "kill:pid-from-parameter", "provenance", tkp.loc(i),
                  "pid is an element of the pids parameter", "pid argument derives from " + X(a[0]))
        g = fl.guards(i)
        pidvar = tkp.text(a[0])
        pos = has_fact(g, True, "(0 < %s)" % pidvar) or has_fact(g, False, "(%s < 1)" % pidvar)
        ctx.check(pos, "kill:pid-positive", "guarded_by", tkp.loc(i),
                  "kill(2) is only reached with pid > 0",
                  "kill(2) is reachable with pid <= 0: a '0' line in cgroup.procs (process of a foreign pid "
                  "namespace) signals oomd's own process group, a negative one a whole group",
                  witness_path(tkp, fl, i))

    # ------------------------------------------------------------ R4 pids come from cgroup.procs of target
    gk = ctx.fn1("Oomd::BaseKillPlugin::getAndTryToKillPids")
    X = Expander(P, gk)
    for i in gk.calls("tryToKillPids"):
        a0 = gk.nodes[i]["args"][0]
        ctx.count("tryToKillPids_calls")
        ctx.check(X(a0) == "var:pids", "pids-vector:getAndTryToKillPids", "provenance", gk.loc(i),
                  "argument is the local pids vector", "argument is " + X(a0))
    ctx.floor("tryToKillPids_calls", 1, "calls of tryToKillPids")
    fills = []
    for i in gk.calls():
        n = gk.nodes[i]
        if "recv" in n and X(n["recv"]) == "var:pids" and not n.get("cconst"):
            fills.append(i)
    okf = bool(fills)
    for i in fills:
        n = gk.nodes[i]
        nm = n.get("cname")
        if nm in ("clear", "reserve", "shrink_to_fit"):
            continue       # cannot introduce a pid
        t = X(n["args"][0]) if n.get("args") else ""
        if not (nm in ("push_back", "emplace_back") and re.match(r"^std::sto[il]+\(((const )?std::string\()?var:line", t)):
            okf = False
            ctx.violation("pids-filled-from-procs-lines", "provenance", gk.loc(i),
                          "pids vector mutated by %s(%s)" % (nm, t[:80]))
    if okf:
        ctx.ok("pids-filled-from-procs-lines", "provenance", gk.loc(fills[0]),
               "pids only receives integers parsed from the lines read")
    gl = gk.calls("getline")
    ctx.count("getline_sites", len(gl))
    if not gl:
        ctx.violation("procs-opened-on-victim-fd", "provenance", gk.loc(),
                      "getAndTryToKillPids no longer reads cgroup.procs line by line from a file opened on the victim's directory fd")
    for i in gl:
        a = [X(x) for x in gk.nodes[i]["args"]]
        # C getline(&line, &len, FILE*)  or  std::getline(stream, line)
        src = a[2] if len(a) >= 3 else a[0] if a else "?"
        if src.startswith("var:"):
            # a stream object: where was it opened?
            _, v = gk.vardecl(next((vv["decl"] for d in gk.all("decl") for vv in gk.nodes[d].get("vars", [])
                                    if vv["name"] == src[4:]), None))
            src = X(v["init"]) if v is not None and "init" in v else src
        ok = re.search(r"openat\(param:target\.fd\(\)(\.fd\(\))?, Oomd::Fs::kProcsFile", src) is not None
        ctx.check(ok, "procs-opened-on-victim-fd", "provenance", gk.loc(i),
                  "lines come from openat(target's held dir fd, cgroup.procs)",
                  "the pids to signal are read from " + src[:160] + " - not from a file opened relative to the victim's held "
                  "directory fd, so a cgroup re-created under the same path would be signalled")
    # other writers of `line`
    for i in gk.calls():
        n = gk.nodes[i]
        if i in gl:
            continue
        if any(X(x) == "&var:line" for x in n.get("args", [])) and n.get("cname") not in ("free", "getline"):
            ctx.violation("line-written-elsewhere", "provenance", gk.loc(i), "line buffer also written by " + gk.text(i)[:60])

    # ------------------------------------------------------------ R5/R6 descent only through the victim's children
    for f, callee in ((gk, "getAndTryToKillPids"),
                      (ctx.fn1("Oomd::BaseKillPlugin::reapCgroupRecursively"), "reapCgroupRecursively")):
        Xf = Expander(P, f)
        for i in f.calls(callee):
            a0 = Xf(f.nodes[i]["args"][0])
            ctx.count("recursive_descent_sites")
            ctx.check(re.match("^" + CHILD, a0) is not None, "descent-through-victim-children:" + callee,
                      "provenance", f.loc(i),
                      "recursion target is addChildToCacheAndGet(target, name in target.children())",
                      "recursion target is " + a0[:160])
    ctx.floor("recursive_descent_sites", 2, "recursive descents (kill, reap)")
    rcr = ctx.fn1("Oomd::BaseKillPlugin::reapCgroupRecursively")
    Xr = Expander(P, rcr)
    for i in rcr.calls("reapProcess"):
        a0 = Xr(rcr.nodes[i]["args"][0])
        ctx.check(a0 == "elem(*Oomd::Fs::getPidsAt(param:target.fd()))", "reap-pid-from-victim-procs", "provenance",
                  rcr.loc(i), "reaped pid is listed in the victim's cgroup.procs (held fd)", "reaped pid derives from " + a0)
    rp = ctx.fn1("Oomd::BaseKillPlugin::reapProcess")
    Xp = Expander(P, rp)
    for i in rp.calls("pidfd_open"):
        ctx.check(Xp(rp.nodes[i]["args"][0]) == "param:pid", "pidfd-of-parameter", "provenance", rp.loc(i),
                  "pidfd_open on the pid parameter", "pidfd_open on " + Xp(rp.nodes[i]["args"][0]))
    for i in rp.calls("process_mrelease"):
        a0 = Xp(rp.nodes[i]["args"][0])
        ctx.check(a0.endswith("pidfd_open(param:pid, 0)"), "mrelease-on-that-pidfd", "provenance", rp.loc(i),
                  "process_mrelease on the pidfd just opened", "process_mrelease on " + a0)

    # ------------------------------------------------------------ R7 control files / xattrs of the same victim
    tkc = ctx.fn1("Oomd::BaseKillPlugin::tryToKillCgroup")
    Xc = Expander(P, tkc)
    n_cf = 0
    for i in tkc.calls("Fs::writeKillAt", "Fs::writeFreezeAt"):
        n_cf += 1
        a0 = Xc(tkc.nodes[i]["args"][0])
        ctx.check(a0 == "param:target.fd()", "control-file-on-victim-fd:" + tkc.nodes[i]["cname"], "provenance",
                  tkc.loc(i), "written through the victim's held dir fd", "written through " + a0)
    ctx.counters["control_file_writes"] = n_cf
    ctx.floor("control_file_writes", 2, "cgroup.kill/cgroup.freeze writes")
    for i in tkc.calls("reportKillUuidToXattr", "reportKillInitiationToXattr", "reportKillCompletionToXattr"):
        a0 = Xc(tkc.nodes[i]["args"][0])
        ctx.count("xattr_reports")
        ctx.check(a0 == "param:target.cgroup().absolutePath()", "xattr-path-of-victim:" + tkc.nodes[i]["cname"],
                  "provenance", tkc.loc(i), "xattr path is the victim's absolute path", "xattr path is " + a0)
    ctx.floor("xattr_reports", 3, "xattr report calls")
    for i in tkc.calls("getAndTryToKillPids", "reapCgroupRecursively"):
        a0 = Xc(tkc.nodes[i]["args"][0])
        ctx.check(a0 == "param:target", "kill-target-is-victim:" + tkc.nodes[i]["cname"], "provenance", tkc.loc(i),
                  "operates on the victim", "operates on " + a0)
    for q in ("reportKillInitiationToXattr", "reportKillCompletionToXattr", "reportKillUuidToXattr"):
        rf = ctx.fn1("Oomd::BaseKillPlugin::" + q)
        for lam in P.lambdas_in(rf):
            ctx.use(lam)
            Xl = Expander(P, lam)
            for i in lam.calls("setxattr", "getxattr"):
                a0 = Xl(lam.nodes[i]["args"][0])
                ctx.check(a0 == "param:cgroupPath", "xattr-helper-path:" + q, "provenance", lam.loc(i),
                          "helper touches the path it was given", "helper touches " + a0)
    sx = ctx.fn1("Oomd::BaseKillPlugin::setxattr")
    Xs = Expander(P, sx)
    for i in sx.calls("Fs::setxattr"):
        a = [Xs(x) for x in sx.nodes[i]["args"]]
        ctx.check(a[:3] == ["param:path", "param:attr", "param:val"], "setxattr-forwards", "provenance", sx.loc(i),
                  "BaseKillPlugin::setxattr forwards its arguments", "forwards " + str(a))

    # ------------------------------------------------------------ R8/R9 victim provenance
    tlk = ctx.fn1("Oomd::BaseKillPlugin::tryToLogAndKillCgroup")
    Xt = Expander(P, tlk)
    for i in tlk.calls("tryToKillCgroup"):
        a0 = Xt(tlk.nodes[i]["args"][0])
        ctx.check(a0 == "param:candidate.cgroupCtx.get()", "victim-is-the-candidate", "provenance", tlk.loc(i),
                  "the cgroup killed is the candidate's", "the cgroup killed is " + a0)
    rts = ctx.fn1("Oomd::BaseKillPlugin::resumeTryingToKillSomething")
    rfp = ctx.fn1("Oomd::BaseKillPlugin::resumeFromPrekillHook")
    Xr_ = Expander(P, rts)
    for i in rts.calls("tryToLogAndKillCgroup"):
        a1 = Xr_(rts.nodes[i]["args"][1])
        ctx.check(a1 == "param:nextBestOptionStack.back()", "candidate-from-stack", "provenance", rts.loc(i),
                  "the candidate is the popped top of the option stack", "the candidate is " + a1)
    Xf_ = Expander(P, rfp)
    for i in rfp.calls("tryToLogAndKillCgroup"):
        a1 = Xf_(rfp.nodes[i]["args"][1])
        ctx.check(re.match(r"^\*deserializeKillCandidate\(this->prekillHookState_->(->)?intendedVictim\)$", a1) is not None,
                  "candidate-from-deserialised-victim", "provenance", rfp.loc(i),
                  "the deferred victim is re-resolved from the serialised intended victim", "the candidate is " + a1)

    candidates_come_from_ranking(ctx)
    # children are listed only under the recursive guard
    flr = Flow(P, rts, cg=ctx.cg)
    for i in rts.calls("addChildrenToCacheAndGet"):
        g = flr.guards(i)
        ctx.count("descend_sites")
        ctx.check(has_fact(g, True, "this->recursive_"), "descend-only-if-recursive", "guarded_by", rts.loc(i),
                  "children become candidates only with recursive targeting",
                  "children become candidates without the recursive_ guard", witness_path(rts, flr, i))
    ctx.floor("descend_sites", 1, "addChildrenToCacheAndGet in resumeTryingToKillSomething")

    # ------------------------------------------------------------ R11 the option stack only holds such candidates
    for f in (ctx.fn1("Oomd::BaseKillPlugin::tryToKillSomething"), rfp):
        Xs_ = Expander(P, f)
        for i in f.calls("resumeTryingToKillSomething"):
            a1 = Xs_(f.nodes[i]["args"][1])
            ctx.check(a1 == "var:nextBestOptionStack", "stack-arg:" + short(f), "provenance", f.loc(i),
                      "passes its local option stack", "passes " + a1)
        for i in f.calls():
            n = f.nodes[i]
            if "recv" not in n or Xs_(n["recv"]) != "var:nextBestOptionStack" or n.get("cconst"):
                continue
            nm = n.get("cname")
            if nm in ("clear", "begin", "end", "empty", "size", "operator[]", "at", "cbegin", "cend", "front", "back", "data", "reserve"):
                continue
            t = Xs_(n["args"][0]) if n.get("args") else ""
            good = nm in ("emplace_back", "push_back") and (t.startswith("{elem(*std::make_shared(this->rankForKilling(") or
                                             re.match(r"^\*deserializeKillCandidate\(elem\(", t))
            ctx.check(bool(good), "stack-fill:" + short(f), "provenance", f.loc(i),
                      "option stack receives only ranked/re-resolved candidates",
                      "option stack mutated by %s(%s)" % (nm, t[:100]))
    # pushes inside resumeTryingToKillSomething itself
    for i in rts.calls():
        n = rts.nodes[i]
        if "recv" not in n or Xr_(n["recv"]) != "param:nextBestOptionStack" or n.get("cconst"):
            continue
        nm = n.get("cname")
        if nm in ("pop_back", "back", "begin", "end", "empty", "size", "operator[]", "at", "cbegin", "cend", "rbegin", "rend", "front", "data"):
            continue        # reads / removal of the top
        t = Xr_(n["args"][0]) if n.get("args") else ""
        ctx.check(nm in ("emplace_back", "push_back") and t.startswith("{elem(*std::make_shared(this->rankForKilling(param:ctx, param:ctx.addChildrenToCacheAndGet("),
                  "stack-fill:resumeTryingToKillSomething", "provenance", rts.loc(i),
                  "only ranked children of the popped candidate are pushed", "option stack mutated by %s(%s)" % (nm, t[:100]))
    krun = ctx.fn1("Oomd::BaseKillPlugin::run")
    Xk = Expander(P, krun)
    for i in krun.calls("tryToKillSomething"):
        a1 = Xk(krun.nodes[i]["args"][1])
        via = new_helper_return_values(ctx, krun, krun.nodes[i]["args"][1]) if a1 != "param:ctx.addToCacheAndGet(this->cgroups_)" else None
        if via:
            # a new helper stands between run() and the resolution: every exit of it has to be the resolution of the configured patterns
            for h_, r_, t_ in via:
                ctx.use(h_)
                ctx.check(t_ == "param:ctx.addToCacheAndGet(this->cgroups_)", "roots-are-configured-cgroups:%s@%d" % (short(h_), h_.nodes[r_].get("line", 0)), "provenance (helpers followed)",
                          h_.loc(r_), "initial candidates resolve the configured cgroup patterns",
                          "%s (which run() takes its initial candidates from) can return %s - not the resolution of the configured patterns as they were written: a cgroup "
                          "the patterns do not match (an ancestor of the matches, say) becomes a kill root and can be chosen as the victim" % (h_.pq, t_[:120]))
        else:
            ctx.check(a1 == "param:ctx.addToCacheAndGet(this->cgroups_)", "roots-are-configured-cgroups", "provenance",
                      krun.loc(i), "initial candidates resolve the configured cgroup patterns", "initial candidates are " + a1)
    # cgroups_ is only filled by the argument parser
    for f in P.fns.values():
        if "BaseKillPlugin" not in f.pq and "Kill" not in f.pq:
            continue
        for i in field_writes(f, "cgroups_"):
            if f.nodes[f.strip(f.nodes[i].get("l", f.nodes[i].get("recv", -1)))].get("qname", "").endswith("BaseKillPlugin::cgroups_"):
                ctx.violation("cgroups_-writer:" + short(f), "who-may-write", f.loc(i), "cgroups_ assigned outside argument parsing")
    ini = ctx.fn1("Oomd::BaseKillPlugin::init")
    Xi = Expander(P, ini)
    reg = [i for i in ini.calls("addArgumentCustom") if Xi(ini.nodes[i]["args"][0]).startswith('"cgroup"') or '"cgroup"' in Xi(ini.nodes[i]["args"][0])]
    ctx.check(len(reg) == 1 and "cgroups_" in Xi(ini.nodes[reg[0]]["args"][1]), "cgroups_-from-config", "provenance",
              ini.loc(), "cgroups_ is bound to the 'cgroup' argument", "the 'cgroup' argument is not bound to cgroups_")

    # ------------------------------------------------------------ R12 rank overrides return their input
    ranks = [f for f in P.fns.values() if f.name == "rankForKilling" and f.d.get("nodes")]
    ctx.counters["rank_overrides"] = len(ranks)
    ctx.floor("rank_overrides", 5, "rankForKilling overrides")
    for f in ranks:
        ctx.use(f)
        Xr2 = Expander(P, f)
        for r in returns(f):
            t = Xr2(f.nodes[r]["val"]) if "val" in f.nodes[r] else ""
            m = re.match(r"^Oomd::OomdContext::sortDescWithKillPrefs\((param:cgroups|Oomd::Util::filter\(param:cgroups, lambda@\d+\)), ", t)
            ctx.check(m is not None, "rank-returns-input:" + short(f), "sibling_agreement", f.loc(r),
                      "returns sortDescWithKillPrefs(cgroups | filter(cgroups))",
                      "ranking returns something other than a sorted subset of its input: " + t[:140])
    for f in P.fns.values():
        if f.pq == "Oomd::OomdContext::sortDescWithKillPrefs":
            ctx.use(f)
            Xs2 = Expander(P, f)
            for r in returns(f):
                t = Xs2(f.nodes[r]["val"])
                ctx.count("sortDesc_instances")
                ctx.check(t == "param:cgroups" or (t.startswith("var:") and
                                                   Xs2(local_init(f, t[4:], must=False)[0]) == "param:cgroups"),
                          "sortDesc-returns-copy-of-input", "provenance", f.loc(r),
                          "returns a (sorted) copy of its argument", "returns " + t)
                rv = f.text(f.nodes[r]["val"])
                for i in f.calls():
                    n = f.nodes[i]
                    if n["k"] != "call":
                        continue
                    touches = any(f.text(a).startswith(rv + ".") or f.text(a) == rv for a in n.get("args", [])) or \
                        ("recv" in n and f.text(n["recv"]) == rv and not n.get("cconst"))
                    if not touches:
                        continue
                    nm = n.get("cname")
                    ctx.check(nm in ("sort", "stable_sort", "begin", "end"), "sortDesc-only-reorders", "provenance", f.loc(i),
                              "the copy is only reordered", "the copy is mutated by " + str(nm))
        if f.pq == "Oomd::Util::filter" and "CgroupContext" in f.qname + f.d.get("ret", ""):
            ctx.use(f)
            Xf2 = Expander(P, f)
            for i in f.calls("copy_if"):
                a = [Xf2(x) for x in f.nodes[i]["args"]]
                ctx.count("filter_instances")
                ctx.check(a[0] == "param:elems.begin()" and a[1] == "param:elems.end()" and "back_inserter(var:ret)" in a[2],
                          "filter-copies-subset", "provenance", f.loc(i), "filter copies a subset of its input", "filter copies " + str(a[:3]))
    ctx.floor("sortDesc_instances", 3, "sortDescWithKillPrefs instantiations")

    # ------------------------------------------------------------ R13a a victim that was signalled is reported as signalled
    # (tryToLogAndKillCgroup turns an error of tryToKillCgroup into "0 killed", and the DFS then moves on to the next victim)
    tkc_ = ctx.fn1("Oomd::BaseKillPlugin::tryToKillCgroup")
    sinks_ = tkc_.calls("getAndTryToKillPids")
    fsk = Flow(P, tkc_, events={i: [("set", "may-have-signalled")] for i in sinks_}, cg=ctx.cg,
               edge_tokens=lambda k, p: ["may-have-signalled"] if (k in ("maybeKilled", "maybeKilled.operator bool()") and p is True) else None)
    cnt_ = None
    for i_ in sinks_:
        par_ = tkc_.parent.get(i_)
        while par_ is not None and tkc_.nodes[par_]["k"] in ("cast", "paren"):
            par_ = tkc_.parent.get(par_)
        if par_ is not None and tkc_.nodes[par_]["k"] == "bin" and tkc_.nodes[par_].get("op") in ("+=", "="):
            cnt_ = tkc_.text(tkc_.nodes[par_]["l"])
    if cnt_ is None:
        ctx.broken("signalled-victim-is-reported:counter", "anchor", tkc_.loc(), "the result of getAndTryToKillPids is not accumulated into a local")
        cnt_ = "?"
    n_after = 0
    for r in returns(tkc_):
        if not fsk.may(r, "may-have-signalled"):
            continue
        n_after += 1
        t = ret_text(tkc_, r)
        Xk = Expander(P, tkc_)
        is_count = re.match(r"^(Oomd::SystemMaybe\()?%s\)?$" % re.escape(cnt_), t) is not None
        ctx.check(is_count, "signalled-victim-is-reported:tryToKillCgroup@%d" % tkc_.nodes[r].get("line", 0), "return_table (after a kill sink)", tkc_.loc(r),
                  "once processes may have been signalled the function returns the number signalled",
                  "after processes of the victim may have been signalled the function returns '%s' instead of the count: the caller treats an error as "
                  "'nothing killed' and goes on to signal the next-best cgroup in the same invocation" % t[:70])
    ctx.counters["returns_after_kill_sink"] = n_after
    ctx.floor("returns_after_kill_sink", 1, "returns of tryToKillCgroup reachable after a kill sink")
    # ... and one level down: the walk over a victim's subtree (getAndTryToKillPids) hands the number it signalled up on every exit that
    # is reachable after a signalling call (its own pids, a child's walk) - a `return 0` / error there makes tryToKillCgroup report "no
    # progress" for a victim whose processes were signalled, and the invocation goes on to the next-best cgroup
    gk_ = ctx.fn1("Oomd::BaseKillPlugin::getAndTryToKillPids")
    sig_ = gk_.calls("tryToKillPids", "getAndTryToKillPids", "BaseKillPlugin::tryToKillPids", "BaseKillPlugin::getAndTryToKillPids")
    acc_ = None
    for i_ in sig_:
        par_ = gk_.parent.get(i_)
        while par_ is not None and gk_.nodes[par_]["k"] in ("cast", "paren"):
            par_ = gk_.parent.get(par_)
        if par_ is not None and gk_.nodes[par_]["k"] == "bin" and gk_.nodes[par_].get("op") in ("+=", "="):
            acc_ = gk_.text(gk_.nodes[par_]["l"])
    ctx.counters["subtree_walk_signalling_calls"] = len(sig_)
    ctx.floor("subtree_walk_signalling_calls", 2, "signalling calls in getAndTryToKillPids (own pids, children)")
    if acc_ is None:
        ctx.broken("signalled-victim-is-reported:getAndTryToKillPids", "anchor", gk_.loc(), "the results of the signalling calls are not accumulated into a local")
    else:
        fgk = Flow(P, gk_, events={i: [("set", "may-have-signalled")] for i in sig_ if gk_.pos_of(i) is not None}, cg=ctx.cg)
        n_g = 0
        for r in returns(gk_):
            if not fgk.may(r, "may-have-signalled"):
                continue
            n_g += 1
            t = ret_text(gk_, r)
            ctx.check(t == acc_, "signalled-victim-is-reported:getAndTryToKillPids@%d" % gk_.nodes[r].get("line", 0), "return_table (after a kill sink)", gk_.loc(r),
                      "once processes may have been signalled the walk returns the number signalled",
                      "after processes of the victim's subtree may have been signalled, getAndTryToKillPids returns '%s' instead of the accumulated count %s: "
                      "tryToKillCgroup sees no progress, reports nothing killed, and the invocation signals the next-best cgroup as well" % (t[:60], acc_),
                      witness_path(gk_, fgk, r))
        ctx.counters["subtree_walk_returns_after_sink"] = n_g
        ctx.floor("subtree_walk_returns_after_sink", 1, "returns of getAndTryToKillPids reachable after a signalling call")
    tlk = ctx.fn1("Oomd::BaseKillPlugin::tryToLogAndKillCgroup")
    # ------------------------------------------------------------ R13 first success ends the invocation
    for f in (rts, rfp):
        calls = f.calls("tryToLogAndKillCgroup")
        more = calls + f.calls("resumeTryingToKillSomething") + f.calls("firePrekillHook")
        fl2 = Flow(P, f, cg=ctx.cg,
                   edge_tokens=lambda k, p: ["killed"] if ("tryToLogAndKillCgroup(" in k and p is True) else None)
        bad = [f.loc(i) for i in more if fl2.may(i, "killed")]
        ctx.check(not bad, "stop-at-first-success:" + short(f), "never_after", f.loc(calls[0]) if calls else f.loc(),
                  "after a victim yielded a signalled process nothing else is attempted",
                  "another kill attempt is reachable after a successful one: " + ", ".join(bad))
        badr = []
        for kind, node, b, parts in fl2.exits():
            if any("killed" in st.may for st in parts.values()):
                if kind != "return" or ret_const(f, node) != "SUCCESS" or not all("killed" in st.must for st in parts.values()):
                    badr.append(f.loc(node) if node is not None else kind)
        ctx.check(not badr, "success-returns-SUCCESS:" + short(f), "return_table", f.loc(),
                  "the successful edge returns SUCCESS", "successful kill does not return SUCCESS at " + ", ".join(badr))
