"""C18 Senpai (DESIGN 4/C18)."""
import re
from .common import *

EXPLANATION = (
    "Decides the structural clauses of Senpai for all statistics, parameters and histories: "
    "memory.high / memory.high.tmp / memory.reclaim are written only by Senpai::{writeMemhigh, "
    "resetMemhigh, reclaim} and system swappiness only by tick_immediate_backoff; the directory fd "
    "they write through is that of the cgroup context handed down unchanged from Senpai::run's walk "
    "over reverseSort(cgroups_) (provenance at every call level); in adjust() the value written is "
    "state.limit whose last two updates are max(floor, min(ceiling, .)) and the 4 KiB mask, in that "
    "order; initializeCgroup writes the current usage; reclaim is dominated by pressure validation "
    "(and swap validation when enabled) and by usage > floor, its size is (usage - floor) * max_probe "
    "masked to pages; a successful memory.high poke is always followed by the reset; a modified "
    "swappiness is restored on every exit; validatePressure / validateSwap compare 'value < target' "
    "consistently with calculateSwappinessFactor; tracked state is keyed by CgroupContext::Id taken "
    "from the context's id().  Numeric floor/ceiling values and factor curves are not decided.")
RULE_SUMMARY = "E-EFFECT who-may-call + provenance, E-PATH order / must-follow / guard dominance, sibling polarity agreement, E-TYPE key type"
NOT_DECIDED = ["numeric floor / ceiling values", "backoff and probe factor curves"]
ASSUMPTIONS = ["Fs::write*At write the named control file below the given directory fd"]

WRITERS = {
    "Oomd::Fs::writeMemhighAt": {"Oomd::Senpai::writeMemhigh", "Oomd::Senpai::resetMemhigh"},
    "Oomd::Fs::writeMemhightmpAt": {"Oomd::Senpai::writeMemhigh", "Oomd::Senpai::resetMemhigh"},
    "Oomd::Fs::writeMemReclaimAt": {"Oomd::Senpai::reclaim"},
    "Oomd::Fs::setSwappiness": {"Oomd::Senpai::tick_immediate_backoff"},
}


def owner_of(P, f):
    while f.kind == "lambda" and f.d.get("parentfn") in P.fns:
        f = P.fns[f.d["parentfn"]]
    return f


def floor_at_least_memory_min(ctx):
    """'The limit never goes more than a page below the floor = unreclaimable usage + limit_min_bytes, and the floor is at least
    memory.min': the value getLimitMinBytes returns has been raised to the cgroup's OWN memory.min (std::max with memory_min(), on
    every value-returning path).  The effective protection (memory_protection(): scaled down below an over-committed parent, capped by
    the usage) is a different quantity and can be smaller than memory.min."""
    P = ctx.prog
    f = ctx.fn1("Oomd::Senpai::getLimitMinBytes")
    X = Expander(P, f)
    fl = None
    ok_sites = []
    MINOP = re.compile(r"std::max\((.*)\)$")

    def raises_to_min(t):
        m = MINOP.search(t)
        return m is not None and re.search(r"\*?param:\w+\.memory_min\((nullptr)?\)(\.value\(\))?", m.group(1)) is not None
    rets = [(r, leaf) for r, leaf in return_leaves(f) if X(leaf) not in ("std::nullopt", "{}")]
    if not rets:
        ctx.broken("floor-at-least-memory-min", "anchor", f.loc(), "getLimitMinBytes has no value return")
        return
    bad = []
    for r, leaf in rets:
        t = X(leaf)
        if raises_to_min(t):
            continue
        m = re.match(r"^var:(\w+)$", t)
        if m:
            ws = local_writes(f, m.group(1), must=False)
            is_min = lambda t_: re.fullmatch(r"\*?param:\w+\.memory_min\((nullptr)?\)(\.value\(\))?", t_) is not None
            ev = {w: [("set", "raised")] for w in ws if raises_to_min(X(write_rhs(f, w))) or is_min(X(write_rhs(f, w)))}
            # the conditional spelling of max: `if (x < min) x = min;` - the path that skips the assignment has seen x >= min
            mn = locals_receiving(f, r"memory_min\(")
            V = re.escape(m.group(1))
            MN = "(?:%s)" % "|".join(r"\*%s|%s\.value\(\)" % (re.escape(x_), re.escape(x_)) for x_ in mn) if mn else "(?!x)x"
            LT = re.compile(r"^\((%s < %s|%s > %s)\)$" % (V, MN, MN, V))
            GE = re.compile(r"^\((%s >= %s|%s <= %s)\)$" % (V, MN, MN, V))
            tok = lambda k, p: ["raised"] if isinstance(k, str) and ((LT.match(k) and p is False) or (GE.match(k) and p is True)) else None
            # a later plain overwrite would undo it
            for w in ws:
                if w not in ev:
                    ev[w] = [("clear", "raised")]
            flw = Flow(P, f, events=ev, cg=ctx.cg, edge_tokens=tok)
            if ev and flw.must(r, "raised"):
                continue
        bad.append((r, t))
    ctx.check(not bad, "floor-at-least-memory-min", "value-shape + must_precede", f.loc(bad[0][0]) if bad else f.loc(),
              "the floor handed to the limit logic is max(limit_min_bytes + unreclaimable, memory.min)",
              "getLimitMinBytes can return '%s' without having raised it to the cgroup's own memory.min (std::max(.., memory_min())): the limit - and the "
              "size of an immediate-backoff reclaim - can go below memory.min" % (bad[0][1][:80] if bad else ""))


def configured_paths_resolved_every_time(ctx):
    """'Only cgroups matched by its cgroup argument': OomdContext::addToCacheAndGet(set) - the one place a plugin's configured paths become
    contexts - hands the per-path lookup only paths that resolveWildcard() returned in THIS call.  The per-path lookup prefers the cached
    context, which is addressed by directory fd: the glob is the only thing that re-checks, tick by tick, that the configured PATH still
    names a cgroup (a renamed cgroup keeps its fd and inode)."""
    P, cg = ctx.prog, ctx.cg
    sets = [f for f in P.fn("Oomd::OomdContext::addToCacheAndGet") if f.params and "unordered_set" in f.params[0]["type"]]
    if len(sets) != 1:
        ctx.broken("configured-paths-resolved-every-time", "anchor", "-", "expected one OomdContext::addToCacheAndGet overload taking the configured set")
        return
    f = ctx.use(sets[0])
    X = Expander(P, f)
    inner = [i for i in f.calls("OomdContext::addToCacheAndGet") if len(f.nodes[i].get("args", [])) == 1]
    ctx.counters["per_path_lookups"] = len(inner)
    ctx.floor("per_path_lookups", 1, "per-path lookups in the set overload")
    for i in inner:
        prov = X(f.nodes[i]["args"][0])
        if "resolveWildcard()" in prov:
            ctx.ok("configured-paths-resolved-every-time@%d" % f.nodes[i].get("line", 0), "provenance (Expander)", f.loc(i), "the looked-up path is " + prov[:80])
            continue
        m = re.match(r"^elem\((?:var:)?(\w+)\)$", prov)
        if not m:
            ctx.violation("configured-paths-resolved-every-time@%d" % f.nodes[i].get("line", 0), "provenance (Expander)", f.loc(i),
                          "OomdContext::addToCacheAndGet(set) looks up '%s', which is not an element of this call's resolveWildcard() results: a configured path "
                          "that no longer names a cgroup keeps yielding its cached (fd-addressed) context" % prov[:80])
            continue
        cont = m.group(1)
        fills = [c for c in f.calls("insert", "emplace", "emplace_back", "push_back", "merge") if "recv" in f.nodes[c] and f.text(f.nodes[c]["recv"]) == cont]
        init, v = local_init(f, cont, must=False)
        bad = []
        if v is not None and init is not None and init >= 0 and f.nodes[f.strip(init)].get("args"):
            bad.append((init, X(init)))
        for c in fills:
            provs = [X(a) for a in f.nodes[c].get("args", [])]
            if not provs or not all("resolveWildcard()" in p_ for p_ in provs):
                bad.append((c, ", ".join(provs)))
        ctx.counters["resolved_set_fills"] = len(fills)
        ctx.floor("resolved_set_fills", 1, "fills of the resolved-path set")
        ctx.check(not bad, "configured-paths-resolved-every-time@%d" % f.nodes[i].get("line", 0), "provenance (Expander)", f.loc(bad[0][0] if bad else i),
                  "every path in %s comes from resolveWildcard() of a configured path" % cont,
                  "OomdContext::addToCacheAndGet(set) puts %s into %s without passing it through resolveWildcard(): the per-path lookup then returns the cached, "
                  "fd-addressed context although the configured path may no longer name that cgroup (renamed or replaced) - a plugin keeps acting on a cgroup "
                  "its argument no longer matches" % (bad[0][1][:80] if bad else "", cont))


def every_resolved_cgroup_is_returned(ctx, tag):
    """OomdContext::addToCacheAndGet(set) returns a context for EVERY resolved path that can be opened: its walk over the resolved set has
    no early exit (a path that vanished between glob and open is passed over, it does not empty the result), and every iteration whose
    per-path lookup succeeded appends that context.  Plugins read an empty result as 'watched value 0' / 'nothing to do'."""
    P, cg = ctx.prog, ctx.cg
    sets = [f for f in P.fn("Oomd::OomdContext::addToCacheAndGet") if f.params and "unordered_set" in f.params[0]["type"]]
    if len(sets) != 1:
        ctx.broken(tag + ":every-resolved-cgroup-is-returned", "anchor", "-", "expected one OomdContext::addToCacheAndGet overload taking the configured set")
        return
    f = ctx.use(sets[0])
    inner = [i for i in f.calls("OomdContext::addToCacheAndGet") if len(f.nodes[i].get("args", [])) == 1 and f.pos_of(i) is not None]
    ls = [l for l in loops(f) if l["stmt"] is not None and any(f.pos_of(i)[0] in l["body"] or l["stmt"] in list(f.ancestors(i)) for i in inner)]
    if len(ls) != 1 or not inner:
        ctx.broken(tag + ":every-resolved-cgroup-is-returned", "anchor", f.loc(), "expected one loop holding the per-path lookup")
        return
    L = ls[0]
    no_early_exit(ctx, f, L, tag + ":every-resolved-cgroup-is-returned:no-early-exit", "the resolved paths")
    rets = set()
    for r in returns(f):
        if "val" in f.nodes[r]:
            for x in f.walk(f.nodes[r]["val"]):
                if f.nodes[x]["k"] == "ref" and f.nodes[x].get("dk") == "local":
                    rets.add(f.nodes[x]["name"])
    pushes = [i for i in f.calls("push_back", "emplace_back") if f.pos_of(i) is not None and f.text(f.nodes[i].get("recv", -1)) in rets and L["stmt"] in list(f.ancestors(i))]
    ctx.counters[tag + "_resolved_pushes"] = len(pushes)
    ctx.floor(tag + "_resolved_pushes", 1, "appends of a looked-up context to the returned vector")
    ok_tok = lambda k, p: ["found"] if (isinstance(k, str) and p is True and (re.search(r"addToCacheAndGet\(", k) or k in locals_receiving(f, r"addToCacheAndGet\("))) else None
    found_names = locals_receiving(f, r"addToCacheAndGet\(")
    fi = iter_flow(ctx, f, L, {i: [("set", "pushed")] for i in pushes}, edge_tokens=ok_tok,
                   split=lambda k: isinstance(k, str) and (bool(re.search(r"addToCacheAndGet\(", k)) or k in found_names))
    bad = False
    for b in back_sources(L):
        for st_ in (fi.OUT.get(b) or {}).values():
            if "found" in st_.may and "pushed" not in st_.must:
                bad = True
    ctx.check(not bad, tag + ":every-resolved-cgroup-is-returned:found-is-appended", "per-iteration must_follow", f.loc(L["stmt"]),
              "an iteration whose lookup succeeded appends the context", "an iteration can complete with a context found but not appended to the result")


def ceiling_at_most_each_bound(ctx):
    """'The limit written never exceeds the least of MemTotal, usage + limit_max_bytes and memory.max': the value getLimitMaxBytes returns
    has been capped by each of the three on every value-returning path (std::min with the bound, cumulatively, or its conditional
    spelling), and not overwritten by an uncapped value afterwards.  Bounding one summand in init() does not bound the sum."""
    P, cg = ctx.prog, ctx.cg
    f = ctx.use(ctx.fn1("Oomd::Senpai::getLimitMaxBytes"))
    X = Expander(P, f)
    rets = [(r, leaf) for r, leaf in return_leaves(f) if X(leaf) not in ("std::nullopt", "{}")]
    if not rets:
        ctx.broken("ceiling-at-most-each-bound", "anchor", f.loc(), "getLimitMaxBytes has no value return")
        return
    mm = locals_receiving(f, r"memory_max\(")
    BOUNDS = {
        "MemTotal": r"this->host_mem_total_",
        "usage + limit_max_bytes": r"this->limit_max_bytes_ \+ |\+ this->limit_max_bytes_",
        "memory.max": "|".join([r"\*%s\b|\b%s\.value\(\)" % (re.escape(x_), re.escape(x_)) for x_ in mm] + [r"memory_max\((nullptr)?\)"]),
    }
    for r, leaf in rets:
        t = X(leaf)
        m = re.match(r"^var:(\w+)$", t)
        if not m:
            # a single expression: every bound appears under one (nested) std::min
            miss = [b for b, rx in BOUNDS.items() if not ("std::min(" in t and re.search(rx, t))]
            ctx.check(not miss, "ceiling-at-most-each-bound@%d" % f.nodes[r].get("line", 0), "value-shape + must_precede", f.loc(r),
                      "the returned ceiling is a std::min over all three bounds", "getLimitMaxBytes returns %s, which is not capped by %s" % (t[:80], ", ".join(miss)))
            continue
        var = m.group(1)
        V = re.escape(var)
        ws = list(local_writes(f, var, must=False))
        init, v = local_init(f, var, must=False)
        ev = {}

        def classify(node, rhs_node):
            tt = f.text(rhs_node)
            has = [b for b, rx in BOUNDS.items() if re.search(rx, tt)]
            cumulative = re.search(r"(?<![\w.])%s(?![\w])" % V, tt) is not None
            evs = []
            if "std::min(" in tt and cumulative:
                evs = [("set", "capped:" + b) for b in has]
            elif "std::min(" in tt:
                evs = [("clear", "capped:" + b) for b in BOUNDS if b not in has] + [("set", "capped:" + b) for b in has]
            else:
                g_ = flg.guards(node) if f.pos_of(node) is not None else []
                only = [b for b in has if re.fullmatch(r"\(?(%s)\)?" % BOUNDS[b], tt)]
                # `if (x > E) x = E;` / `if (E < x) x = E;`: the conditional spelling of x = std::min(x, E) - earlier caps stay in force
                lower = any(isinstance(k, str) and p is True and k in ("(%s > %s)" % (var, tt), "(%s < %s)" % (tt, var)) for k, p in g_) or \
                    any(isinstance(k, str) and p is False and k in ("(%s <= %s)" % (var, tt), "(%s >= %s)" % (tt, var)) for k, p in g_)
                cond_max = only and any(isinstance(k, str) and p is True and re.match(r"^\((%s > .*|.* < %s)\)$" % (V, V), k) for k, p in g_)
                if lower:
                    evs = [("set", "capped:" + b) for b in has]
                elif cond_max:
                    evs = [("set", "capped:" + only[0])]         # `if (x > B) x = B;`
                else:
                    evs = [("clear", "capped:" + b) for b in BOUNDS if b not in has] + [("set", "capped:" + b) for b in has if "+" in tt and b == "usage + limit_max_bytes"]
            return evs
        flg = Flow(P, f, cg=cg)
        for w in ws:
            if f.pos_of(w) is not None:
                ev[w] = classify(w, write_rhs(f, w))
        if v is not None and init is not None and init >= 0:
            d_, _ = f.vardecl(v["decl"]) if v.get("decl") else (None, None)
            if d_ is not None and f.pos_of(d_) is not None:
                ev[d_] = classify(d_, init)

        def tok(k, p):
            if not isinstance(k, str):
                return None
            out = []
            for b, rx in BOUNDS.items():
                if (re.match(r"^\((%s > (%s)|(%s) < %s)\)$" % (V, rx, rx, V), k) and p is False) or (re.match(r"^\((%s <= (%s)|(%s) >= %s)\)$" % (V, rx, rx, V), k) and p is True):
                    out.append("capped:" + b)
            return out or None
        fl = Flow(P, f, events=ev, cg=cg, edge_tokens=tok)
        miss = [b for b in BOUNDS if not fl.must(r, "capped:" + b)]
        ctx.check(not miss, "ceiling-at-most-each-bound@%d" % f.nodes[r].get("line", 0), "value-shape + must_precede", f.loc(r),
                  "the returned ceiling has been capped by MemTotal, usage + limit_max_bytes and memory.max",
                  "getLimitMaxBytes returns %s without it having been capped by %s on every path (std::min with that bound, kept through the later caps): the limit "
                  "Senpai writes can exceed that bound" % (var, ", ".join(miss)), witness_path(f, fl, r))


def limit_writers_write_the_value_given(ctx):
    """'Every limit it writes is either the cgroup's current usage or an adjusted value': the low-level writers of Senpai (writeMemhigh and
    whatever other member hands a value to Fs::writeMemhighAt / writeMemhightmpAt) pass on the value they were given - the value
    parameter is not re-assigned and is the argument of the file write.  The callers record what they asked for (start_limit, state.limit)
    and compare the file against it on the next tick: a writer that quietly writes something else makes every tick a 'mismatch, reset'."""
    P, cg = ctx.prog, ctx.cg
    n = 0
    for f in sorted(P.fns.values(), key=lambda x: (x.file, x.line, x.usr)):
        if not f.pq.startswith("Oomd::Senpai::"):
            continue
        owner = f
        while owner.kind == "lambda" and owner.d.get("parentfn") in P.fns:
            owner = P.fns[owner.d["parentfn"]]
        X = None
        for i in f.calls("Fs::writeMemhighAt", "Fs::writeMemhightmpAt"):
            a = f.nodes[i].get("args", [])
            if len(a) < 2:
                continue
            n += 1
            ctx.use(f)
            X = X or Expander(P, f)
            t = X(a[1])
            m = re.fullmatch(r"param:(\w+)", t)
            ok = m is not None and any(p_["name"] == m.group(1) for p_ in owner.params) and not local_writes(owner, m.group(1), must=False) and \
                (owner is f or not local_writes(f, m.group(1), must=False))
            ctx.check(ok or t == "std::numeric_limits::max()" or re.fullmatch(r"std::numeric_limits<[^>]*>::max\(\)", t) is not None,
                      "limit-writers-write-the-value-given:%s@%d" % (short(owner), f.nodes[i].get("line", 0)), "provenance + no-write (parameter)", f.loc(i),
                      "%s writes the value it was given" % short(owner),
                      "%s hands '%s' to %s - not its value parameter as given (the parameter is re-assigned, or something else is written): the caller records the value it "
                      "asked for, and the next tick finds memory.high different from the recorded limit and resets the cgroup" % (owner.pq, t[:60], f.nodes[i].get("cname")))
    ctx.counters["limit_file_writes"] = n
    ctx.floor("limit_file_writes", 2, "Fs::writeMemhighAt / writeMemhightmpAt call sites in Senpai")


def reclaimable_bytes_key_table(ctx):
    """'The floor = unreclaimable usage + limit_min_bytes': what Senpai treats as reclaimable is read off the LRU lists of memory.stat -
    active_file + inactive_file (page cache that can be dropped) and, capped by the swap that is free, active_anon + inactive_anon.  The
    `file` and `anon` totals of memory.stat are different quantities (shmem / tmpfs pages are counted under `file` but live on the anon
    lists and need swap): a floor computed from them is too low by the shmem amount whenever swap is not usable."""
    from ..inline import known_functions
    P, cg = ctx.prog, ctx.cg
    f = ctx.use(ctx.fn1("Oomd::Senpai::getReclaimableBytes"))
    kn = known_functions()
    scope_ = [f] + list(P.lambdas_in(f))
    if kn is not None:
        for u in cg.reach([f.usr]):
            h = P.fns[u]
            if h is not f and h.file.startswith("oomd/") and h.kind != "lambda" and plain(h.d.get("qname", "")) not in kn[0]:
                scope_.append(h)
    keys, totals = set(), []
    for g in scope_:
        ctx.use(g)
        for i, nd in enumerate(g.nodes):
            if nd.get("k") == "lit" and nd.get("lk") == "str" and re.fullmatch(r"(in)?active_(file|anon)|file|anon|shmem|unevictable", str(nd.get("v", ""))):
                keys.add(nd["v"])
        for i in g.calls("file_usage", "anon_usage", "shmem_usage", "CgroupContext::file_usage", "CgroupContext::anon_usage", "CgroupContext::shmem_usage"):
            totals.append("%s at %s" % (g.nodes[i].get("cname"), g.loc(i)))
    want = {"active_file", "inactive_file", "active_anon", "inactive_anon"}
    ctx.check(want <= keys and not (keys - want) and not totals, "reclaimable-bytes:key-table", "table agreement (memory.stat keys)", f.loc(),
              "reclaimable = active_file + inactive_file (+ min(swap free, active_anon + inactive_anon))",
              "Senpai::getReclaimableBytes reads %s%s of memory.stat - not exactly the four LRU-list entries active_file, inactive_file, active_anon, inactive_anon: "
              "`file` includes shmem (reclaimable only through swap) and `anon` excludes it, so the floor below which Senpai does not push a cgroup is too low by "
              "the shmem amount when no swap is usable" % (sorted(keys) or "no LRU key", (" and calls " + ", ".join(totals)) if totals else ""))


def unreadable_pressure_stays_absent(ctx):
    """'Reclaims only while memory and io some-pressure are below their targets': Senpai establishes that from what
    CgroupContext::getMemPressure / getIoPressure hand out, and refuses to act on 'absent'.  Each value these two return is what the Fs
    pressure reader read (through to_opt), and 'absent' when the read failed - never a default-constructed ResourcePressure standing in
    for an unreadable file: all-zero pressure is 'below every target'."""
    P = ctx.prog
    n = 0
    for q, rd in (("Oomd::CgroupContext::getMemPressure", "Mempressure"), ("Oomd::CgroupContext::getIoPressure", "Iopressure")):
        f = ctx.use(ctx.fn1(q))
        X = Expander(P, f)
        for r, leaf in return_leaves(f):
            n += 1
            t = X(leaf)
            ok = t in ("std::nullopt", "{}") or re.search(r"Fs::read(Root)?%s(At)?\(" % rd, t) is not None
            made_up = re.search(r"ResourcePressure\s*(\{|\()", t) is not None and "Fs::read" not in t
            ctx.check(ok and not made_up, "unreadable-pressure-stays-absent:%s@%d" % (short(f), f.nodes[r].get("line", 0)), "return_table (value provenance), helpers followed", f.loc(r),
                      "the value returned is what the pressure reader read, or absent",
                      "%s returns %s - a pressure value that was not read from the kernel file: with an unreadable %s the cgroup reports zero "
                      "pressure, which is below every target, and Senpai reclaims without its pressure guard" % (f.pq, t[:80], "io.pressure" if rd == "Iopressure" else "memory.pressure"))
    ctx.counters["pressure_getter_returns"] = n
    ctx.floor("pressure_getter_returns", 2, "value returns of getMemPressure / getIoPressure")


def run(ctx):
    unreadable_pressure_stays_absent(ctx)
    floor_at_least_memory_min(ctx)
    ceiling_at_most_each_bound(ctx)
    reclaimable_bytes_key_table(ctx)
    limit_writers_write_the_value_given(ctx)
    configured_paths_resolved_every_time(ctx)
    every_resolved_cgroup_is_returned(ctx, "C18")
    from .C15 import every_context_refreshed
    every_context_refreshed(ctx)
    # locals / parameters the rules below refer to by name (a rename makes the analysis 'broken', never a violation)
    ctx.anchor(ctx.fn1('Oomd::Senpai::tick_immediate_backoff'), 'validate', 'reclaim_size', 'current_opt', 'limit_min_bytes_opt', 'original_swappiness', 'cgroup_ctx')
    ctx.anchor(ctx.fn1('Oomd::Senpai::run'), 'resolvedIt', 'trackedIt', 'resolved_cgroups')
    ctx.anchor(ctx.fn1('Oomd::Senpai::reclaim'), 'cgroup_ctx', 'size')
    ctx.anchor(ctx.fn1('Oomd::Senpai::tick'), 'state', 'cgroup_ctx', 'limit_min_bytes_opt', 'limit_max_bytes_opt')
    ctx.anchor(ctx.fn1('Oomd::Senpai::validateSwap'), 'effective_swap_util_pct_opt')
    ctx.anchor(ctx.fn1('Oomd::Senpai::initializeCgroup'), 'current_opt', 'start_limit', 'cgroup_ctx')
    P, cg = ctx.prog, ctx.cg
    # ------------------------------------------------ who may write
    n = {k: 0 for k in WRITERS}
    from ..inline import known_functions
    kk_ = known_functions()
    kf_ = kk_[0] if kk_ else None
    callers_of_ = {}
    for f in P.fns.values():
        for i in f.calls():
            callers_of_.setdefault(f.callee(i), set()).add(owner_of(P, f).pq)

    def may_write(c, own, depth=0):
        """own is in the table, or own is a function that does not exist on the reference tree (an extracted helper) and everything
        that calls it may write"""
        if own in WRITERS[c]:
            return True
        if depth < 3 and kf_ and own not in kf_ and callers_of_.get(own):
            return all(may_write(c, o2, depth + 1) for o2 in callers_of_[own])
        return False
    for f in P.fns.values():
        for i in f.calls():
            c = f.callee(i)
            if c not in WRITERS:
                continue
            n[c] += 1
            o = owner_of(P, f)
            ctx.use(f)
            ctx.check(may_write(c, o.pq), "who-may-write:%s:%s" % (c.split("::")[-1], short(o)), "who-may-call", f.loc(i),
                      "%s called from %s" % (c.split("::")[-1], o.pq), "%s is called from %s (allowed: %s)" % (c, o.pq, sorted(WRITERS[c])))
            if c != "Oomd::Fs::setSwappiness":
                X = Expander(P, f)
                a0 = X(f.nodes[i]["args"][0])
                ctx.check(a0 == "param:cgroup_ctx.fd()", "written-through-own-fd:%s:%s" % (c.split("::")[-1], short(o)), "provenance", f.loc(i),
                          "written through the fd of the cgroup context it was given", "written through " + a0)
    for c, k in n.items():
        ctx.counters["writes:" + c.split("::")[-1]] = k
        if k == 0:
            ctx.broken("sink:" + c, "instance-floor", "-", "no call site of %s found" % c)
    # ------------------------------------------------ the cgroup context is handed down unchanged
    CHAIN = [("Oomd::Senpai::writeMemhigh", 0), ("Oomd::Senpai::resetMemhigh", 0), ("Oomd::Senpai::reclaim", 0), ("Oomd::Senpai::writeMemhighTimeout", 0),
             ("Oomd::Senpai::initializeCgroup", 0), ("Oomd::Senpai::tick", 0), ("Oomd::Senpai::tick_immediate_backoff", 0)]
    runf = ctx.fn1("Oomd::Senpai::run")
    for q, idx in CHAIN:
        for f in P.fns.values():
            for i in f.calls(q):
                if f.callee(i) != q:
                    continue
                o = owner_of(P, f)
                if not o.pq.startswith("Oomd::Senpai") and o.pq != "Oomd::timed_invoke":
                    ctx.violation("senpai-internal:%s:%s" % (q.split("::")[-1], short(o)), "who-may-call", f.loc(i), q + " called from outside Senpai")
                    continue
                X = Expander(P, f)
                a = X(f.nodes[i]["args"][idx])
                ctx.count("handed_down_sites")
                if o is runf:
                    ok = a == "*var:resolvedIt"
                else:
                    ok = a == "param:cgroup_ctx"
                ctx.check(ok, "same-cgroup-handed-down:%s<-%s" % (q.split("::")[-1], short(o)), "provenance", f.loc(i),
                          "the callee receives the caller's own cgroup context", "%s receives %s" % (q.split("::")[-1], a))
    ctx.floor("handed_down_sites", 8, "internal Senpai call sites passing the cgroup context")
    X = Expander(P, runf)
    init, v = local_init(runf, "resolvedIt")
    ctx.check(v is not None and X(init) == "param:ctx.reverseSort(this->cgroups_, lambda@%d).crbegin()" % runf.nodes[[x for x in runf.walk(local_init(runf, "resolved_cgroups")[0]) if runf.nodes[x]["k"] == "lambda"][0]]["line"]
              if v is not None and local_init(runf, "resolved_cgroups")[1] is not None else False,
              "walk-over-configured-cgroups", "provenance", runf.loc(), "Senpai walks reverseSort(cgroups_): only cgroups matched by its 'cgroup' argument",
              "resolvedIt is " + (X(init) if v else "?"))
    for w in local_writes(runf, "resolvedIt"):
        nn = runf.nodes[w]
        ctx.check(nn["k"] in ("un", "call") and nn.get("op") == "++", "walk-only-advances", "value-shape", runf.loc(w), "the walk only advances", "resolvedIt modified by " + runf.text(w)[:40])
    # cgroups_ bound to the 'cgroup' argument
    ini = ctx.fn1("Oomd::Senpai::init")
    Xi = Expander(P, ini)
    reg = [i for i in ini.calls("addArgumentCustom") if '"cgroup"' in Xi(ini.nodes[i]["args"][0])]
    ctx.check(len(reg) == 1 and "cgroups_" in Xi(ini.nodes[reg[0]]["args"][1]), "cgroups_-from-config", "provenance", ini.loc(), "cgroups_ is the 'cgroup' argument", "'cgroup' is not bound to cgroups_")

    # ------------------------------------------------ adjust(): clamp then align then write
    tick = ctx.fn1("Oomd::Senpai::tick")
    adj = [l for l in P.lambdas_in(tick) if l.calls("Senpai::writeMemhigh")]
    # stale limits: whatever drives the limit from the recorded state runs only where memory.high was found to MATCH the recorded limit
    # (a cgroup that was re-created, or whose limit somebody else changed, is re-initialised first)
    mh = locals_receiving(tick, r"^this->readMemhigh\(")
    if len(mh) == 1 and len(adj) == 1:
        _, holder = None, None
        from ..inline import closure_holder
        _, holder = closure_holder(P, adj[0])
        MATCH = ("(*%s == state.limit)" % mh[0], "(state.limit == *%s)" % mh[0], "(%s.value() == state.limit)" % mh[0], "(state.limit == %s.value())" % mh[0])
        ft = Flow(P, tick, cg=cg, edge_tokens=lambda k, p: ["matched"] if (k in MATCH and p is True) else None)
        sites = [i for i in tick.calls() if tick.nodes[i].get("op") == "()" and holder and tick.text(tick.nodes[i].get("recv", -1)) == holder]
        sites += [w for w in field_writes(tick, "cumulative") + field_writes(tick, "last_total")]
        ctx.counters["state_driven_sites_in_tick"] = len(sites)
        for i in sites:
            ctx.check(ft.must(i, "matched"), "tick:recorded-state-used-only-if-it-matches:%d" % tick.nodes[i].get("line", 0), "passed_edge", tick.loc(i),
                      "the recorded state is used only after memory.high was found equal to the recorded limit",
                      "%s runs without the 'memory.high == recorded limit' test having passed: for a cgroup that was removed and re-created (or whose limit was changed "
                      "from outside) the new limit is derived from the dead cgroup's state instead of being reset to the current usage" % tick.text(i)[:50], witness_path(tick, ft, i))
    if len(adj) != 1:
        ctx.violation("adjust-closure", "anchor", tick.loc(), "no single closure in Senpai::tick writes memory.high")
    else:
        a = ctx.use(adj[0])
        ws = field_writes(a, "limit")
        ev = {}
        clamp = align = None
        for w in ws:
            rhs = a.text(write_rhs(a, w))
            op = a.nodes[w].get("op")
            if op == "=" and re.match(r"^std::max\(\*limit_min_bytes_opt, std::min\(\*limit_max_bytes_opt, state\.limit\)\)$", rhs):
                clamp = w
                ev[w] = [("set", "clamped"), ("clear", "aligned")]
            elif op == "&=" and (rhs in ("~4095", "-4096", "~0xFFF", "18446744073709547520") or "4095" in rhs or const_int(a, write_rhs(a, w)) == -4096):
                align = w
                ev[w] = [("set", "aligned")]
            else:
                ev[w] = [("clear", "clamped"), ("clear", "aligned")]
        fa = Flow(P, a, events=ev, cg=cg)
        for i in a.calls("Senpai::writeMemhigh"):
            ctx.count("adjust_write_sites")
            ctx.check(a.text(a.nodes[i]["args"][1]) == "state.limit", "adjust:writes-state-limit", "provenance", a.loc(i), "the adjusted limit written is state.limit", "writes " + a.text(a.nodes[i]["args"][1]))
            ctx.check(clamp is not None and fa.must(i, "clamped"), "adjust:clamped-to-floor-and-ceiling", "order", a.loc(i),
                      "the limit was clamped with max(floor, min(ceiling, limit)) and not changed otherwise afterwards",
                      "the limit written is not the clamped one (missing / overwritten max(limit_min, min(limit_max, limit)))")
            ctx.check(align is not None and fa.must(i, "aligned"), "adjust:aligned-after-clamp", "order", a.loc(i),
                      "the 4 KiB mask is applied after the clamp", "the limit written is not page aligned after clamping (mask missing or applied before the clamp)")
        # floor/ceiling come from the two helpers for this cgroup
        Xa = Expander(P, a)
        for nm, callee in (("limit_min_bytes_opt", "getLimitMinBytes"), ("limit_max_bytes_opt", "getLimitMaxBytes")):
            init, v = local_init(a, nm)
            ctx.check(v is not None and a.text(init) == "this->%s(cgroup_ctx)" % callee, "adjust:%s-source" % nm, "provenance", a.loc(), nm + " = " + callee + "(cgroup_ctx)",
                      nm + " is " + (a.text(init) if v else "?"))
    ctx.floor("adjust_write_sites", 1, "writeMemhigh in adjust()")

    # ------------------------------------------------ initializeCgroup writes the current usage
    ic = ctx.fn1("Oomd::Senpai::initializeCgroup")
    Xc = Expander(P, ic)
    for i in ic.calls("Senpai::writeMemhigh"):
        ctx.check(Xc(ic.nodes[i]["args"][1]) == "*param:cgroup_ctx.current_usage(nullptr)", "initialize:writes-current-usage", "provenance", ic.loc(i),
                  "tracking starts at the cgroup's current usage", "initial limit is " + Xc(ic.nodes[i]["args"][1]))
    for r in returns(ic):
        t = Xc(ic.nodes[r]["val"]) if "val" in ic.nodes[r] else ""
        if "CgroupState" in t:
            ctx.check("var:start_limit" in t, "initialize:state-limit", "provenance", ic.loc(r), "recorded limit is the start limit", "state built from " + t[:80])
    for w in local_writes(ic, "start_limit"):
        ctx.check(Xc(write_rhs(ic, w)) in ("*param:cgroup_ctx.current_usage(nullptr)", "param:cgroup_ctx.current_usage(nullptr).value()"), "initialize:start-limit-is-usage", "provenance", ic.loc(w),
                  "start limit = current usage", "start limit = " + Xc(write_rhs(ic, w)))

    # ------------------------------------------------ immediate backoff: guards, size, swappiness
    tib = ctx.fn1("Oomd::Senpai::tick_immediate_backoff")
    fl = Flow(P, tib, cg=cg)
    rc = tib.calls("Senpai::reclaim")
    ctx.counters["reclaim_sites"] = len(rc)
    ctx.floor("reclaim_sites", 1, "reclaim call in tick_immediate_backoff")
    for i in rc:
        g = fl.guards(i)
        ctx.check(("validate", True) in g, "reclaim:only-if-validated", "guarded_by", tib.loc(i), "reclaim only when validation passed",
                  "reclaim reachable without the pressure/swap validation", witness_path(tib, fl, i))
        ctx.check(any(k == "(*limit_min_bytes_opt < *current_opt)" and p is True for k, p in g), "reclaim:only-above-floor", "guarded_by", tib.loc(i),
                  "reclaim only while usage is above the floor", "reclaim reachable with usage <= floor")
        a1 = tib.text(tib.nodes[i]["args"][1])
        ctx.check(a1 == "reclaim_size", "reclaim:size-arg", "provenance", tib.loc(i), "reclaims reclaim_size", "reclaims " + a1)
    init, v = local_init(tib, "reclaim_size")
    ctx.check(v is not None and re.match(r"^\(\(\*current_opt - \*limit_min_bytes_opt\) \* this->max_probe_\)$", tib.text(init)) is not None, "reclaim:size-formula", "value-shape", tib.loc(),
              "reclaim_size = (usage - floor) * max_probe", "reclaim_size = " + (tib.text(init) if v else "?"))
    masks = [w for w in local_writes(tib, "reclaim_size")]
    ev = {w: [("set", "masked")] for w in masks if tib.nodes[w].get("op") == "&=" and ("4095" in tib.text(write_rhs(tib, w)) or const_int(tib, write_rhs(tib, w)) == -4096)}
    fm = Flow(P, tib, events=ev, cg=cg)
    for i in rc:
        ctx.check(fm.must(i, "masked") and len(masks) == 1, "reclaim:size-page-masked", "order", tib.loc(i), "reclaim size is masked to whole pages", "reclaim size is not page masked (or modified otherwise)")
    # validate = validatePressure && (swap_validation_ ? validateSwap : true)
    init, v = local_init(tib, "validate")
    ctx.check(v is not None and tib.text(init) == "*validate_pressure_maybe", "validate:starts-from-pressure", "provenance", tib.loc(), "validate starts as the pressure validation",
              "validate starts as " + (tib.text(init) if v else "?"))
    for w in local_writes(tib, "validate"):
        g = fl.guards(w)
        rhs = tib.text(write_rhs(tib, w))
        ctx.check(rhs == "(validate && *validate_swap_maybe)" and has_fact(g, True, "this->swap_validation_"), "validate:swap-only-narrows", "value-shape", tib.loc(w),
                  "swap validation can only narrow the verdict, and only when enabled", "validate is reassigned with %s" % rhs)
    init, v = local_init(tib, "validate_pressure_maybe")
    ctx.check(v is not None and tib.text(init) == "this->validatePressure(cgroup_ctx)", "validate:pressure-of-this-cgroup", "provenance", tib.loc(), "pressure validated for this cgroup", "?")
    # swappiness: modified -> restored on every exit
    sets = tib.calls("Fs::setSwappiness")
    restore_dtors = []
    for e_ in cg.out.get(tib.usr, ()):
        if e_.kind == "scope-exit":
            lam = P.fns[e_.dst]
            if any("original_swappiness" == lam.text(lam.nodes[j]["args"][0]) for j in lam.calls("Fs::setSwappiness")):
                restore_dtors.append(e_.node[1:])
                ctx.use(lam)
                fl_l = Flow(P, lam, cg=cg)
                for j in lam.calls("Fs::setSwappiness"):
                    ctx.check(has_fact(fl_l.guards(j), True, "this->modulate_swappiness_"), "swappiness:restore-iff-modulating", "guarded_by", lam.loc(j),
                              "restore happens exactly when modulation is on", "restore is not tied to modulate_swappiness_")
    ev = {i: [("set", "pending-restore")] for i in sets}
    for pos in restore_dtors:
        ev.setdefault(pos, []).append(("clear", "pending-restore"))
    fs_ = Flow(P, tib, events=ev, cg=cg)
    bad = []
    for kind, node, b, parts in fs_.exits():
        for st in parts.values():
            if "pending-restore" in st.may:
                bad.append(tib.loc(node) if node is not None else kind)
    ctx.counters["swappiness_writes"] = len(sets)
    ctx.check(bool(sets) and bool(restore_dtors) and not bad, "swappiness:restored-on-every-exit", "must_follow", tib.loc(sets[0]) if sets else tib.loc(),
              "a modified system swappiness is restored on every way out of the tick",
              "swappiness can stay modified after the tick (exits: %s)" % ", ".join(sorted(set(bad))) if bad else "no restoring scope guard")
    for i in sets:
        g = fl.guards(i)
        ctx.check(has_fact(g, True, "this->modulate_swappiness_"), "swappiness:only-when-asked", "guarded_by", tib.loc(i), "swappiness touched only with modulate_swappiness", "swappiness written without modulate_swappiness_")
    init, v = local_init(tib, "original_swappiness")
    ow = local_writes(tib, "original_swappiness")
    ctx.check(len(ow) == 1 and tib.text(write_rhs(tib, ow[0])) == "cgroup_ctx.oomd_ctx().getSystemContext().swappiness", "swappiness:original-is-system-value", "provenance",
              tib.loc(ow[0]) if ow else tib.loc(), "the value restored is the system's swappiness read this tick", "original_swappiness is " + (tib.text(write_rhs(tib, ow[0])) if ow else "?"))

    # ------------------------------------------------ reclaim(): poke is always reset
    rcl = ctx.fn1("Oomd::Senpai::reclaim")
    pokes = rcl.calls("Senpai::writeMemhigh", "Senpai::writeMemhighTimeout")
    resets = rcl.calls("Senpai::resetMemhigh")
    ev = {i: [("set", "reset")] for i in resets}
    fr = Flow(P, rcl, events=ev, cg=cg, edge_tokens=lambda k, p: ["poked"] if (re.search(r"this->writeMemhigh(Timeout)?\(", k) and p is True) else None)
    bad = []
    for kind, node, b, parts in fr.exits():
        for st in parts.values():
            if "poked" in st.may and "reset" not in st.must:
                bad.append(rcl.loc(node) if node is not None else kind)
    ctx.counters["memhigh_pokes"] = len(pokes)
    ctx.floor("memhigh_pokes", 2, "memory.high pokes in reclaim")
    ctx.check(not bad and bool(resets), "poke-always-reset", "must_follow", rcl.loc(), "a successful temporary memory.high poke is reset to max in the same call",
              "after a successful poke reclaim can return without resetMemhigh (%s)" % ", ".join(sorted(set(bad))))
    Xr = Expander(P, rcl)
    for i in pokes:
        a1 = Xr(rcl.nodes[i]["args"][1])
        ctx.check(a1 == "(*param:cgroup_ctx.current_usage(nullptr) - param:size)", "poke-value", "value-shape", rcl.loc(i), "poke limit = current usage - size", "poke limit = " + a1)
    for i in rcl.calls("Fs::writeMemReclaimAt"):
        g = Flow(P, rcl, cg=cg).guards(i)
        # 'memory.reclaim is supported': the probe's value read as true, through a local or directly
        probes = locals_receiving(rcl, r"^this->hasMemoryReclaim\(cgroup_ctx\)$")
        sup = any(p is True and (k in ["*" + n_ for n_ in probes] + [n_ + ".value()" for n_ in probes] + [n_ + ".value_or(false)" for n_ in probes] or
                                 re.match(r"^(\*this->hasMemoryReclaim\(cgroup_ctx\)|this->hasMemoryReclaim\(cgroup_ctx\)\.value_or\(false\))$", k)) for k, p in g)
        ctx.check(Xr(rcl.nodes[i]["args"][1]) == "param:size" and sup, "memory.reclaim-size", "provenance", rcl.loc(i), "memory.reclaim receives the requested size when supported",
                  "memory.reclaim written with " + Xr(rcl.nodes[i]["args"][1]))
    # the bound 'at most max_probe x (usage - floor) bytes' is per tick: the requested size reaches the kernel exactly once -
    # no loop around the memory.reclaim write anywhere between the tick and the file
    wmr = ctx.fn1("Oomd::Fs::writeMemReclaimAt")
    chain = [(wmr, wmr.calls("writeControlFileAt", "Fs::writeControlFileAt"), "the write of memory.reclaim"),
             (rcl, rcl.calls("Fs::writeMemReclaimAt"), "Fs::writeMemReclaimAt"),
             (tib, tib.calls("Senpai::reclaim"), "Senpai::reclaim")]
    n_once = 0
    for f_, sites, what in chain:
        ctx.use(f_)
        for i in sites:
            n_once += 1
            inl = [l for l in loops(f_) if l["stmt"] is not None and l["stmt"] in list(f_.ancestors(i))]
            fo = Flow(P, f_, events={j: [("set", "requested")] for j in sites}, cg=cg)
            twice = fo.may(i, "requested")
            ctx.check(not inl and not twice, "reclaim-requested-once-per-tick:%s" % short(f_), "loop-shape + at-most-once", f_.loc(i),
                      "%s happens at most once per call, outside any loop" % what,
                      "%s sits in a loop or can be reached twice in %s: one tick can ask the kernel for a multiple of max_probe x (usage - floor) bytes "
                      "(e.g. by retrying the full size after a partial reclaim reported as EAGAIN)" % (what, short(f_)))
    ctx.counters["reclaim_request_sites"] = n_once
    ctx.floor("reclaim_request_sites", 3, "memory.reclaim write, its caller in reclaim() and reclaim()'s caller in tick_immediate_backoff")
    rm = ctx.fn1("Oomd::Senpai::resetMemhigh")
    # what the reset writes: the value argument of both memory.high writers, through a local or directly
    Xrm = Expander(P, rm)
    wv = [Xrm(rm.nodes[i]["args"][1]) for i in rm.calls("Fs::writeMemhighAt", "Fs::writeMemhightmpAt") if len(rm.nodes[i].get("args", [])) >= 2]
    if not wv:
        # the writers may sit in a helper extracted from writeMemhigh / resetMemhigh: the value it writes is one of its parameters
        for i in rm.calls():
            for u_ in P.resolve(rm.nodes[i].get("cusr", "")) if rm.nodes[i].get("cusr") else []:
                h_ = P.fns.get(u_)
                if h_ is None or not h_.file.startswith("oomd/"):
                    continue
                Xh_ = Expander(P, h_)
                for j in h_.calls("Fs::writeMemhighAt", "Fs::writeMemhightmpAt"):
                    if len(h_.nodes[j].get("args", [])) < 2:
                        continue
                    m_ = re.match(r"^param:(\w+)$", Xh_(h_.nodes[j]["args"][1]))
                    pidx = next((k for k, p_ in enumerate(h_.params) if m_ and p_["name"] == m_.group(1)), None)
                    if pidx is not None and pidx < len(rm.nodes[i].get("args", [])):
                        wv.append(Xrm(rm.nodes[i]["args"][pidx]))
                    else:
                        wv.append(Xh_(h_.nodes[j]["args"][1]))
    if not wv:
        ctx.broken("reset-writes-max", "anchor", rm.loc(), "no memory.high write found in resetMemhigh or in a helper it calls directly")
    else:
      ctx.check(len(wv) >= 1 and all("numeric_limits" in t_ and "max()" in t_ for t_ in wv), "reset-writes-max", "value-shape", rm.loc(), "reset writes max", "reset writes " + str(wv))

    # ------------------------------------------------ guard polarity (sibling agreement)
    # the swap validation judges the EFFECTIVE utilisation: its fold over the ancestors is part of this property too
    from .C15 import effective_swap_scheme
    effective_swap_scheme(ctx)
    vs = ctx.fn1("Oomd::Senpai::validateSwap")
    last = [r for r in returns(vs) if "effective_swap_util_pct_opt" in ret_text(vs, r)]
    ctx.counters["validateSwap_final_returns"] = len(last)
    for r in last:
        t = ret_text(vs, r)
        ok = re.search(r"\(\*effective_swap_util_pct_opt < this->swap_threshold_\)", t) is not None or \
            re.search(r"\(this->swap_threshold_ > \*effective_swap_util_pct_opt\)", t) is not None
        ctx.check(ok, "validateSwap:below-threshold", "sibling_agreement", vs.loc(r),
                  "swap validation passes while utilisation < swap_threshold (as calculateSwappinessFactor and validatePressure do)",
                  "swap validation returns '%s': inverted against its sibling checks - reclaim runs when swap is nearly exhausted and is blocked when it is free" % t[-80:])
    if not last:
        ctx.violation("validateSwap:below-threshold", "sibling_agreement", vs.loc(), "validateSwap no longer compares the effective swap utilisation with swap_threshold_")
    vp = ctx.fn1("Oomd::Senpai::validatePressure")
    for r in returns(vp):
        t = ret_text(vp, r)
        if "std::max" in t:
            ctx.check(t.count(" < this->mem_pressure_pct_") == 1 and t.count(" < this->io_pressure_pct_") == 1 and "&&" in t and ">" not in t.replace("->", ""),
                      "validatePressure:below-targets", "sibling_agreement", vp.loc(r), "both pressures must be below their targets", "pressure validation is " + t[:160])
    csf = ctx.fn1("Oomd::Senpai::calculateSwappinessFactor")
    fc = Flow(P, csf, cg=cg)
    z = [r for r in returns(csf) if ret_text(csf, r).endswith("(0)") or ret_text(csf, r) in ("0", "Oomd::SystemMaybe(0)")]
    ctx.check(any(any(k == "(*effective_swap_util_pct_opt < this->swap_threshold_)" and p is False for k, p in fc.guards(r)) for r in z), "swappiness-factor:zero-at-threshold", "sibling_agreement",
              csf.loc(), "utilisation >= threshold gives factor 0", "calculateSwappinessFactor no longer zeroes the factor at the threshold")

    # ------------------------------------------------ state keyed by cgroup identity
    sc = P.classes.get("Oomd::Senpai", {})
    tf = [x for x in sc.get("fields", []) if x["name"] == "tracked_cgroups_"]
    ctx.check(bool(tf) and "CgroupContext::Id" in tf[0]["type"], "state-keyed-by-cgroup-id", "E-TYPE", "oomd/plugins/Senpai.h", "tracked_cgroups_ is keyed by CgroupContext::Id",
              "tracked_cgroups_ has type " + (tf[0]["type"] if tf else "?"))
    for i in runf.calls("emplace_hint", "emplace", "insert", "try_emplace"):
        if "tracked_cgroups_" in runf.text(runf.nodes[i].get("recv", -1)):
            args = [X(x) for x in runf.nodes[i]["args"]]
            ctx.check(any(a == "*(*var:resolvedIt).id(nullptr)" or a.endswith(".id(nullptr)") and a.startswith("*") for a in args), "tracked-under-context-id", "provenance", runf.loc(i),
                      "a new cgroup is tracked under its context's id", "tracked under " + str(args)[:100])
    flr = Flow(P, runf, cg=cg)
    for i in runf.calls("Senpai::tick", "Senpai::tick_immediate_backoff"):
        g = flr.guards(i)
        ctx.check(any(("id()" in k or "id(nullptr)" in k) and "trackedIt->first" in k.replace("->->", "->") for k, p in g), "tick-only-for-matching-id", "guarded_by", runf.loc(i),
                  "a tracked state is only driven for the cgroup with the same id", "tick is not guarded by id equality")
