"""C05 Post-action delay (DESIGN 4/C05)."""
from .common import *

EXPLANATION = (
    "Decides the structural clauses of C05 on the CFGs of Ruleset::runOnceImpl, "
    "Ruleset::run_action_chain, Ruleset::pause_actions and BaseKillPlugin::run for all "
    "inputs/histories at once: the pause gate (strict '<' on the steady clock) dominates every "
    "start or resumption of an action chain; the invoking ruleset is set on every path that runs "
    "an action (the only way a plugin can apply its own post_action_delay); STOP writes the pause "
    "from the ruleset delay exactly when no plugin overrode it and always resets the override flag; "
    "a kill plugin that pauses its ruleset returns STOP; detectors/preruns do not depend on the "
    "pause state; no wall clock is used.  It does NOT decide clock arithmetic on concrete tick "
    "spacings (value clause).")
RULE_SUMMARY = ("E-PATH guard dominance, must-precede, split-on-condition must-follow; "
                "field read/write scans; who-may-call on system_clock")
NOT_DECIDED = ["clock arithmetic on concrete tick spacings and delays"]
ASSUMPTIONS = ["std::chrono::steady_clock is monotonic",
               "a plugin reaches its ruleset only through OomdContext::getInvokingRuleset"]

GATE = ("steady_clock::now()", "pause_actions_until_")


def pause_field_writers(ctx):
    """Each ruleset object's pause belongs to it alone: the deadline and the override flag are written only by run_action_chain (STOP)
    and pause_actions of that object (shared by C05, C06 and C11: instances pause and resume independently)."""
    P = ctx.prog
    pause = ctx.fn1("Oomd::Engine::Ruleset::pause_actions")
    # who writes the pause fields at all
    for f in P.fns.values():
        if f.pq in ("Oomd::Engine::Ruleset::run_action_chain", "Oomd::Engine::Ruleset::pause_actions"):
            continue
        if f.kind == "ctor" and f.cls.endswith("Ruleset"):
            continue
        for fld in ("pause_actions_until_", "plugin_overrode_post_action_delay_"):
            for i in field_writes(f, fld):
                ctx.violation("pause-field-writer:%s:%s" % (short(f), fld), "who-may-write", f.loc(i),
                              "%s written outside run_action_chain/pause_actions" % fld)
    ctx.ok("pause-field-writers", "who-may-write", pause.loc(), "pause fields written only by the two owners")



def pause_value_rule(ctx):
    """The ruleset's own pause on STOP: steady now + seconds(post_action_delay_), the clock read after the stopping action returned
    (shared by C05 and C02's 'not inside its post-action pause')."""
    P = ctx.prog
    chain = ctx.fn1("Oomd::Engine::Ruleset::run_action_chain")
    pw = field_writes(chain, "pause_actions_until_")
    ctx.counters["pause_writes_in_chain"] = len(pw)
    ctx.floor("pause_writes_in_chain", 1, "writes of pause_actions_until_ in run_action_chain")
    Xch = Expander(P, chain)
    runs_ = virtual_run_calls(chain, prog=P)
    for i in pw:
        rhs = Xch(write_rhs(chain, i))
        ctx.check("steady_clock::now()" in rhs and "post_action_delay_" in rhs and "+" in rhs,
                  "stop-pause-value:run_action_chain", "value-shape", chain.loc(i),
                  "pause = steady now + seconds(post_action_delay_)",
                  "pause written from unexpected expression: " + rhs)
        # t is the time the chain ENDED with STOP: the clock is read after the stopping action returned
        src = write_rhs(chain, i)
        nows = [x for x in chain.walk(src) if chain.nodes[x]["k"] == "call" and chain.nodes[x].get("cname") == "now"]
        if not nows:
            for x in chain.walk(src):
                m_ = chain.nodes[x]
                if m_["k"] == "ref" and m_.get("dk") == "local":
                    init_, v_ = local_init(chain, m_["name"], must=False)
                    if v_ is not None and init_ is not None and init_ >= 0:
                        nows += [y for y in chain.walk(init_) if chain.nodes[y]["k"] == "call" and chain.nodes[y].get("cname") == "now"]
        fo_ = Flow(P, chain, events={r_: [("set", "action-ran")] for r_ in runs_}, cg=ctx.cg)
        after = bool(nows) and all(chain.pos_of(x) is not None and fo_.must(x, "action-ran") for x in nows)
        ctx.check(after, "stop-pause-counted-from-chain-end:run_action_chain", "order (clock read after the action returned)", chain.loc(nows[0]) if nows else chain.loc(i),
                  "the clock value the pause is computed from is read after the stopping action's run() returned",
                  "the pause is computed from a clock value read before the stopping action ran: the pause ends d seconds after the chain STARTED, so a slow "
                  "action (long kill, blocking restart) shortens or cancels the post-action delay")



def invoking_ruleset_rule(ctx):
    """The ruleset a plugin reaches through OomdContext::getInvokingRuleset() is the ruleset whose chain runs it: runOnceImpl - which is
    what runs for a plain ruleset and for every per-cgroup instance - publishes `this` before every run_action_chain, and nobody else
    publishes a ruleset.  (A kill plugin applies its own post_action_delay to the ruleset it is handed: handed the template of a
    ruleset-level cgroup pattern, the pause lands on an object whose pause state nothing reads.)  Shared by C05 and C11."""
    P = ctx.prog
    impl = ctx.fn1("Oomd::Engine::Ruleset::runOnceImpl")
    rac = impl.calls("Ruleset::run_action_chain")
    sets = [i for i in impl.calls("OomdContext::setInvokingRuleset") if impl.text(impl.nodes[i]["args"][0]) == "this"]
    fl = Flow(P, impl, events={i: [("set", "invoking_ruleset_set")] for i in sets}, cg=ctx.cg)
    firing_here = firing_edge_in_impl(ctx)
    for i in rac:
        which = "begin" if "begin()" in impl.text(impl.nodes[i]["args"][0]) else "resume"
        if which == "begin" and not firing_here:
            continue
        ctx.check(fl.must(i, "invoking_ruleset_set"), "invoking-ruleset-is-the-running-one:" + which, "must_precede", impl.loc(i),
                  "setInvokingRuleset(this) precedes run_action_chain(%s) on every path" % which,
                  "a path reaches run_action_chain(%s) without runOnceImpl having published itself as the invoking ruleset: a plugin's post_action_delay "
                  "reaches another ruleset object (the template of a per-cgroup ruleset) or none" % which, witness_path(impl, fl, i))
    n_pub = 0
    for f in P.fns.values():
        for i in f.calls("OomdContext::setInvokingRuleset"):
            a = f.text(f.nodes[i]["args"][0]) if f.nodes[i].get("args") else ""
            if a in ("std::nullopt", "{}", "std::optional()"):
                continue
            n_pub += 1
            owner_ = f
            while owner_.kind == "lambda" and owner_.d.get("parentfn") in P.fns:
                owner_ = P.fns[owner_.d["parentfn"]]
            ctx.check(owner_.pq == "Oomd::Engine::Ruleset::runOnceImpl" and a == "this", "invoking-ruleset-published-only-by-the-running-ruleset:" + short(owner_), "who-may-call",
                      f.loc(i), "only runOnceImpl publishes an invoking ruleset, and it publishes itself",
                      "%s publishes %s as the invoking ruleset: for a ruleset-level cgroup pattern that is the template, not the per-cgroup instance whose chain runs" % (short(owner_), a))
    ctx.counters["invoking_ruleset_publications"] = n_pub
    ctx.floor("invoking_ruleset_publications", 1, "setInvokingRuleset(<ruleset>) call sites")



def pause_actions_writes_both(ctx):
    """Ruleset::pause_actions(d) writes the deadline (steady now + d) AND marks the plugin override on every path - also for d = 0: the STOP
    branch of run_action_chain relies on the mark to skip the ruleset's own delay.  Shared by C05 and C02."""
    P = ctx.prog
    pause = ctx.fn1("Oomd::Engine::Ruleset::pause_actions")
    # ---- R4 pause_actions
    pw2 = field_writes(pause, "pause_actions_until_")
    fw2 = [i for i in field_writes(pause, "plugin_overrode_post_action_delay_")
           if pause.text(write_rhs(pause, i)) == "true"]
    ev = {i: [("set", "pw")] for i in pw2}
    ev.update({i: [("set", "fw")] for i in fw2})
    f4 = Flow(P, pause, events=ev, cg=ctx.cg)
    ex = f4.exits()
    good = ex and all(all("pw" in st.must and "fw" in st.must for st in e[3].values()) for e in ex)
    ctx.check(good, "pause_actions-writes-both", "must_follow", pause.loc(),
              "pause_actions writes the deadline and marks the override on every path",
              "pause_actions does not write both pause_actions_until_ and the override flag on every path")
    for i in pw2:
        rhs = Expander(P, pause)(write_rhs(pause, i))          # (a clock reading bound to a local first is the same reading)
        ctx.check("steady_clock::now()" in rhs and "duration" in rhs, "pause_actions-value",
                  "value-shape", pause.loc(i), "deadline = steady now + duration",
                  "deadline written from unexpected expression: " + rhs)

def pause_gate_reads_own_deadline(ctx, tag):
    """'Each matching cgroup has its own post-action pause' / 'rulesets do not influence one another' / 'a suspended chain is resumed on the
    next tick': whether a Ruleset object may act on this tick is decided by ITS OWN pause deadline.  The conditions in runOnceImpl that look
    at the clock - new helpers they call included - read no field of any other Ruleset object (a template pointer, the instance map): a gate
    that looks at a sibling's deadline freezes this instance's suspended chain for as long as the sibling's pause lasts."""
    from ..inline import known_functions
    P, cg = ctx.prog, ctx.cg
    impl = ctx.use(ctx.fn1("Oomd::Engine::Ruleset::runOnceImpl"))
    kn = known_functions()
    gates = [i for i, nd in enumerate(impl.nodes) if nd.get("k") == "if" and "c" in nd and "steady_clock::now()" in Expander(P, impl)(nd["c"])]
    # a gate spelled through a new helper: the helper's body mentions the clock
    def helper_fns(f, node, depth=0):
        out = []
        for x in f.walk(node):
            nd = f.nodes[x]
            if nd.get("k") == "call" and nd.get("cusr"):
                for u in P.resolve(nd["cusr"]):
                    h = P.fns.get(u)
                    if h is not None and h.file.startswith("oomd/") and h.kind != "lambda" and kn is not None and plain(h.d.get("qname", "")) not in kn[0] and depth < 3:
                        out.append(h)
                        out += helper_fns(h, h.body if isinstance(h.body, int) and h.body >= 0 else 0, depth + 1)
        return out
    for i, nd in enumerate(impl.nodes):
        if nd.get("k") == "if" and "c" in nd and i not in gates:
            hs = helper_fns(impl, nd["c"])
            if any(any(y.get("k") == "call" and (y.get("callee") or "").endswith("steady_clock::now") for y in h.nodes) for h in hs):
                gates.append(i)
    ctx.counters[tag + "_pause_gates"] = len(gates)
    ctx.floor(tag + "_pause_gates", 1, "clock-reading conditions in Ruleset::runOnceImpl")
    for gi in gates:
        scope_ = [(impl, impl.nodes[gi]["c"])] + [(h, h.body if isinstance(h.body, int) and h.body >= 0 else 0) for h in helper_fns(impl, impl.nodes[gi]["c"])]
        foreign = []
        for f_, root in scope_:
            ctx.use(f_)
            for x in f_.walk(root):
                nd = f_.nodes[x]
                if nd.get("k") != "member" or not (nd.get("qname") or "").startswith("Oomd::Engine::Ruleset::"):
                    continue
                base = f_.nodes[f_.strip(nd["base"])] if "base" in nd else {}
                fld = nd["name"]
                if base.get("k") != "this":
                    foreign.append("%s in %s" % (f_.text(x)[:50], short(f_)))
                elif fld in ("runnable_rulesets_",) or (kn is not None and fld not in ("pause_actions_until_", "silenced_logs_", "name_", "cgroup_", "enabled_", "active_action_chain_state_",
                                                                                         "post_action_delay_", "plugin_overrode_post_action_delay_")):
                    foreign.append("this->%s in %s" % (fld, short(f_)))
        ctx.check(not foreign, "%s:pause-gate-reads-own-deadline@%d" % (tag, impl.nodes[gi].get("line", 0)), "field-read (helpers followed)", impl.loc(gi),
                  "the pause gate reads only this Ruleset object's own deadline",
                  "the pause gate of Ruleset::runOnceImpl at line %d depends on another Ruleset object's state (%s): an instance's chain start - and the resumption of "
                  "its suspended chain, which sits behind the same gate - is held back by a pause that is not its own" % (impl.nodes[gi].get("line", 0), "; ".join(sorted(set(foreign))[:3])))


def run(ctx):
    pause_gate_reads_own_deadline(ctx, "C05")
    from .C11 import instances_leave_only_through_the_sweep
    instances_leave_only_through_the_sweep(ctx)      # the per-cgroup post-action pause lives in the instance
    from .C13 import compile_keeps_nothing_between_calls
    compile_keeps_nothing_between_calls(ctx, "C05")      # a setting a ruleset omits is the default, not what the previous compile left
    from .C02 import engine_evaluation_order
    engine_evaluation_order(ctx)          # a paused ruleset is still run every tick (its detectors keep their windows)
    from .C13 import merge_writes_only_overridable_parts
    merge_writes_only_overridable_parts(ctx)
    from .C11 import instance_skipped_only_for_documented_reasons
    instance_skipped_only_for_documented_reasons(ctx)
    from .C12 import ruleset_settings_text
    ruleset_settings_text(ctx)
    invoking_ruleset_rule(ctx)
    detector_walk_every_tick(ctx, "C05")
    detector_group_runs_every_detector(ctx, "C05")
    ruleset_state_is_per_instance(ctx)
    # locals / parameters the rules below refer to by name (a rename makes the analysis 'broken', never a violation)
    ctx.anchor(ctx.fn1('Oomd::Engine::Ruleset::runOnceImpl'), 'run_actions')
    ctx.anchor(ctx.fn1('Oomd::BaseKillPlugin::run'))
    ctx.anchor(ctx.fn1('Oomd::Engine::Ruleset::pause_actions'), 'duration')
    P = ctx.prog
    ruleset_wiring(ctx, "C05", ['post_action_delay'])
    impl = ctx.fn1("Oomd::Engine::Ruleset::runOnceImpl")
    chain = ctx.fn1("Oomd::Engine::Ruleset::run_action_chain")
    pause = ctx.fn1("Oomd::Engine::Ruleset::pause_actions")

    # ---- R1/R2 in runOnceImpl
    rac = impl.calls("Ruleset::run_action_chain")
    sets = [i for i in impl.calls("OomdContext::setInvokingRuleset")
            if impl.text(impl.nodes[i]["args"][0]) == "this"]
    ev = {i: [("set", "invoking_ruleset_set")] for i in sets}
    fl = Flow(P, impl, events=ev, cg=ctx.cg)
    firing_here = firing_edge_in_impl(ctx)
    for i in rac:
        ctx.count("run_action_chain_calls")
        which = "begin" if "begin()" in impl.text(impl.nodes[i]["args"][0]) else "resume"
        g = fl.guards(i)
        gate = [(k, p) for k, p in g if all(s in k for s in GATE)]
        strict = any(k.startswith("(std::chrono::steady_clock::now() < ") and p is False for k, p in gate)
        ctx.check(strict, "pause-gate:runOnceImpl:" + which, "guarded_by", impl.loc(i),
                  "run_action_chain(%s) is dominated by !(steady now < pause_actions_until_)" % which,
                  "run_action_chain(%s) is reachable without the strict pause gate "
                  "'steady_clock::now() < pause_actions_until_' being false" % which,
                  witness_path(impl, fl, i))
        if which == "begin" and not firing_here:
            continue        # the fresh chain's setInvokingRuleset sits on the firing edge, which is not in this function
        ctx.check(fl.must(i, "invoking_ruleset_set"),
                  "invoking-ruleset:runOnceImpl:" + which, "must_precede", impl.loc(i),
                  "setInvokingRuleset(this) precedes run_action_chain(%s) on every path" % which,
                  "a path reaches run_action_chain(%s) without setInvokingRuleset(this): a plugin's "
                  "post_action_delay override cannot reach its ruleset and is silently replaced "
                  "by the ruleset delay" % which,
                  witness_path(impl, fl, i))
    ctx.floor("run_action_chain_calls", 2, "calls of run_action_chain in runOnceImpl")
    # nobody else starts a chain
    for f in P.fns.values():
        if f is impl:
            continue
        for i in f.calls("Ruleset::run_action_chain"):
            ctx.violation("chain-start-outside:" + short(f), "who-may-call", f.loc(i),
                          "run_action_chain called outside runOnceImpl (bypasses the pause gate)")
    ctx.ok("chain-start-only-in-runOnceImpl", "who-may-call", impl.loc(), "only runOnceImpl starts chains")

    # ---- R3 run_action_chain STOP case
    runs = virtual_run_calls(chain, prog=P)
    ctx.count("chain_run_calls", len(runs))
    ctx.floor("chain_run_calls", 1, "virtual BasePlugin::run call in run_action_chain")
    pw = field_writes(chain, "pause_actions_until_")
    fr = [i for i in field_writes(chain, "plugin_overrode_post_action_delay_")
          if chain.text(write_rhs(chain, i)) == "false"]
    # the block entered when the action returned STOP: a case label, or the equal edge of an if-chain test
    stop_blocks = [case_blocks(chain)["STOP"]] if "STOP" in case_blocks(chain) else []
    if not stop_blocks:
        ctx.broken("stop-case", "anchor", chain.loc(), "no 'case PluginRet::STOP' in run_action_chain")
    else:
        ev = {i: [("set", "pause_written")] for i in pw}
        ev.update({i: [("set", "flag_reset")] for i in fr})
        is_flag = lambda k: "plugin_overrode_post_action_delay_" in k
        fs = Flow(P, chain, events=ev, start=stop_blocks[0], cg=ctx.cg, split=is_flag)
        exits = fs.exits()
        bad = [e for e in exits if e[0] in ("return", "fallthrough")
               and not all("flag_reset" in st.must for st in e[3].values())]
        ctx.check(exits and not bad, "stop-resets-override-flag:run_action_chain", "must_follow",
                  chain.loc(),
                  "every path from 'case STOP' to the function exit resets plugin_overrode_post_action_delay_",
                  "a path from 'case STOP' leaves run_action_chain without resetting the override flag "
                  "(a stale flag suppresses the next pause)")
        # at the reset: partitions that took the !flag edge must have written the pause
        okp = bool(fr)
        for i in fr:
            parts = fs.at(i) or {}
            for val, st in parts.items():
                d = dict(val)
                took_false = any(k.startswith("C:") and v is False for k, v in d.items())
                took_true = any(k.startswith("C:") and v is True for k, v in d.items())
                if took_false and "pause_written" not in st.must:
                    okp = False
                if took_true and "pause_written" in st.may:
                    okp = False
                if not took_false and not took_true:
                    okp = False    # flag not tested on this path
        ctx.check(okp, "stop-sets-pause-unless-overridden:run_action_chain", "split must_follow",
                  chain.loc(fr[0]) if fr else chain.loc(),
                  "on STOP the pause is written iff the plugin did not override it",
                  "on STOP the write of pause_actions_until_ is not tied to "
                  "!plugin_overrode_post_action_delay_")
        pause_value_rule(ctx)
    pause_actions_writes_both(ctx)
    pause_field_writers(ctx)

    # ---- R5 kill plugin: STOP path reaches its ruleset, callers of pause_actions return STOP
    for f, i in who_calls(P, "Ruleset::pause_actions"):
        ctx.use(f)
        ctx.count("pause_actions_callers")
        fl5 = Flow(P, f, events={i: [("set", "paused")]}, cg=ctx.cg)
        bad = []
        for kind, node, b, parts in fl5.exits():
            if any("paused" in st.may for st in parts.values()):
                if kind != "return" or ret_const(f, node) != "STOP":
                    bad.append(f.loc(node) if node is not None else kind)
        ctx.check(not bad, "pause-then-stop:" + short(f), "must_follow", f.loc(i),
                  "every continuation after pause_actions returns STOP",
                  "after pause_actions the function can leave without returning STOP (%s): "
                  "the override flag would go stale" % ", ".join(bad))
    ctx.floor("pause_actions_callers", 1, "callers of Ruleset::pause_actions")

    krun = ctx.fn1("Oomd::BaseKillPlugin::run")
    gi = krun.calls("OomdContext::getInvokingRuleset")
    pa = krun.calls("Ruleset::pause_actions")
    ev = {i: [("set", "got_ruleset")] for i in gi}
    ev.update({i: [("set", "paused")] for i in pa})
    # the local that holds the invoking ruleset, whatever it is called
    rs_names = [v_["name"] for d_ in krun.all("decl") for v_ in krun.nodes[d_].get("vars", [])
                if v_.get("init") is not None and v_.get("init", -1) >= 0 and krun.strip(v_["init"]) in [krun.strip(g_) for g_ in gi]]
    if len(rs_names) != 1:
        ctx.broken("invoking-ruleset-local", "anchor", krun.loc(), "BaseKillPlugin::run does not keep getInvokingRuleset() in one local: the split on its presence cannot be set up")
        return
    rsn = rs_names[0]
    split = lambda k: "postActionDelay_" in k or k == rsn
    fk = Flow(P, krun, events=ev, cg=ctx.cg, split=split)
    stops = [r for r in returns(krun) if ret_const(krun, r) == "STOP"]
    ctx.count("kill_run_stop_returns", len(stops))
    ctx.floor("kill_run_stop_returns", 1, "return STOP in BaseKillPlugin::run")
    for r in stops:
        ctx.check(fk.must(r, "got_ruleset"), "stop-consults-ruleset:BaseKillPlugin::run", "must_precede",
                  krun.loc(r), "getInvokingRuleset() precedes return STOP",
                  "return STOP reachable without consulting the invoking ruleset")
        parts = fk.at(r) or {}
        okp = True
        for val, st in parts.items():
            d = dict(val)
            has_delay = any(k.startswith("C:") and "postActionDelay_" in k and v is True for k, v in d.items())
            has_rs = d.get("C:" + rsn) is True
            if has_delay and has_rs and "paused" not in st.must:
                okp = False
            if not (has_delay and has_rs) and "paused" in st.may:
                okp = False
        ctx.check(okp, "stop-applies-plugin-delay:BaseKillPlugin::run", "split must_precede", krun.loc(r),
                  "pause_actions(seconds(*postActionDelay_)) runs exactly when both the ruleset and the delay are present",
                  "return STOP is reachable with a configured postActionDelay_ and an invoking ruleset "
                  "but without pause_actions")
    for i in pa:
        a = krun.text(krun.nodes[i]["args"][0])
        ctx.check("postActionDelay_" in a and "seconds" in a, "plugin-delay-value:BaseKillPlugin::run",
                  "value-shape", krun.loc(i), "argument is seconds(*postActionDelay_)",
                  "pause_actions argument is not the plugin's post_action_delay: " + a)

    # the delay the stopping action applies is the one its configuration gives: the field is filled by the argument parser alone (it is
    # registered with it by reference) and is never assigned - not to "normalise" a 0 into "absent", which would let the ruleset's delay
    # apply where the action asked for none
    regs = [(f, i) for f in P.fns.values() if f.file.startswith("oomd/plugins/") for i in f.calls("addArgumentCustom", "addArgument")
            if any("postActionDelay_" in f.text(a) for a in f.nodes[i].get("args", []))]
    ctx.count("plugin_delay_registrations", len(regs))
    ctx.floor("plugin_delay_registrations", 1, "registration of postActionDelay_ with the argument parser")
    for f, i in regs:
        ctx.use(f)
        a = [f.text(x) for x in f.nodes[i].get("args", [])]
        ctx.check(len(a) >= 2 and "post_action_delay" in a[0] and plain(a[1]).endswith("postActionDelay_"), "plugin-delay-is-the-configured-one:registration",
                  "value-shape", f.loc(i), "post_action_delay is parsed into postActionDelay_", "the registration is %s" % ", ".join(a)[:160])
    n_w = 0
    for f in P.fns.values():
        if not f.file.startswith("oomd/"):
            continue
        for i in field_writes(f, "postActionDelay_"):
            n_w += 1
            ctx.use(f)
            rhs = write_rhs(f, i)
            rt = f.text(rhs) if rhs is not None and rhs >= 0 else ""
            if not (rt in ("std::nullopt", "{}", "") or const_int(f, rhs) is not None or "postActionDelay_" in rt):
                # a value of unknown origin (the parsed text kept in a local first, say): not decided here
                ctx.broken("plugin-delay-is-the-configured-one:%s@%d" % (short(f), f.nodes[i].get("line", 0)), "who-writes", f.loc(i),
                           "%s assigns postActionDelay_ from %s: whether that is the configured value is not something this rule follows" % (f.pq, rt[:80]))
                continue
            ctx.check(False, "plugin-delay-is-the-configured-one:%s@%d" % (short(f), f.nodes[i].get("line", 0)), "who-writes", f.loc(i),
                      "postActionDelay_ is written by the argument parser only",
                      "%s assigns postActionDelay_ (%s): the delay applied after this action stops is then not the post_action_delay its "
                      "configuration gives (a configured 0 turned into 'absent' makes the ruleset's delay apply instead of none)" % (f.pq, f.text(i)[:120]))
    ctx.ok("plugin-delay-is-the-configured-one:writers", "who-writes", "-", "%d assignments to postActionDelay_ outside the parser" % n_w)

    # ---- R6 detectors/preruns do not depend on the pause state
    for q in ("Oomd::Engine::Ruleset::prerun", "Oomd::Engine::DetectorGroup::check",
              "Oomd::Engine::DetectorGroup::prerun"):
        f = ctx.fn1(q)
        reads = field_reads(f, "pause_actions_until_") + field_reads(f, "plugin_overrode_post_action_delay_")
        ctx.check(not reads, "no-pause-dependence:" + short(f), "field-read", f.loc(),
                  "does not read the pause state", "reads the pause state (detectors/preruns must run while paused)")
    # detector loop precedes the gate in runOnceImpl
    checks = impl.calls("DetectorGroup::check")
    ctx.count("check_calls", len(checks))
    ctx.floor("check_calls", 1, "DetectorGroup::check call in runOnceImpl")
    fl2 = Flow(P, impl, cg=ctx.cg)
    for i in checks:
        g = fl2.guards(i)
        dep = [k for k, p in g if "pause_actions_until_" in k]
        ctx.check(not dep, "detectors-before-gate:runOnceImpl", "guarded_by", impl.loc(i),
                  "DetectorGroup::check is not conditioned on the pause gate",
                  "DetectorGroup::check is conditioned on the pause gate: " + "; ".join(dep))

    # ---- R7 clock source
    n_steady = 0
    for f in P.fns.values():
        for i in f.calls("std::chrono::system_clock::now", "std::chrono::_V2::system_clock::now"):
            if f.pq.startswith("Oomd::LogBase") or f.pq.startswith("Oomd::Log") or "Log" in f.file:
                continue
            ctx.violation("wall-clock:" + short(f), "who-may-call", f.loc(i),
                          "system_clock::now used outside log time-stamping (pauses and windows must use the steady clock)")
        n_steady += len(f.calls("std::chrono::steady_clock::now", "std::chrono::_V2::steady_clock::now"))
    ctx.counters["steady_clock_reads"] = n_steady
    ctx.floor("steady_clock_reads", 5, "steady_clock::now call sites")
    ctx.ok("clock-source", "who-may-call", "-", "%d steady_clock reads; system_clock only in logging" % n_steady)
