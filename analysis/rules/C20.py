"""C20 Async logger (DESIGN 4/C20)."""
import re
from .common import *
from ..lockset import LockAnalysis
from ..escape import Escape

EXPLANATION = (
    "Decides the structural clauses of the asynchronous logger for all producers, message sizes and "
    "interleavings: every access of the shared AsyncLogState fields (ioTick, ioThreadRunning, curSize, "
    "numDiscarded, the queue selector) happens with state_.lock held, with one audited exception - the "
    "flusher's use of the swapped-out queue pointer, which it obtained inside the critical section "
    "that then flips ioTick (ownership hand-over); every other field of Log / AsyncLogState reached "
    "from two threads with a write outside construction has one common lock (generic audit); the "
    "backlog test 'size + backlog > max' (or 'backlog > max - size' where size <= max dominates it, so "
    "the unsigned difference cannot wrap) dominates the enqueue, its drop edge increments numDiscarded and enqueues nothing; the amount added to the "
    "backlog is the size of the enqueued text taken before it is moved (no use-after-move); the flusher "
    "resets curSize/numDiscarded inside the swapping critical section and reports drops when the "
    "count is non-zero; the silencing flag is thread_local; kmsgLog does not consult it; the destructor "
    "clears the run flag under the lock, notifies and joins, and the flusher writes the queue it holds "
    "after observing the stop flag.  Exactly-once FIFO delivery under all schedules and the numeric "
    "memory bound (two queues) are schedule/value clauses and are not decided.")
RULE_SUMMARY = "E-LOCK guarded-by with one audited hand-over, E-MISC use_after_move, guard dominance, storage class, destructor order"
NOT_DECIDED = ["exactly-once FIFO delivery under all interleavings", "the numeric memory bound (each of the two queues may hold up to the cap)"]
ASSUMPTIONS = ["std::mutex / condition_variable semantics", "a moved-from std::string has an unspecified (in practice empty) value"]

LOCK = "Oomd::Log::AsyncLogState::lock"
GUARDED = ("ioTick", "ioThreadRunning", "curSize", "numDiscarded", "queues")


def nothing_logs_before_log_init(ctx):
    """The process-wide logger is a function-local static: the FIRST Log::get fixes its kmsg descriptor and its mode (inline / queued) for
    the life of the process, and a later Log::init quietly gets that object back.  So in main() nothing that can reach the logger runs
    before Log::init has: otherwise kmsg_fd stays -1 (the kill record falls back to OLOG, which silencing suppresses) and every line is
    written inline from the calling thread (no backlog bound, no drop accounting)."""
    P, cg = ctx.prog, ctx.cg
    mains = [f for f in P.fns.values() if f.pq == "main"]
    if len(mains) != 1:
        ctx.broken("nothing-logs-before-Log::init", "anchor", "-", "function main not found")
        return
    main = ctx.use(mains[0])
    inits = main.calls("Log::init")
    ctx.counters["log_init_sites"] = len(inits)
    ctx.floor("log_init_sites", 1, "Log::init call in main")
    if not inits:
        return
    fl = Flow(P, main, cg=cg, events={i: [("set", "log-ready")] for i in inits})
    sinks = {u for u, f in P.fns.items() if f.pq in ("Oomd::Log::get", "Oomd::LogStream::LogStream", "Oomd::Log::kmsgLog", "Oomd::Log::debugLog")}
    ctx.counters["logger_entry_points"] = len(sinks)
    ctx.floor("logger_entry_points", 3, "entry points of the logger (Log::get, LogStream, kmsgLog, debugLog)")
    n = 0
    for e in cg.out.get(main.usr, ()):
        if not isinstance(e.node, int) or main.pos_of(e.node) is None or e.node in inits:
            continue
        if fl.must(e.node, "log-ready"):
            continue
        n += 1
        hit = cg.reach([e.dst]) & sinks
        if not hit:
            continue
        tgt = sorted(hit)[0]
        ch = cg.path(e.dst, tgt) or []
        ctx.violation("nothing-logs-before-Log::init:%s@%d" % (short(P.fns[e.dst]), main.nodes[e.node].get("line", 0)), "never_before + call-graph reachability (who-may-call)", main.loc(e.node),
                      "main calls %s before Log::init has run on every path to it, and that call can reach the logger (%s): the first Log::get builds the process-wide "
                      "logger with kmsg_fd=-1 in inline mode and Log::init's arguments are ignored afterwards - the kill record loses its kmsg path (and is "
                      "suppressed by silencing), lines are written synchronously without the backlog bound"
                      % (P.fns[e.dst].pq, P.fns[tgt].pq), ["%s -> %s at %s" % (P.fns[x.src].pq, P.fns[x.dst].pq, P.fns[x.src].loc(x.node) if isinstance(x.node, int) else "scope exit") for x in ch][:8])
    ctx.counters["calls_before_log_init"] = n
    ctx.floor("calls_before_log_init", 5, "call edges of main that can run before Log::init")
    ctx.ok("nothing-logs-before-Log::init", "never_before + call-graph reachability (who-may-call)", main.loc(inits[0]), "%d call edges of main can run before Log::init; their closures were searched for the logger's entry points" % n)


def process_logger_is_destroyed_at_exit(ctx):
    """'All accepted lines are flushed before logger shutdown returns' - and shutdown happens: the process-wide logger Log::get hands out
    is an OBJECT with static storage duration (its destructor - stop flag, notify, join, after the flusher drained the queue - runs
    when the process exits normally), not a heap object that is never deleted.  With a leaked logger the flusher thread simply dies
    with the process and whatever was queued is lost without a drop notice."""
    P = ctx.prog
    g = ctx.use(ctx.fn1("Oomd::Log::get"))
    rets = [r for r in returns(g) if "val" in g.nodes[r]]
    ok, why = bool(rets), "no value return"
    for r in rets:
        vn = g.nodes[g.strip(g.nodes[r]["val"])]
        if not (vn.get("k") == "ref" and vn.get("dk") == "static_local"):
            ok, why = False, "it returns %s, which is not a static local object" % g.text(g.nodes[r]["val"])[:60]
            continue
        _, v = g.vardecl(vn["decl"]) if vn.get("decl") else (None, None)
        ty = ((v or {}).get("type") or "").replace("const ", "").strip()
        if ty not in ("Oomd::Log", "Log"):
            ok, why = False, "the static local '%s' has type %s (a pointer / reference / wrapper is not destroyed with the object it refers to)" % (vn["name"], ty)
    news = [i for i, n in enumerate(g.nodes) if n.get("k") == "new" or (n.get("k") == "call" and n.get("cname") in ("make_unique", "make_shared"))]
    if ok and news:
        ok, why = False, "it allocates the logger on the heap at line %d" % g.nodes[news[0]].get("line", 0)
    ctx.check(ok, "process-logger-is-destroyed-at-exit", "storage_class + declared type", g.loc(),
              "Log::get returns a static local of class type Log", "Log::get does not hand out a logger with static storage duration: %s.  ~Log never runs for the "
              "logger Log::init created, so on a normal exit the lines still queued for the flusher thread are lost (accepted, not counted as dropped, never written)" % why)


def silencing_is_bracketed(ctx):
    """'Silencing affects only the calling thread, for the bracketed plugin call': wherever oomd's own code writes LogStream::Control::DISABLE,
    the matching ENABLE is written on every path before the function is left (returns included - an early return between the two leaves
    the thread silenced, and every later line of that thread, engine lines of other rulesets included, is dropped)."""
    P, cg = ctx.prog, ctx.cg
    n = 0
    for f in sorted(P.fns.values(), key=lambda x: (x.file, x.line, x.usr)):
        if not f.file.startswith("oomd/") or f.file.endswith("Test.cpp") or f.pq.startswith("Oomd::LogStream"):
            continue
        sites = {"DISABLE": [], "ENABLE": []}
        for i, nd in enumerate(f.nodes):
            if nd.get("k") == "ref" and nd.get("dk") == "enumconst" and nd.get("qname") in ("Oomd::LogStream::Control::DISABLE", "Oomd::LogStream::Control::ENABLE"):
                x = i
                while x is not None and not (f.nodes[x]["k"] == "call" and f.nodes[x].get("op") == "<<" and f.pos_of(x) is not None):
                    x = f.parent.get(x)
                if x is not None:
                    sites[nd["name"]].append(x)
        if not sites["DISABLE"]:
            continue
        n += 1
        ctx.use(f)
        ev = {}
        for x in sites["DISABLE"]:
            ev.setdefault(x, []).append(("set", "silenced"))
        for x in sites["ENABLE"]:
            ev.setdefault(x, []).append(("clear", "silenced"))
        # DISABLE and ENABLE usually sit under the same test (`if (silenced & PLUGINS)`), evaluated twice: the paths are kept apart by it
        f0 = Flow(P, f, cg=cg)
        keys = {k for x in sites["DISABLE"] + sites["ENABLE"] for k, p_ in f0.guards(x) if isinstance(k, str) and not is_loop_control_fact(k)}
        fl = Flow(P, f, events=ev, cg=cg, split=lambda k: k in keys)
        bad = []
        for kind, node, b, parts in fl.exits():
            if kind in ("return", "fallthrough") and any("silenced" in st.may for st in parts.values()):
                bad.append(f.loc(node) if node is not None else "end of function")
        ctx.check(not bad, "silencing-is-bracketed:%s" % short(f), "must_follow (set/clear tokens on all exits)", f.loc(sites["DISABLE"][0]),
                  "every DISABLE in %s is followed by ENABLE before the function is left" % short(f),
                  "%s can be left at %s with logging still disabled for the calling thread (DISABLE written, no ENABLE on that path): every later line of that "
                  "thread is dropped until some other silenced call happens to re-enable it" % (f.pq, ", ".join(sorted(set(bad))[:3])), witness_path(f, fl, sites["DISABLE"][0]))
    ctx.counters["silencing_functions"] = n
    ctx.floor("silencing_functions", 2, "functions that write LogStream::Control::DISABLE (DetectorGroup::check, Ruleset::run_action_chain)")


def logger_is_built_on_an_open_kmsg_descriptor(ctx):
    """'Silencing never suppresses the kmsg kill record': the record escapes silencing only because kmsgLog writes it straight to the kmsg
    descriptor.  Log::init therefore builds the process-wide logger only with a descriptor that open() returned (>= 0): when the kmsg path
    cannot be opened it fails (main refuses to start) instead of building a logger with kmsg_fd = -1, whose kmsgLog falls back to OLOG -
    which a silenced thread drops."""
    P, cg = ctx.prog, ctx.cg
    f = ctx.use(ctx.fn1("Oomd::Log::init"))
    gets = [i for i in f.calls("Log::get") if f.nodes[i].get("args") and f.pos_of(i) is not None]
    ctx.counters["log_get_in_init"] = len(gets)
    ctx.floor("log_get_in_init", 1, "Log::get call in Log::init")
    opened = locals_receiving(f, r"(?<![\w:])(::)?open(at)?\(")
    fl = Flow(P, f, cg=cg)
    for i in gets:
        a0 = f.text(f.nodes[i]["args"][0])
        g = fl.guards(i)
        ok = a0 in opened and any(isinstance(k, str) and ((k in ("(%s < 0)" % a0, "(0 > %s)" % a0, "(%s == -1)" % a0, "(-1 == %s)" % a0) and p is False) or
                                                          (k in ("(%s >= 0)" % a0, "(0 <= %s)" % a0) and p is True)) for k, p in g)
        ctx.check(ok, "logger-is-built-on-an-open-kmsg-descriptor", "guarded_by", f.loc(i),
                  "Log::get receives a descriptor that open() returned successfully",
                  "Log::init builds the process-wide logger with '%s' although the open may have failed (no dominating '%s >= 0'): with kmsg_fd = -1 the kill record "
                  "has no path that escapes silencing - under silence-logs: plugins it appears nowhere" % (a0, a0), witness_path(f, fl, i))


def every_log_statement_owns_its_text(ctx):
    """'Every accepted message is written exactly once': the text of a log statement is assembled in the LogStream object of that
    statement and handed down by its destructor.  Two LogStream objects can be alive on one thread at the same time (a log statement
    whose operand logs), so each owns its buffer: `stream_` is a std::ostringstream held by value, not a reference / pointer to a
    buffer shared per thread or per process - with a shared one the inner statement wipes the outer one's text and the inner line is
    submitted twice.  No function of the logger keeps a static / thread_local stream or string."""
    P = ctx.prog
    cls = P.classes.get("Oomd::LogStream")
    if not cls:
        ctx.broken("every-log-statement-owns-its-text", "anchor", "-", "class Oomd::LogStream not found")
        return
    bufs = [x for x in cls["fields"] if "stream" in (x.get("type") or "") or "string" in (x.get("type") or "")]
    ctx.counters["logstream_buffers"] = len(bufs)
    ctx.floor("logstream_buffers", 1, "text buffer member of LogStream")
    for x in bufs:
        t = (x.get("type") or "").strip()
        ctx.check(not x.get("static") and not t.endswith(("&", "*")) and "reference_wrapper" not in t and "_ptr<" not in t,
                  "every-log-statement-owns-its-text:LogStream::%s" % x["name"], "storage_class + declared type", "oomd/Log.h:%d" % x.get("line", 0),
                  "the statement's text buffer is held by value (%s)" % t,
                  "LogStream::%s is declared %s%s: the text of a log statement lives in a buffer other statements share - a statement whose operand "
                  "logs has its text wiped by the inner one, and the inner line reaches the sink twice" % (x["name"], "static " if x.get("static") else "", t))
    n = 0
    for f in P.fns.values():
        if not f.file.startswith("oomd/Log."):
            continue
        for d in f.all("decl"):
            for v in f.nodes[d].get("vars", []):
                if (v.get("static") or v.get("tls") or v.get("storage") in ("static", "thread_local")) and re.search(r"stream|string", v.get("type") or ""):
                    n += 1
                    ctx.use(f)
                    ctx.violation("every-log-statement-owns-its-text:%s:%s" % (short(f), v["name"]), "storage_class (static / thread_local local in the logger)", f.loc(d),
                                  "%s keeps a %s %s across calls: log text assembled in it is shared between the statements of a thread" % (f.pq, "static/thread_local", v.get("type")))
    ctx.ok("every-log-statement-owns-its-text:no-shared-buffer", "storage_class (static / thread_local local in the logger)", "-", "%d static stream / string locals in the logger" % n)


def logger_mode_is_fixed_at_construction(ctx):
    """'Lines of one thread are written in the order that thread produced them': a Log object is either inline or queued for its whole life.
    The mode flag (and the kmsg descriptor) is written by the constructor only - flipping a queued logger to inline later, in the
    destructor say, lets a thread's next line overtake its own earlier lines that are still in the queue (and the flag is read by
    producers without the lock: a write after construction is also a data race)."""
    P = ctx.prog
    from ..callgraph import node_writes
    cls = P.classes.get("Oomd::Log", {})
    flds = [x["name"] for x in cls.get("fields", []) if x["name"] in ("inline_", "kmsg_fd_") or (x.get("type") or "").replace("const ", "").strip() == "bool"]
    ctx.counters["logger_mode_fields"] = len(flds)
    ctx.floor("logger_mode_fields", 1, "mode fields of Log (inline_, kmsg_fd_)")
    n = 0
    for f in sorted(P.fns.values(), key=lambda x: (x.file, x.line, x.usr)):
        owner = f
        while owner.kind == "lambda" and owner.d.get("parentfn") in P.fns:
            owner = P.fns[owner.d["parentfn"]]
        if not f.file.startswith("oomd/") or f.file.endswith("Test.cpp") or owner.kind == "ctor":
            continue
        for i in range(len(f.nodes)):
            if f.nodes[i]["k"] not in ("bin", "call", "un") or f.pos_of(i) is None:
                continue
            for t_ in node_writes(f, i):
                if t_.startswith("F:Oomd::Log::") and t_.split("::")[-1] in flds:
                    n += 1
                    ctx.violation("logger-mode-is-fixed-at-construction:%s:%s" % (short(owner), t_.split("::")[-1]), "who-may-write (constructor only)", f.loc(i),
                                  "%s writes Log::%s after construction (%s): producers read it without the lock to choose between the inline path and the queue, so "
                                  "a thread's later line can be written before its earlier, still queued ones - and the unsynchronised write is a data race"
                                  % (owner.pq, t_.split("::")[-1], f.text(i)[:50]))
    ctx.ok("logger-mode-is-fixed-at-construction", "who-may-write (constructor only)", "oomd/Log.h", "mode fields %s are written by constructors only" % flds)


def run(ctx):
    # locals / parameters the rules below refer to by name (a rename makes the analysis 'broken', never a violation)
    P, cg = ctx.prog, ctx.cg
    nothing_logs_before_log_init(ctx)
    every_log_statement_owns_its_text(ctx)
    logger_mode_is_fixed_at_construction(ctx)
    logger_is_built_on_an_open_kmsg_descriptor(ctx)
    silencing_is_bracketed(ctx)
    process_logger_is_destroyed_at_exit(ctx)
    LA = LockAnalysis(P, cg)
    dbg = ctx.fn1("Oomd::Log::debugLog")
    io = ctx.fn1("Oomd::Log::ioThread")
    # locals and parameters are found by the role they play, not by name (a function that no longer has one is 'analysis broken')
    if len(dbg.params) != 1 or len(io.params) != 1:
        raise AnalysisBroken("anchor: debugLog(text) / ioThread(sink) changed their parameter lists")
    BUF = dbg.params[0]["name"]
    SINK = io.params[0]["name"]
    qls = locals_receiving(io, r"^this->state_\.getCurrentQueue\(\)$")
    if len(qls) > 1:
        raise AnalysisBroken("anchor: ioThread keeps the queue it took over in several locals %s" % qls)
    # no such local: the flusher never takes the pointer of the queue it hands over (reported below); the name then matches nothing
    QL = qls[0] if qls else "<no local holds the queue>"
    if not qls:
        ctx.violation("hand-over:pointer-taken-before-flip", "order+lockset", io.loc(),
                      "the flusher never stores the pointer of the current queue: after flipping ioTick it has no queue of its own to write, "
                      "or selects one again outside the critical section")
    ND = role_local(ctx, io, r"^this->state_\.numDiscarded$", "the snapshot of the drop count")
    RUN = role_local(ctx, io, r"^this->state_\.ioThreadRunning$", "the snapshot of the stop flag")
    dtor = ctx.fn1("Oomd::Log::~Log")
    gcq = ctx.fn1("Oomd::Log::AsyncLogState::getCurrentQueue")

    # ------------------------------------------------ lock discipline
    n = 0
    for fld in GUARDED:
        for f, i in LA.field_accesses("Oomd::Log::AsyncLogState::" + fld):
            if f.kind in ("ctor",):
                continue
            n += 1
            ctx.use(f)
            h = LA.held(f, i)
            owner = f
            while owner.kind == "lambda" and owner.d.get("parentfn") in P.fns:
                owner = P.fns[owner.d["parentfn"]]
            ctx.check(LOCK in h, "state-under-lock:%s:%s" % (fld, short(owner)), "guarded_by(lockset)", f.loc(i),
                      "%s is accessed with state_.lock held" % fld,
                      "%s is accessed without state_.lock in %s: data race between producers, flusher and shutdown" % (fld, owner.pq))
    # generic audit: every field of Log / AsyncLogState shared between threads (also ones added later) has one common lock
    cd = {f.usr for f in P.fns.values() if f.kind in ("ctor", "dtor") and f.cls in ("Oomd::Log", "Oomd::Log::AsyncLogState")}
    LA2 = LockAnalysis(P, cg, ignore_callers=cd)
    roots = {}
    for t_usr, creator, node in cg.thread_roots:
        roots[creator.pq.split("::")[-1] + "@" + str(len(roots))] = t_usr
    shared_fields_rule(ctx, LA2, ["Oomd::Log", "Oomd::Log::AsyncLogState"], roots, self_concurrent=list(roots) + ["main"], floor=3)
    ctx.counters["guarded_field_accesses"] = n
    ctx.floor("guarded_field_accesses", 10, "accesses of the AsyncLogState fields")
    for f in (dbg, io):
        for i in f.calls("AsyncLogState::getCurrentQueue"):
            ctx.check(LOCK in LA.held(f, i), "queue-selected-under-lock:" + short(f), "guarded_by(lockset)", f.loc(i),
                      "the current queue is selected with the lock held", "getCurrentQueue() called without state_.lock")
    # producers only touch the queue they selected, under the lock
    for i in dbg.calls("emplace_back", "push_back"):
        ctx.check(LOCK in LA.held(dbg, i), "enqueue-under-lock", "guarded_by(lockset)", dbg.loc(i), "enqueue happens under the lock", "enqueue outside the lock")
        X = Expander(P, dbg)
        ctx.check(X(dbg.nodes[i]["recv"]).startswith("this->state_.getCurrentQueue()"), "enqueue-into-current-queue", "provenance", dbg.loc(i),
                  "producers append to the queue selected under the lock", "enqueue target is " + X(dbg.nodes[i]["recv"]))
    # audited hand-over: flusher uses q outside the lock; q must have been obtained before ioTick flips, in the same critical section
    ticks = [i for i in field_writes(io, "ioTick")]
    getq = io.calls("AsyncLogState::getCurrentQueue")
    ev = {i: [("set", "got-queue")] for i in getq}
    ev.update({i: [("set", "flipped")] for i in ticks})
    fio = Flow(P, io, events=ev, cg=cg)
    ctx.counters["queue_flips"] = len(ticks)
    ctx.floor("queue_flips", 1, "ioTick flips in ioThread")
    for t in ticks:
        ctx.check(fio.must(t, "got-queue") and LOCK in LA.held(io, t), "hand-over:pointer-taken-before-flip", "order+lockset", io.loc(t),
                  "the flusher takes its queue pointer before flipping ioTick, inside the same critical section",
                  "ioTick is flipped without the flusher holding the pointer of the queue it hands over")
    uses_outside = []
    for i, nn in enumerate(io.nodes):
        if nn["k"] == "ref" and nn["name"] == QL and io.pos_of(i) is not None and LOCK not in LA.held(io, i):
            uses_outside.append(i)
    okho = all(fio.must(i, "flipped") for i in uses_outside)
    ctx.check(okho and uses_outside, "hand-over:unlocked-use-only-after-flip", "audited-exception", io.loc(uses_outside[0]) if uses_outside else io.loc(),
              "the queue is used outside the lock only after the flip that took it away from producers",
              "the flusher touches its queue outside the lock before flipping ioTick (producers may still append to it)")

    # ------------------------------------------------ the flusher thread cannot die of an exception (std::terminate loses queued lines)
    E = Escape(P, cg)
    n_fl = 0
    for t_usr, creator, node in cg.thread_roots:
        if creator.cls != "Oomd::Log":
            continue
        n_fl += 1
        t = P.fns[t_usr]
        ctx.use(t)
        esc = E.from_root(t, classes={"explicit", "absent", "text", "strpos", "assert", "shape", "fs"})
        ctx.check(not esc, "flusher-cannot-throw", "E-ESCAPE", t.loc(), "no throw site escapes the flusher thread's entry",
                  "an exception can escape the flusher thread (std::terminate: accepted lines are never written): " +
                  "; ".join("%s at %s" % (s_.what, s_.loc()) for s_, _ in esc[:3]), esc[0][1] if esc else None)
    ctx.counters["flusher_thread_roots"] = n_fl
    ctx.floor("flusher_thread_roots", 1, "thread started by the Log constructor")
    # ------------------------------------------------ backlog accounting in debugLog
    enq = dbg.calls("emplace_back", "push_back")
    fd = Flow(P, dbg, cg=cg)
    ctx.counters["enqueue_sites"] = len(enq)
    ctx.floor("enqueue_sites", 1, "enqueue in debugLog")
    SZ, CUR, MAX = re.escape(BUF) + r"\.(?:size|length)\(\)", r"this->state_\.curSize", r"this->state_\.maxSize"
    capA = re.compile(r"^\(%s < \((?:%s \+ %s|%s \+ %s)\)\)$" % (MAX, SZ, CUR, CUR, SZ))          # size + backlog > max
    capB = re.compile(r"^\(\(%s - %s\) < %s\)$" % (MAX, SZ, CUR))                                 # backlog > max - size   (needs size <= max)
    und = re.compile(r"^\(%s < %s\)$" % (MAX, SZ))                                                  # size > max

    class capkey:                     # the over-cap condition in either spelling
        @staticmethod
        def match(k):
            return capA.match(k) or capB.match(k)
    def cap_tokens(k, p):
        out = []
        if capkey.match(k) and p is False:
            out.append("under-cap")
        if capA.match(k) and p is False:
            out.append("under-cap-by-sum")
        if und.match(k) and p is False:
            out.append("size-within-cap")
        return out or None
    fcap = Flow(P, dbg, cg=cg, edge_tokens=cap_tokens)
    for i in enq:
        g = fd.guards(i)
        ctx.check(fcap.must(i, "under-cap"), "cap-test-dominates-enqueue", "passed_edge", dbg.loc(i),
                  "a line is enqueued only if size + backlog <= maxSize",
                  "the enqueue is not dominated by the backlog cap test", witness_path(dbg, fd, i))
        # the subtracting spelling is only a cap test where the unsigned difference cannot wrap
        if fcap.must(i, "under-cap") and not fcap.must(i, "under-cap-by-sum"):
            ctx.check(fcap.must(i, "size-within-cap"), "cap-test-cannot-wrap", "guarded_by (unsigned subtraction)", dbg.loc(i),
                      "maxSize - size is computed only for size <= maxSize",
                      "the cap test subtracts the line size from maxSize without first excluding size > maxSize: for a line larger than the cap the "
                      "unsigned difference wraps to about 2^64, the test is never true and the line is always enqueued (unbounded backlog)", witness_path(dbg, fd, i))
    disc = [w for w in field_writes(dbg, "numDiscarded")]
    for w in disc:
        g = fd.guards(w)
        ctx.check(any((capkey.match(k) or und.match(k)) and p is True for k, p in g) or
                  any(k.startswith("((") and " || " in k and p is True and ("maxSize" in k) for k, p in g), "drop-counted-on-cap-edge", "guarded_by", dbg.loc(w), "drops are counted on the over-cap edge",
                  "numDiscarded changes outside the over-cap edge")
    # ... and a counted drop is reported: the count is picked up by the flusher thread, at the latest in its last round at shutdown.  The
    # flusher therefore exists whenever a drop can be counted: it is started in the constructor, or - if started lazily - before any
    # path that counts a drop.
    starts = []
    for g_ in P.fns.values():
        if not g_.cls.endswith("::Log") and g_.cls != "Oomd::Log":
            o_ = g_
            while o_.kind == "lambda" and o_.d.get("parentfn") in P.fns:
                o_ = P.fns[o_.d["parentfn"]]
            if o_.cls != "Oomd::Log":
                continue
        for i_, n_ in enumerate(g_.nodes):
            if n_["k"] in ("call", "bin") and n_.get("op") == "=" and g_.pos_of(i_) is not None and \
                    g_.text(n_.get("recv", n_.get("l", -1))).replace("this->", "") == "io_thread_":
                starts.append((g_, i_))
    if not starts:
        ctx.broken("drop-count-has-a-reporter", "anchor", dbg.loc(), "no start of io_thread_ found in class Log")
    else:
        lazy = [(g_, i_) for g_, i_ in starts if g_.kind != "ctor"]
        okr = True
        why = ""
        if lazy:
            for w in disc:
                ev_s = {i_: [("set", "started")] for g_, i_ in lazy if g_ is dbg}
                fs_ = Flow(P, dbg, events=ev_s, cg=cg,
                           edge_tokens=lambda k, p: ["started"] if (isinstance(k, str) and re.search(r"io_thread_\.joinable\(\)$", k) and p is True) else None)
                if not fs_.must(w, "started"):
                    okr, why = False, "the drop at %s can be counted before the flusher thread was ever started (it is started lazily at %s)" % (dbg.loc(w), lazy[0][0].loc(lazy[0][1]))
        ctx.check(okr, "drop-count-has-a-reporter", "must_precede (thread start)", (lazy[0][0].loc(lazy[0][1]) if lazy else starts[0][0].loc(starts[0][1])),
                  "the flusher thread that reports dropped lines exists before any drop can be counted",
                  why + ": if every line a logger ever sees is dropped, no thread exists, ~Log joins nothing and the 'N messages dropped' report never appears")
    ev = {i: [("set", "enqueued")] for i in enq}
    ev.update({w: [("set", "counted-drop")] for w in disc})
    fd2 = Flow(P, dbg, events=ev, cg=cg, edge_tokens=lambda k, p: ["over-cap"] if ((capkey.match(k) or und.match(k)) and p is True) else None)
    okd = True
    for kind, node, b, parts in fd2.exits():
        for st in parts.values():
            if "over-cap" in st.may and ("enqueued" in st.may or "counted-drop" not in st.must):
                okd = False
    ctx.check(okd and bool(disc), "over-cap-drops-and-counts", "must_follow", dbg.loc(), "over the cap: nothing is enqueued and the drop is counted",
              "over the cap a line can still be enqueued, or the drop is not counted")
    # size accounting: operand of curSize += is the size of the enqueued string, taken before the move
    adds = [w for w in field_writes(dbg, "curSize")]
    moves = [i for i in dbg.calls("std::move") if dbg.text(dbg.nodes[i]["args"][0]) == BUF]
    ev = {m: [("set", "moved")] for m in moves}
    fm = Flow(P, dbg, events=ev, cg=cg)
    ctx.counters["backlog_additions"] = len(adds)
    if not adds:
        ctx.violation("backlog-accounts-enqueued-size", "value-shape", dbg.loc(), "debugLog never adds to curSize: the cap can never be reached")
    for w in adds:
        rhs = dbg.text(write_rhs(dbg, w))
        X = Expander(P, dbg)
        xr = X(write_rhs(dbg, w))
        ctx.check(xr in ("param:%s.size()" % BUF, "param:%s.length()" % BUF) and dbg.nodes[w].get("op", dbg.nodes[w].get("op")) in ("+=",),
                  "backlog-accounts-enqueued-size", "value-shape", dbg.loc(w), "curSize grows by the size of the enqueued text", "curSize grows by " + xr)
        # every read of buf in the operand happens before buf is moved
        reads = [x for x in dbg.walk(write_rhs(dbg, w)) if dbg.nodes[x]["k"] == "ref" and dbg.nodes[x]["name"] == BUF]
        # a local that captured the size earlier
        if not reads:
            for x in dbg.walk(write_rhs(dbg, w)):
                if dbg.nodes[x]["k"] == "ref" and dbg.nodes[x].get("dk") == "local":
                    init, v = local_init(dbg, dbg.nodes[x]["name"])
                    if init >= 0:
                        reads += [y for y in dbg.walk(init) if dbg.nodes[y]["k"] == "ref" and dbg.nodes[y]["name"] == BUF]
        uam = [r for r in reads if dbg.pos_of(r) is not None and fm.may(r, "moved")]
        ctx.check(not uam and bool(reads), "no-use-after-move:buf", "use_after_move", dbg.loc(w),
                  "the size is read before buf is moved into the queue",
                  "buf.size() is read after std::move(buf): a moved-from string reports 0, the backlog never grows and the 1 MiB cap is never enforced")
    for i in enq:
        for r_ in [x for x in dbg.walk(i) if dbg.nodes[x]["k"] == "ref" and dbg.nodes[x]["name"] == BUF]:
            pass
    # generic use-after-move over Log.cpp functions
    for f in (dbg, io, dtor):
        mv = [i for i in f.calls("std::move") if f.nodes[f.strip(f.nodes[i]["args"][0])]["k"] == "ref"]
        for m in mv:
            var = f.nodes[f.strip(f.nodes[m]["args"][0])]
            fl_ = Flow(P, f, events={m: [("set", "mv")]}, cg=cg)
            for x, nn in enumerate(f.nodes):
                if nn["k"] == "ref" and nn.get("decl") == var.get("decl") and x != f.strip(f.nodes[m]["args"][0]) and f.pos_of(x) is not None:
                    par = f.parent.get(x)
                    is_assign = par is not None and f.nodes[par]["k"] in ("bin",) and f.nodes[par]["op"] == "=" and f.strip(f.nodes[par]["l"]) == x
                    if fl_.may(x, "mv") and not is_assign:
                        ctx.violation("use-after-move:%s:%s" % (short(f), var["name"]), "use_after_move", f.loc(x), "'%s' is used after std::move" % var["name"])
    ctx.ok("use-after-move-scan", "use_after_move", dbg.loc(), "no local is read after being moved in the logger")

    # ------------------------------------------------ flusher
    resets = [w for w in field_writes(io, "curSize") + field_writes(io, "numDiscarded") if io.text(write_rhs(io, w)) == "0"]
    ctx.counters["flusher_resets"] = len(resets)
    ctx.floor("flusher_resets", 2, "resets of curSize/numDiscarded in ioThread")
    for w in resets:
        ctx.check(LOCK in LA.held(io, w) and any(fio.must(t, "got-queue") for t in ticks), "flusher-resets-under-lock", "guarded_by(lockset)", io.loc(w),
                  "backlog counters are reset inside the swapping critical section", "backlog counter reset outside the lock")
    nd_local = [i for i in io.all("decl") if any(v["name"] == ND for v in io.nodes[i].get("vars", []))]
    fio2 = Flow(P, io, cg=cg)
    rep = [i for i, nn in enumerate(io.nodes) if nn["k"] == "lit" and nn.get("lk") == "str" and "messages dropped" in nn["v"] and io.pos_of(i) is not None]
    ctx.check(bool(rep) and all(any(((k == ND and p is True) or (k in ("(%s == 0)" % ND, "(0 == %s)" % ND) and p is False) or (k == "(0 < %s)" % ND and p is True)) for k, p in fio2.guards(i)) for i in rep), "drops-reported", "guarded_by", io.loc(rep[0]) if rep else io.loc(),
              "the number of dropped messages is written to the sink when non-zero", "dropped messages are not reported in the output")
    # the drop counter and its snapshot can hold any number of drops a flusher cycle can see: 64 bits, no narrowing on the way to the output
    cls_ = P.classes.get("Oomd::Log::AsyncLogState", {})
    fld_ = {x["name"]: x for x in cls_.get("fields", [])}
    w_field = fld_.get("numDiscarded", {}).get("tw")
    _, ndv = local_init(io, ND, must=False)
    w_local = (ndv or {}).get("tw")
    if ndv is not None and w_local is None:
        w_local = {"size_t": "u64", "uint64_t": "u64", "unsigned long": "u64", "std::size_t": "u64", "uint32_t": "u32", "unsigned int": "u32", "uint16_t": "u16", "int": "i32"}.get((ndv.get("type") or "").replace("const ", ""))
    ctx.check(w_field in ("u64", "i64") and w_local in ("u64", "i64"), "drop-counter-width", "E-TYPE (declared width)", io.loc(),
              "numDiscarded and its snapshot are 64-bit",
              "the drop counter is declared as %s and its snapshot as %s: it wraps after 2^16 / 2^32 drops within one flusher cycle (a stalled sink under a log "
              "storm), and the reported number of dropped messages is then too small or the notice is missing" % (fld_.get("numDiscarded", {}).get("type"), (ndv or {}).get("type")))
    for w in local_writes(io, ND):
        ctx.check(io.text(write_rhs(io, w)) == "this->state_.numDiscarded" and LOCK in LA.held(io, w), "drop-count-snapshot", "provenance", io.loc(w),
                  "the reported count is a snapshot taken under the lock", "reported drop count is " + io.text(write_rhs(io, w)))
    # after observing the stop flag the held queue is still written
    lp = [l for l in loops(io) if l["stmt"] is not None and io.nodes[l["stmt"]]["k"] in ("while", "do", "for") and loop_container(io, l) is None]
    # the loop over the held queue (range-for, iterator or index form) and the sink writes of its elements
    Xio = Expander(P, io)
    qloops = [l for l in loops(io) if loop_container(io, l) == "*" + QL]
    writes = []
    for l in qloops:
        for i in io.calls():
            if io.nodes[i].get("op") == "<<" and io.pos_of(i) is not None and io.pos_of(i)[0] in l["body"] and re.search(r"\b%s\b" % re.escape(SINK), io.text(i)) \
                    and re.search(r"elem\(\*?%s\)|\(?\*%s\)?\[" % (re.escape("var:" + QL), re.escape("var:" + QL)), Xio(i)):
                writes.append(i)
    # the same pass spelled std::for_each(q->begin(), q->end(), [&sink](auto& line) { sink << line; })
    foreach_nodes = []
    for i in io.calls():
        n_ = io.nodes[i]
        if not re.search(r"\bfor_each\b", n_.get("callee") or n_.get("cname") or "") or len(n_.get("args", [])) != 3 or io.pos_of(i) is None:
            continue
        if not (re.match(r"^%s->c?begin\(\)$" % re.escape(QL), io.text(n_["args"][0])) and re.match(r"^%s->c?end\(\)$" % re.escape(QL), io.text(n_["args"][1]))):
            continue
        lam = P.closure_fn(io.nodes[io.strip(n_["args"][2])].get("lusr"))
        if lam is None or len(lam.params) != 1:
            continue
        lw = [j for j in lam.calls() if lam.nodes[j].get("op") == "<<" and re.search(r"\b%s\b" % re.escape(SINK), lam.text(j)) and
              re.search(r"\b%s\b" % re.escape(lam.params[0]["name"]), lam.text(j))]
        if lw:
            foreach_nodes.append(i)
            writes.append(i)
    ctx.check(len(lp) >= 1 and bool(writes), "flusher-writes-held-queue", "anchor", io.loc(), "flusher writes its queue to the sink", "flusher does not write its queue")
    if lp:
        L = lp[0]
        stopw = [w for w in local_writes(io, RUN)]
        ev = {w: [("set", "saw-stop-flag")] for w in stopw}
        ev.update({i: [("set", "wrote")] for i in writes})
        for l in qloops:
            sn = io.nodes[l["stmt"]]
            # the point every pass over the queue goes through once, before the first element: the range / the init statement
            r_ = sn.get("range", -1) if sn["k"] == "rangefor" else sn.get("init", -1)
            if r_ is not None and r_ >= 0:
                if io.nodes[r_]["k"] == "decl":
                    r_ = next((v_["init"] for v_ in io.nodes[r_].get("vars", []) if v_.get("init") is not None and v_.get("init", -1) >= 0), r_)
                tgt = r_ if io.pos_of(r_) is not None else next((x for x in io.walk(r_) if io.pos_of(x) is not None), None)
                if tgt is not None:
                    ev.setdefault(tgt, []).append(("set", "write-loop"))
        for i in foreach_nodes:
            ev.setdefault(i, []).append(("set", "write-loop"))
        fi = iter_flow(ctx, io, L, ev)
        ok = True
        for b in back_sources(L):
            for st in (fi.OUT.get(b) or {}).values():
                if "saw-stop-flag" in st.must and "write-loop" not in st.must:
                    ok = False
        for kind, node, b, parts in fi.exits():
            for st in parts.values():
                if "saw-stop-flag" in st.may and "write-loop" not in st.must:
                    ok = False
        ctx.check(ok and bool(stopw), "flush-after-stop", "must_follow", io.loc(), "every iteration (also the one that saw the stop flag) writes the queue it holds",
                  "an iteration that observed the stop flag can end without writing its queue: accepted lines are lost at shutdown")

    # ------------------------------------------------ silencing flag is per thread
    en = ctx.fn1("Oomd::LogStream::enabled")
    tl = False
    for i in en.all("decl"):
        for v in en.nodes[i].get("vars", []):
            if v["name"] == "enabled":
                tl = bool(v.get("tls")) and bool(v.get("static"))
    g = [x for x in P.globals.values() if x.get("name") == "enabled" and x.get("static_local")]
    ctx.check(tl or any(x.get("tls") for x in g), "silencing-flag-thread_local", "storage_class", en.loc(),
              "LogStream::enabled()'s flag is thread_local", "the silencing flag is not thread_local: DISABLE in one thread silences all threads")
    # ... and so is every other piece of state the Control manipulator keeps: function-local statics of the LogStream methods it reaches
    ctl = [f for f in P.fns.values() if f.cls.endswith("LogStream") and "operator<" in f.pq and any("Control" in (p_.get("type") or "") for p_ in f.params)]
    ctx.counters["control_manipulators"] = len(ctl)
    ctx.floor("control_manipulators", 1, "LogStream::operator<< <Control>")
    seen_, todo_ = set(), [f.usr for f in ctl]
    while todo_:
        u_ = todo_.pop()
        if u_ in seen_ or u_ not in P.fns:
            continue
        seen_.add(u_)
        for e_ in cg.out.get(u_, ()):
            if e_.dst in P.fns and P.fns[e_.dst].cls.endswith("LogStream"):
                todo_.append(e_.dst)
    n_static = 0
    for u_ in sorted(seen_):
        g_ = P.fns[u_]
        ctx.use(g_)
        for i in g_.all("decl"):
            for v in g_.nodes[i].get("vars", []):
                if v.get("static"):
                    n_static += 1
                    ctx.check(bool(v.get("tls")), "silencing-state-is-per-thread:%s:%s" % (short(g_), v["name"]), "storage_class", g_.loc(i),
                              "state kept by the DISABLE/ENABLE manipulator is thread_local",
                              "%s in %s is a plain static: it is shared by all threads, so one thread's DISABLE/ENABLE changes what another thread's "
                              "ENABLE does (its own flag is not restored)" % (v["name"], g_.pq))
    ctx.counters["silencing_statics"] = n_static
    ctx.floor("silencing_statics", 1, "function-local statics reachable from the Control manipulator (the flag itself)")
    from .C17 import kmsg_path_ignores_silencing
    kmsg_path_ignores_silencing(ctx)
    km = ctx.fn1("Oomd::Log::kmsgLog")
    ctx.check(not km.calls("LogStream::enabled") and not field_reads(km, "skip_"), "kmsg-independent-of-silencing", "who-may-call", km.loc(),
              "kmsgLog does not consult the silencing flag", "kmsgLog consults the silencing flag")
    # who writes the flag: only the Control operator
    for f in P.fns.values():
        for i in f.calls("LogStream::enabled"):
            par = f.parent.get(i)
            if par is not None and f.nodes[par]["k"] == "bin" and f.nodes[par]["op"] == "=" and f.strip(f.nodes[par]["l"]) == i:
                ctx.check("operator<" in f.pq and f.cls.endswith("LogStream"), "silencing-written-by-control-only:" + short(f), "who-may-write", f.loc(i),
                          "flag written by the Control manipulator", "silencing flag written in " + f.pq)

    # ------------------------------------------------ shutdown
    stop = [w for w in field_writes(dtor, "ioThreadRunning") if dtor.text(write_rhs(dtor, w)) == "false"]
    nt = dtor.calls("notify_all", "notify_one")
    jn = dtor.calls("join")
    ev = {w: [("set", "stopped")] for w in stop}
    ev.update({i: [("set", "notified")] for i in nt})
    fdt = Flow(P, dtor, events=ev, cg=cg)
    ok = bool(stop) and bool(nt) and bool(jn)
    for w in stop:
        ok = ok and LOCK in LA.held(dtor, w)
    for i in nt:
        ok = ok and fdt.must(i, "stopped")
    for i in jn:
        ok = ok and fdt.must(i, "notified")
    ctx.check(ok, "shutdown-order", "order+lockset", dtor.loc(), "run flag cleared under the lock, then notify, then join",
              "destructor does not clear the flag under the lock / notify / join in order")
    # the wait predicate looks at the stop flag and the held queue
    for l in P.lambdas_in(io):
        t = " ".join(l.text(l.nodes[r]["val"]) for r in returns(l) if "val" in l.nodes[r])
        if "ioThreadRunning" in t:
            ctx.use(l)
            okw = "!this->state_.ioThreadRunning" in t and re.search(r"\b%s->size\(\)|!%s->empty\(\)" % (re.escape(QL), re.escape(QL)), t) is not None
            rs_ = [r for r in returns(l) if "val" in l.nodes[r]]
            if not okw and len(rs_) == 1:
                # any spelling of "stop requested OR lines queued": the predicate is FALSE exactly under (still running AND queue empty)
                fs_ = CondNorm(l, P).decompose(l.nodes[rs_[0]]["val"], False)
                run_ = [1 for k, p_ in fs_ if isinstance(k, str) and k.endswith("state_.ioThreadRunning") and p_ is True]
                emp_ = [1 for k, p_ in fs_ if isinstance(k, str) and ((re.search(r"\b%s->empty\(\)$" % re.escape(QL), k) and p_ is True) or
                                                                       (re.search(r"\b%s->size\(\)$" % re.escape(QL), k) and p_ is False) or
                                                                       (re.search(r"^\((0 == %s->size\(\)|%s->size\(\) == 0)\)$" % (re.escape(QL), re.escape(QL)), k) and p_ is True))]
                okw = len(fs_) == 2 and len(run_) == 1 and len(emp_) == 1
            ctx.check(okw, "wait-predicate", "value-shape", l.loc(),
                      "the flusher wakes for stop or for queued lines", "wait predicate is " + t)
