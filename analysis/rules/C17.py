"""C17 Kill accounting (DESIGN 4/C17)."""
import re
from .common import *
from ..escape import Escape

EXPLANATION = (
    "Decides the structural clauses of the accounting for all victims, xattr contents and kill "
    "outcomes: in tryToKillCgroup the uuid and initiation xattrs are written before any kill sink and "
    "the completion xattr, carrying the same nrKilled that is returned, after the last one on every "
    "path to the final return; initiation adds the constant 1, completion its parameter, each to the "
    "trusted. and the user. copy; nrKilled is incremented only on the kill(2)==0 edge and accumulates "
    "only results of tryToKillPids/getAndTryToKillPids; the oomd.kills increment and the kmsg record "
    "are dominated by 'a process was signalled', the increment additionally by !dry, and the kmsg "
    "write is independent of log silencing; the record is built from cgroup path, ruleset, detector "
    "group and plugin name with the 'oomd kill' prefix; the uuid written to the xattr is the one "
    "generated for this attempt; the PluginRet mapping of BaseKillPlugin::run; and no exception "
    "triggered by arbitrary pre-existing xattr text escapes the xattr helpers.  Arithmetic on concrete "
    "xattr values and the kernel-kill placeholder count are not decided.")
RULE_SUMMARY = "E-PATH order/must-follow, guard dominance, value shape, provenance, E-ESCAPE on the xattr helpers"
NOT_DECIDED = ["arithmetic on concrete xattr values", "the process count reported for cgroup.kill (placeholder)"]
ASSUMPTIONS = ["kill(2) returns 0 exactly when the signal was sent"]

KILL_SINKS = ("getAndTryToKillPids", "Fs::writeKillAt", "Fs::writeFreezeAt", "reapCgroupRecursively")


def kmsg_path_ignores_silencing(ctx):
    """Shared by C17 (kill record always reaches kmsg) and C20 (silencing never suppresses the kmsg kill record)."""
    P = ctx.prog
    # ---- kmsgLog independent of LogStream silencing: the kmsg descriptor is written on a call path that never passes a test of the
    # per-thread silencing flag (LogStream obeys it; Ruleset switches it off around the actions of a silenced ruleset)
    kl = ctx.fn1("Oomd::Log::kmsgLog")
    cg_ = ctx.cg
    SINKS_ = ("writeFull", "write", "dprintf", "writev", "pwrite")

    # classes that are handed the kmsg descriptor at construction carry it in a field
    carriers = set()
    for f_ in P.fns.values():
        for i_, n_ in enumerate(f_.nodes):
            if n_["k"] == "construct" and any("kmsg_fd_" in f_.text(a_) for a_ in n_.get("args", [])):
                carriers.add(re.sub(r"^(const |class |struct )+", "", n_.get("type", "")).strip())

    def kmsg_sinks(f):
        out_ = []
        for i in f.calls():
            if f.nodes[i].get("cname") not in SINKS_ or not f.nodes[i].get("args"):
                continue
            a0 = f.text(f.nodes[i]["args"][0])
            if "kmsg_fd_" in a0 or (a0.startswith("this->") and any(f.cls.endswith(c.split("::")[-1]) for c in carriers if c)):
                out_.append(i)
        return out_

    def silencing_guard(f, node):
        fl_ = Flow(P, f, cg=cg_)
        n_ = node[1:] if isinstance(node, tuple) else node
        try:
            g_ = fl_.guards(n_) if not isinstance(n_, tuple) else set()
        except Exception:
            g_ = set()
        return sorted(k for k, p in g_ if "enabled()" in k or "skip_" in k)
    clean_sites, dirty_sites = [], []
    seen_, work = {}, [(kl.usr, [])]
    while work:
        u, dirt = work.pop()
        if u in seen_ and (not seen_[u] or dirt):
            continue
        seen_[u] = dirt
        f = P.fns[u]
        for i in kmsg_sinks(f):
            d2 = dirt + silencing_guard(f, i)
            (dirty_sites if d2 else clean_sites).append((f, i, d2))
        if len(seen_) > 400:
            break
        for e in cg_.out.get(u, ()):
            if e.dst not in P.fns:
                continue
            src_is_stream = f.cls.endswith("LogStream") or (f.kind == "lambda" and "LogStream" in f.pq)
            d2 = dirt + silencing_guard(f, e.node) + (["inside " + f.pq] if src_is_stream else [])
            work.append((e.dst, d2))
    ctx.counters["kmsg_writes"] = len(clean_sites) + len(dirty_sites)
    ctx.floor("kmsg_writes", 1, "writes to the kmsg descriptor reachable from Log::kmsgLog")
    for f, i, d2 in clean_sites:
        ctx.use(f)
        g = Flow(P, f, cg=cg_).guards(i)
        other = [k for k, p in g if "kmsg_fd_" not in k]
        ctx.check(not other if f is kl else True, "kmsg-write-unconditional", "guarded_by", f.loc(i), "the kmsg write depends only on the kmsg fd being open",
                  "the kmsg write is conditioned on " + str(other))
    ctx.check(bool(clean_sites), "kmsg-ignores-silencing", "call-path guards", dirty_sites[0][0].loc(dirty_sites[0][1]) if dirty_sites else kl.loc(),
              "the kmsg descriptor is written on a path from kmsgLog that never tests the silencing flag",
              "every write to the kmsg descriptor reachable from kmsgLog passes a test of the per-thread silencing flag (%s): with "
              "\"silence-logs\": \"plugins\" the 'oomd kill' record is dropped although the kill happened" % (dirty_sites[0][2][:2] if dirty_sites else "no write found"))
    ctx.check(not kl.calls("LogStream::enabled"), "kmsg-ignores-silencing:direct", "who-may-call", kl.loc(),
              "kmsgLog does not consult LogStream::enabled()", "kmsgLog consults the per-thread silencing flag")



def fs_setxattr_always_writes(ctx, tag):
    """Fs::setxattr(path, attr, val) has stored val when it reports success: every non-error return is preceded, on every path, by the
    setxattr(2) call with exactly (path, attr, val.c_str(), val.size()).  A 'skip the write if the attribute already holds the value' short
    cut decides on a comparison of its own - and a wrong one ('12' starts with '1') leaves the kill counters short while the log says
    they were set."""
    P, cg = ctx.prog, ctx.cg
    f = ctx.use(ctx.fn1("Oomd::Fs::setxattr"))
    if len(f.params) != 3:
        ctx.broken(tag + ":fs-setxattr-always-writes", "anchor", f.loc(), "Fs::setxattr no longer takes (path, attr, val)")
        return
    pn, an, vn = (p_["name"] for p_ in f.params)
    X = Expander(P, f)
    calls = [i for i in f.calls("setxattr", "lsetxattr", "fsetxattr") if plain(f.nodes[i].get("callee") or "") in ("setxattr", "lsetxattr", "fsetxattr") and f.pos_of(i) is not None]
    good = []
    for i in calls:
        a = [X(x) for x in f.nodes[i].get("args", [])]
        if len(a) >= 4 and a[0] == "param:%s.c_str()" % pn and a[1] == "param:%s.c_str()" % an and a[2] in ("param:%s.c_str()" % vn, "param:%s.data()" % vn) and \
                a[3] in ("param:%s.size()" % vn, "param:%s.length()" % vn):
            good.append(i)
    ctx.counters[tag + "_setxattr_syscalls"] = len(good)
    ctx.floor(tag + "_setxattr_syscalls", 1, "setxattr(2) with (path, attr, value, size) in Fs::setxattr")
    if not good:
        return
    fl = Flow(P, f, events={i: [("set", "written")] for i in good}, cg=cg)
    bad = []
    for kind, node, b, parts in fl.exits():
        if kind != "return" or node is None:
            continue
        t = ret_text(f, node)
        if "systemError" in t.replace("noSystemError", "") or "SYSTEM_ERROR" in t:
            continue
        if not all("written" in st.must for st in parts.values()):
            bad.append(f.loc(node))
    ctx.check(not bad, tag + ":fs-setxattr-always-writes", "must_pass_through", f.loc(),
              "every success return of Fs::setxattr has made the setxattr(2) call with the given value",
              "Fs::setxattr can report success at %s without having written the value: the attribute keeps whatever it held (oomd_kill stays at 1 when 12 was to "
              "be stored), while callers log 'Set xattr' and go on" % ", ".join(bad))



def kill_count_is_successful_signals(ctx):
    """tryToKillPids returns the number of kill(2) calls that SUCCEEDED: a local counter starting at 0, bumped by one on the kill(2)==0 edge
    and nowhere else (a pid that was already gone - ESRCH - is not a signalled process).  Shared by C17 (oomd_kill, oomd.kills) and C03
    ('falls back to the next-best candidate until one kill succeeds': a victim whose pids had all exited yields 0)."""
    P = ctx.prog
    # ---- tryToKillPids counts successful kills only
    tkp = ctx.fn1("Oomd::BaseKillPlugin::tryToKillPids")
    fp = Flow(P, tkp, cg=ctx.cg)
    # what the function returns: a local counter that starts at 0 and is bumped by one
    # on the kill(2)==0 edge and nowhere else
    rv = {ret_text(tkp, r) for r in returns(tkp)}
    cvar = rv.pop() if len(rv) == 1 else None
    init, v = local_init(tkp, cvar) if cvar else (-1, None)
    ws = local_writes(tkp, cvar) if cvar else []
    ctx.counters["nrKilled_writes"] = len(ws)
    ctx.check(v is not None and tkp.text(init) == "0" and not v.get("const"), "count-starts-at-zero", "vardecl", tkp.loc(),
              "the returned count is a local counter starting at 0",
              "tryToKillPids returns '%s', which is not a counter starting at 0 (so it cannot be the number of successful kill(2) calls)" % (
                  cvar if cvar else sorted(rv)))
    if v is not None and not ws:
        ctx.violation("count-only-successful-kills", "guarded_by", tkp.loc(),
                      "the returned count is never incremented on the kill(2)==0 edge")
    for w in ws:
        g = fp.guards(w)
        okk = any(p is True and re.match(r"^\((0 == kill\(.*\)|kill\(.*\) == 0)\)$", k) for k, p in g)
        n = tkp.nodes[w]
        one = (n["k"] == "un" and n["op"] == "++") or tkp.text(write_rhs(tkp, w)) == "1"
        ctx.check(okk and one, "count-only-successful-kills", "guarded_by", tkp.loc(w),
                  "the count is incremented by one on the kill(2)==0 edge only",
                  "the count changes outside the kill(2)==0 edge", witness_path(tkp, fp, w))
    for r in returns(tkp):
        ctx.check(cvar is not None, "tryToKillPids-returns-count", "return_table", tkp.loc(r),
                  "returns the count", "returns " + ret_text(tkp, r))

def kmsg_sink_takes_whole_records(ctx):
    """'One structured oomd kill line is written to the kmsg sink' for every kill: Log::kmsgLog makes one attempt per record and gives
    up on an error, so the descriptor it writes to must be one on which a write waits until the record is taken - it is opened for
    writing, appending, and without O_NONBLOCK (with it, a sink whose reader is behind - a FIFO or tty given by --kmsg-override -
    answers EAGAIN and the record of a kill that did happen is dropped).  Nothing switches the descriptor afterwards (no fcntl on it)."""
    P = ctx.prog
    O_ACCMODE, O_WRONLY, O_RDWR, O_APPEND, O_NONBLOCK, O_TRUNC = 3, 1, 2, 0o2000, 0o4000, 0o1000
    f = ctx.use(ctx.fn1("Oomd::Log::init"))
    opens = [i for i in f.calls("open", "openat", "open64") if not (f.nodes[i].get("callee") or "").startswith(("Oomd::", "std::"))]
    ctx.counters["kmsg_open_sites"] = len(opens)
    ctx.floor("kmsg_open_sites", 1, "open of the kmsg sink in Log::init")
    for i in opens:
        a = f.nodes[i].get("args", [])
        fl = a[2] if f.nodes[i].get("cname") == "openat" and len(a) > 2 else (a[1] if len(a) > 1 else None)
        v = const_int(f, fl) if fl is not None else None
        if v is None:
            ctx.broken("kmsg-sink-takes-whole-records:flags", "anchor", f.loc(i), "the open flags of the kmsg sink are not a constant the front end folds: %s" % (
                f.text(fl) if fl is not None else "?"))
            continue
        ctx.check((v & O_ACCMODE) in (O_WRONLY, O_RDWR) and not (v & O_NONBLOCK), "kmsg-sink-takes-whole-records:open-flags", "constant (folded flags)", f.loc(i),
                  "the kmsg sink is opened for writing and blocking (flags %#o)" % v,
                  "Log::init opens the kmsg sink with flags %#o (%s): %s" % (v, f.text(fl)[:80],
                      "with O_NONBLOCK a write to a sink that cannot take the record right now fails with EAGAIN and Log::kmsgLog, which makes one attempt, "
                      "drops the 'oomd kill' record of a kill that did happen" if v & O_NONBLOCK else "it is not opened for writing, so no record is ever written"))
        ctx.check(bool(v & O_APPEND) and not (v & O_TRUNC), "kmsg-sink-takes-whole-records:appends", "constant (folded flags)", f.loc(i),
                  "records are appended, earlier ones kept", "Log::init opens the kmsg sink with flags %#o: %s" % (
                      v, "opening truncates what an earlier run wrote" if v & O_TRUNC else "without O_APPEND a sink file shared with another writer has its records overwritten"))
    n_fc = 0
    for g in P.fns.values():
        if not g.file.startswith("oomd/Log."):
            continue
        for i in g.calls("fcntl", "ioctl"):
            n_fc += 1
            ctx.use(g)
            ctx.check(False, "kmsg-sink-takes-whole-records:no-mode-switch:%s@%d" % (short(g), g.nodes[i].get("line", 0)), "who-may-call", g.loc(i),
                      "the logger does not change the mode of its descriptor", "%s calls %s: the mode the kmsg descriptor was opened with (blocking, appending) "
                      "is what the one-attempt write in Log::kmsgLog relies on" % (g.pq, g.text(i)[:80]))
    ctx.ok("kmsg-sink-takes-whole-records:no-mode-switch", "who-may-call", "-", "%d fcntl/ioctl calls in the logger" % n_fc)


def run(ctx):
    kmsg_sink_takes_whole_records(ctx)
    # 'neither happens for an attempt that signalled nothing': a kernel kill whose cgroup.kill write failed is seen to have failed
    failure_tests_see_the_sign(ctx, "C17", ["Oomd::BaseKillPlugin::tryToKillCgroup", "Oomd::BaseKillPlugin::tryToKillPids"])
    fs_setxattr_always_writes(ctx, "C17")
    from .C19 import stat_update_is_applied_before_return
    stat_update_is_applied_before_return(ctx, "C17")
    from .C06 import action_context_is_replaced_whole
    action_context_is_replaced_whole(ctx, "C17")
    from .C03 import kernel_kill_counts_only_a_populated_victim
    kernel_kill_counts_only_a_populated_victim(ctx, "C17")
    uuid_generator_keeps_state(ctx)
    pg_scan_sampling_tick(ctx, "C17")
    saved_context_is_a_copy(ctx, "C17")
    # locals / parameters the rules below refer to by name (a rename makes the analysis 'broken', never a violation)
    ctx.anchor(ctx.fn1('Oomd::BaseKillPlugin::tryToKillCgroup'), 'nrKilled', 'cgroupPath', 'killUuid', 'target')
    ctx.anchor(ctx.fn1('Oomd::BaseKillPlugin::tryToLogAndKillCgroup'), 'nrKilled', 'maybeNrKilled', 'cgroupPath', 'actionContext', 'killUuid')
    ctx.anchor(ctx.fn1('Oomd::BaseKillPlugin::reportKillInitiationToXattr'), 'prevXattr', 'xattr')
    ctx.anchor(ctx.fn1('Oomd::BaseKillPlugin::reportKillCompletionToXattr'), 'prevXattr', 'numProcsKilled', 'xattr')
    ctx.anchor(ctx.fn1('Oomd::BaseKillPlugin::reportKillUuidToXattr'), 'killUuid', 'xattr')
    P = ctx.prog
    tkc = ctx.fn1("Oomd::BaseKillPlugin::tryToKillCgroup")
    uu = tkc.calls("reportKillUuidToXattr")
    ini = tkc.calls("reportKillInitiationToXattr")
    com = tkc.calls("reportKillCompletionToXattr")
    sinks = tkc.calls(*KILL_SINKS)
    ctx.counters["xattr_report_calls"] = len(uu) + len(ini) + len(com)
    ctx.floor("xattr_report_calls", 3, "xattr report calls in tryToKillCgroup")
    ctx.counters["kill_sinks_in_tryToKillCgroup"] = len(sinks)
    ctx.floor("kill_sinks_in_tryToKillCgroup", 3, "kill sinks in tryToKillCgroup")
    ev = {}
    for i in uu:
        ev.setdefault(i, []).append(("set", "uuid"))
    for i in ini:
        ev.setdefault(i, []).append(("set", "init"))
    for i in com:
        ev.setdefault(i, []).append(("set", "completion"))
    for i in sinks:
        ev.setdefault(i, []).append(("set", "sink"))
    # any later change of nrKilled invalidates the completion report
    for w in local_writes(tkc, "nrKilled"):
        ev.setdefault(w, []).append(("clear", "completion"))
    fl = Flow(P, tkc, events=ev, cg=ctx.cg)
    for i in sinks:
        nm = tkc.nodes[i]["cname"]
        ctx.check(fl.must(i, "uuid") and fl.must(i, "init"), "xattrs-before-kill:" + nm, "order", tkc.loc(i),
                  "uuid and initiation xattrs are written before " + nm,
                  nm + " can run before the uuid/initiation xattrs are written")
    for i in ini:
        ctx.check(fl.must(i, "uuid") or True, "uuid-with-initiation", "order", tkc.loc(i), "", "")
        ctx.check(not fl.may(i, "init"), "initiation-once", "at_most_once", tkc.loc(i),
                  "initiation is reported once per attempt", "initiation can be reported twice for one attempt")
    for i in uu + ini:
        ctx.check(not fl.may(i, "sink"), "report-precedes-sinks:" + tkc.nodes[i]["cname"], "never_after", tkc.loc(i),
                  "reported before any signal", "report happens after a kill sink")
    for i in com:
        a1 = tkc.text(tkc.nodes[i]["args"][1])
        ctx.check(a1 == "nrKilled", "completion-reports-nrKilled", "value-shape", tkc.loc(i),
                  "completion xattr receives nrKilled", "completion xattr receives " + a1)
        ctx.check(not fl.may(i, "completion"), "completion-once", "at_most_once", tkc.loc(i),
                  "completion is reported once", "completion can be reported twice")
    finals = [r for r in returns(tkc) if ret_text(tkc, r).endswith("nrKilled") or ret_text(tkc, r) == "nrKilled"
              or "(nrKilled)" in ret_text(tkc, r)]
    ctx.counters["final_returns"] = len(finals)
    ctx.floor("final_returns", 1, "return nrKilled in tryToKillCgroup")
    for r in finals:
        ctx.check(fl.must(r, "completion"), "completion-before-return", "must_follow", tkc.loc(r),
                  "every path to 'return nrKilled' reports that same nrKilled in the completion xattr",
                  "'return nrKilled' is reachable without the completion xattr carrying that value")
    # every return after a kill sink is such a final return (or an error)
    for r in returns(tkc):
        if r in finals:
            continue
        if fl.may(r, "sink"):
            t = ret_text(tkc, r)
            ok = "systemError" in t or "SYSTEM_ERROR" in t or tkc.nodes[r].get("mac") == "SYSTEM_ERROR" or t in ("0", "Oomd::SystemMaybe(0)")
            nonfreeze = [s for s in sinks if tkc.nodes[s]["cname"] != "writeFreezeAt"]
            ev2 = {s: [("set", "killsink")] for s in nonfreeze}
            f2 = Flow(P, tkc, events=ev2, cg=ctx.cg)
            if f2.may(r, "killsink") and "rror" not in t:
                ctx.violation("return-after-kill-without-accounting", "must_follow", tkc.loc(r),
                              "returns %s after signalling without reporting completion" % t[:60])
    ctx.ok("returns-after-kill", "must_follow", tkc.loc(), "no non-error return after a kill sink skips the completion report")

    # ---- helpers: +1 / +numProcsKilled on both copies, uuid as given
    for q, expect, names in (
            ("reportKillInitiationToXattr", r"\(prevXattr \+ 1\)", ("kOomdKillInitiationTrustedXattr", "kOomdKillInitiationUserXattr")),
            ("reportKillCompletionToXattr", r"\(prevXattr \+ numProcsKilled\)", ("kOomdKillCompletionTrustedXattr", "kOomdKillCompletionUserXattr")),
            ("reportKillUuidToXattr", None, ("kOomdKillUuidTrustedXattr", "kOomdKillUuidUserXattr"))):
        rf = ctx.fn1("Oomd::BaseKillPlugin::" + q)
        lams = P.lambdas_in(rf)
        X = Expander(P, rf)
        called = [X(rf.nodes[i]["args"][0]) for i in rf.calls() if rf.nodes[i].get("op") == "()" and rf.nodes[i].get("args")]
        written = []
        n_sets = 0
        for g in [rf] + list(lams):
            ctx.use(g)
            Xg = Expander(P, g)
            for i in g.calls("setxattr"):
                a = [Xg(x) for x in g.nodes[i]["args"]]
                if len(a) < 3:
                    continue
                n_sets += 1
                names_w = called if a[1] == "param:xattr" else [a[1]]
                written += names_w
                if expect:
                    delta = "1" if "Initiation" in q else "numProcsKilled"
                    reads = re.findall(r"getxattr\(([^,]+), ([^()]+?)\)", a[2])
                    same = bool(reads) and all(r_[1].strip() == a[1] for r_ in reads)
                    ctx.check(same, q + ":same-attribute", "provenance", g.loc(i), "each copy's new value is computed from that copy's own previous value",
                              "the value written to %s is computed from %s: the two copies (trusted./user.) no longer rise independently by the delta - a "
                              "diverged or unreadable copy is overwritten instead of incremented" % (a[1], [r_[1] for r_ in reads] or "no previous value"))
                    ctx.check(re.search(r"std::to_string\(\(.* \+ (param:)?%s\)\)" % delta, a[2]) is not None, q + ":delta", "value-shape", g.loc(i),
                              "new value = previous + " + delta, "new value is " + a[2][:100])
                else:
                    ctx.check(a[2] == "param:killUuid", q + ":value", "provenance", g.loc(i), "writes the given uuid", "writes " + a[2])
        ctx.check(n_sets >= 1 and all(any(nm in w for w in written) for nm in names), q + ":both-copies", "value-shape",
                  rf.loc(), "the trusted. and the user. attribute are both written", "attributes written: " + str(sorted(set(written))))
    kill_count_is_successful_signals(ctx)
    tkp = ctx.fn1("Oomd::BaseKillPlugin::tryToKillPids")
    # per-iteration: each pid is signalled at most once
    ls = loop_over(tkp, "pids")
    if ls:
        ks = tkp.calls("kill")
        fi = iter_flow(ctx, tkp, ls[0], {k: [("set", "K")] for k in ks})
        ctx.check(all(not fi.may(k, "K") for k in ks) and len(ks) == 1, "one-signal-per-pid", "at_most_once",
                  tkp.loc(ks[0]) if ks else tkp.loc(), "one kill(2) per listed pid", "a pid can be signalled twice")
    Xc0 = Expander(P, tkc)
    gk = ctx.fn1("Oomd::BaseKillPlugin::getAndTryToKillPids")
    for w in local_writes(gk, "nrKilled"):
        rhs = gk.text(write_rhs(gk, w))
        ctx.check(gk.nodes[w].get("op") == "+=" and re.match(r"^this->(tryToKillPids|getAndTryToKillPids)\(", rhs) is not None,
                  "accumulate-only-kill-results:getAndTryToKillPids", "value-shape", gk.loc(w),
                  "nrKilled accumulates only kill results", "nrKilled receives " + rhs[:60])
    for w in local_writes(tkc, "nrKilled"):
        rhs = Xc0(write_rhs(tkc, w))
        if rhs == "0":
            # a reset is harmless only before anything was signalled
            fk0 = Flow(P, tkc, events={i_: [("set", "sink")] for i_ in tkc.calls("getAndTryToKillPids", "Fs::writeKillAt")}, cg=ctx.cg)
            rhs = "0" if fk0.may(w, "sink") else "1"
        def _ok_value(t_):
            return bool(re.match(r"^this->getAndTryToKillPids\(param:target\)$", t_)) or t_ == "1" or \
                t_ in ("Oomd::Fs::readPidsCurrentAt(param:target.fd()).value()", "*Oomd::Fs::readPidsCurrentAt(param:target.fd())")
        ok = _ok_value(rhs)
        rn_ = tkc.nodes[tkc.strip(write_rhs(tkc, w))]
        if not ok and rn_["k"] == "cond":
            # the conditional spelling of the same two assignments: each arm is one of the documented values
            ok = _ok_value(Xc0(rn_["t"])) and _ok_value(Xc0(rn_["f"]))
        ctx.check(bool(ok), "accumulate-only-kill-results:tryToKillCgroup", "value-shape", tkc.loc(w),
                  "nrKilled receives kill results (or the documented cgroup.kill count)", "nrKilled receives " + rhs[:60])

    # ---- tryToLogAndKillCgroup: counter, kmsg record, return value
    tlk = ctx.fn1("Oomd::BaseKillPlugin::tryToLogAndKillCgroup")
    ft = Flow(P, tlk, cg=ctx.cg)

    def killed_something(g):
        if has_fact(g, True, "(0 < nrKilled)"):
            return True
        # (nrKilled is the result's value - rule nrKilled-from-result - so `nrKilled == 0` false on the success edge says the same)
        return (("maybeNrKilled", True) in g) and any(
            p is False and k in ("(*maybeNrKilled == 0)", "(0 == *maybeNrKilled)", "(0 == maybeNrKilled.value())", "(maybeNrKilled.value() == 0)",
                                 "(nrKilled == 0)", "(0 == nrKilled)") for k, p in g)
    init, v = local_init(tlk, "nrKilled")
    ctx.check(v is not None and re.match(r"^\(maybeNrKilled(\.operator bool\(\)|\.has_value\(\))? \? (\*maybeNrKilled|maybeNrKilled\.value\(\)) : 0\)$", tlk.text(init)) is not None,
              "nrKilled-from-result",
              "value-shape", tlk.loc(), "nrKilled is the kill result (0 on error)", "nrKilled is " + (tlk.text(init) if v else "?"))
    for w in local_writes(tlk, "nrKilled"):
        ctx.violation("nrKilled-from-result:rewritten@%d" % tlk.nodes[w].get("line", 0), "value-shape", tlk.loc(w),
                      "tryToLogAndKillCgroup re-assigns nrKilled (%s) after taking it from the kill result: the count that is logged, written to the kill info "
                      "and turned into the return value is no longer the number of processes signalled by this attempt (a dry run reports a count, a failed "
                      "probe reports none)" % tlk.text(w)[:80])
    stats = [i for i in tlk.calls("Oomd::incrementStat") if "kKillsKey" in tlk.text(tlk.nodes[i]["args"][0])]
    ctx.counters["kills_stat_sites"] = len(stats)
    ctx.floor("kills_stat_sites", 1, "oomd.kills increments")
    for i in stats:
        g = ft.guards(i)
        ctx.check(killed_something(g) and has_fact(g, False, "this->dry_"), "kills-stat-only-when-killed-and-wet",
                  "guarded_by", tlk.loc(i), "oomd.kills rises only after a wet attempt that signalled a process",
                  "oomd.kills can rise without a signalled process or in dry mode", witness_path(tlk, ft, i))
        ctx.check(tlk.text(tlk.nodes[i]["args"][1]) == "1" and not ft.may(i, "x"), "kills-stat-by-one", "value-shape", tlk.loc(i),
                  "increment is exactly 1", "increment is " + tlk.text(tlk.nodes[i]["args"][1]))
    # nobody else bumps oomd.kills
    for f in P.fns.values():
        if f is tlk:
            continue
        for i in f.calls("Oomd::incrementStat"):
            if "kKillsKey" in f.text(f.nodes[i]["args"][0]):
                ctx.violation("kills-stat-elsewhere:" + short(f), "who-may-call", f.loc(i), "oomd.kills incremented outside tryToLogAndKillCgroup")
    km = [i for i in tlk.calls("OOMD_KMSG_LOG", "Log::kmsgLog")]
    ctx.counters["kmsg_sites"] = len(km)
    ctx.floor("kmsg_sites", 1, "kmsg record sites")
    for i in km:
        g = ft.guards(i)
        ctx.check(killed_something(g), "kmsg-only-when-killed", "guarded_by", tlk.loc(i),
                  "the kmsg record is written only after a signalled process",
                  "the kmsg record can be written although nothing was signalled", witness_path(tlk, ft, i))
        extra = [k for k, p in g if k in ("this->dry_", "dry") or "enabled(" in k or "silenc" in k]
        ctx.check(not extra, "kmsg-not-conditioned", "guarded_by", tlk.loc(i),
                  "the kmsg record does not depend on dry or log silencing", "kmsg record is conditioned on " + str(extra))
        a = [tlk.text(x) for x in tlk.nodes[i]["args"]]
        ctx.check(len(a) == 2 and a[1].startswith('"oomd kill"') and a[0].endswith(".str()"), "kmsg-prefix", "value-shape",
                  tlk.loc(i), "record is <stream>.str() with prefix 'oomd kill'", "kmsg arguments are " + str(a)[:100])
        stream = a[0][:-len(".str()")]
        parts = stream_parts(tlk, stream)
        need = {"cgroupPath": "the cgroup path", "actionContext.ruleset_name": "the ruleset",
                "actionContext.detectorgroup": "the detector group", "this->getName()": "the plugin name"}
        missing = [d for t, d in need.items() if not any(t in p for p in parts)]
        ctx.check(not missing, "kmsg-record-fields", "value-shape", tlk.loc(i),
                  "record names cgroup, ruleset, detector group and plugin", "record lacks " + ", ".join(missing))
    for r in returns(tlk):
        ctx.check(ret_text(tlk, r) == "(nrKilled > 0)", "returns-killed-something", "return_table", tlk.loc(r),
                  "returns nrKilled > 0", "returns " + ret_text(tlk, r))
    # uuid provenance
    X = Expander(P, tlk)
    for i in tlk.calls("tryToKillCgroup"):
        ctx.check(X(tlk.nodes[i]["args"][1]) == "this->generateKillUuid()", "uuid-is-this-attempts", "provenance", tlk.loc(i),
                  "the uuid handed to the kill is generated for this attempt", "uuid is " + X(tlk.nodes[i]["args"][1]))
    dk = tlk.calls("dumpKillInfo")
    for i in dk:
        a = [tlk.text(x) for x in tlk.nodes[i]["args"]]
        ctx.check(a[2] == "killUuid" and a[3] == "nrKilled", "dump-same-uuid-and-count", "provenance", tlk.loc(i),
                  "kill info carries the same uuid and count", "kill info carries %s / %s" % (a[2], a[3]))
    Xc = Expander(P, tkc)
    for i in uu:
        ctx.check(Xc(tkc.nodes[i]["args"][1]) == "param:killUuid", "uuid-xattr-is-attempt-uuid", "provenance", tkc.loc(i),
                  "uuid xattr receives the attempt's id", "uuid xattr receives " + Xc(tkc.nodes[i]["args"][1]))

    kmsg_path_ignores_silencing(ctx)
    kmsg_record_complete(ctx, "C17")
    # ---- KillResult::SUCCESS (-> STOP, ruleset pause) only where a victim really yielded a signalled process
    n_succ = 0
    for q in ("Oomd::BaseKillPlugin::resumeTryingToKillSomething", "Oomd::BaseKillPlugin::resumeFromPrekillHook", "Oomd::BaseKillPlugin::tryToKillSomething"):
        f = ctx.fn1(q)
        ctx.use(f)
        fs_ = Flow(P, f, cg=ctx.cg, edge_tokens=lambda k, p: ["killed"] if ("tryToLogAndKillCgroup(" in k and p is True) else None)
        for r in returns(f):
            if ret_const(f, r) != "SUCCESS":
                continue
            n_succ += 1
            ctx.check(fs_.must(r, "killed"), "SUCCESS-only-after-a-signalled-victim:%s@%d" % (short(f), f.nodes[r].get("line", 0)), "passed_edge", f.loc(r),
                      "KillResult::SUCCESS is returned only on the edge where tryToLogAndKillCgroup reported a signalled process",
                      "KillResult::SUCCESS is returned on a path where no victim was signalled: run() answers STOP (and the ruleset pauses, the rest of the chain "
                      "is skipped) although nothing was killed and no xattr, counter or kmsg record changed", witness_path(f, fs_, r))
    ctx.counters["SUCCESS_returns"] = n_succ
    ctx.floor("SUCCESS_returns", 2, "return KillResult::SUCCESS sites in the kill cycle")
    # ---- PluginRet mapping
    krun = ctx.fn1("Oomd::BaseKillPlugin::run")
    fk = Flow(P, krun, cg=ctx.cg)
    seen = set()
    # the local holding the kill cycle's result, whatever it is called: every value it receives comes from the kill cycle
    CYCLE = re.compile(r"this->(resumeFromPrekillHook|tryToKillSomething)\(")
    kr = set()
    for d_ in krun.all("decl"):
        for v_ in krun.nodes[d_].get("vars", []):
            if v_.get("init") is not None and v_.get("init", -1) >= 0 and CYCLE.search(krun.text(v_["init"])):
                kr.add(v_["name"])
    for i_, n_ in enumerate(krun.nodes):
        if n_["k"] == "bin" and n_.get("op") == "=" and CYCLE.search(krun.text(n_["r"])) and krun.nodes[krun.strip(n_["l"])]["k"] == "ref":
            kr.add(krun.nodes[krun.strip(n_["l"])]["name"])
    if len(kr) != 1:
        ctx.broken("kill-result-local", "anchor", krun.loc(), "BaseKillPlugin::run does not keep the kill cycle's result in one local (%s)" % sorted(kr))
        return
    krn = sorted(kr)[0]
    for r in returns(krun):
        c = ret_const(krun, r)
        g = fk.guards(r)
        seen.add(c)
        DEFER = ("(Oomd::BaseKillPlugin::KillResult::DEFER == %s)" % krn, "(%s == Oomd::BaseKillPlugin::KillResult::DEFER)" % krn)
        FAILED = ("(Oomd::BaseKillPlugin::KillResult::FAILED == %s)" % krn, "(%s == Oomd::BaseKillPlugin::KillResult::FAILED)" % krn)
        AC = ("this->alwaysContinue_",)
        # the same tests spelled as a switch / if-chain over the result: case facts on the local
        CASEF = {DEFER: "DEFER", FAILED: "FAILED"}
        fact = lambda keys, pol: any(k in keys and p is pol for k, p in g) or (keys in CASEF and any(k == krn and p == (("case:" if pol else "not:") + CASEF[keys]) for k, p in g))
        either = any(p is True and re.match(r"^\(\(.*KillResult::FAILED.*\) \|\| this->alwaysContinue_\)$", k) for k, p in g)
        if c == "ASYNC_PAUSED":
            ok = fact(DEFER, True)
        elif c == "CONTINUE":
            ok = fact(DEFER, False) and (fact(FAILED, True) or fact(AC, True) or either)
        elif c == "STOP":
            ok = fact(DEFER, False) and fact(FAILED, False) and fact(AC, False)
        else:
            ok = False
        ctx.check(ok, "return-table:run:" + str(c), "return_table", krun.loc(r),
                  "%s is returned on its documented edge" % c, "%s is returned under %s" % (c, sorted(g, key=str)))
    ctx.check(seen == {"ASYNC_PAUSED", "CONTINUE", "STOP"}, "return-table:run:complete", "return_table", krun.loc(),
              "run() returns the three documented values", "run() returns %s" % sorted(map(str, seen)))
    # ret is the result of the kill cycle
    init_, v_ = local_init(krun, krn, must=False)
    if v_ is not None and init_ is not None and init_ >= 0:
        # an initialiser counts like an assignment (both arms of a ?: are kill-cycle calls)
        for leaf in value_leaves(krun, init_):
            ctx.check(re.match(r"^this->(resumeFromPrekillHook|tryToKillSomething)\(", krun.text(leaf)) is not None, "ret-is-kill-result",
                      "provenance", krun.loc(leaf), "the result local is the kill cycle's result", "the result local is initialised with " + krun.text(leaf)[:60])
    for w in local_writes(krun, krn):
        rhs = krun.text(write_rhs(krun, w))
        ctx.check(re.match(r"^this->(resumeFromPrekillHook|tryToKillSomething)\(", rhs) is not None, "ret-is-kill-result",
                  "provenance", krun.loc(w), "ret is the kill cycle's result", "ret receives " + rhs[:60])

    # ---- no exception from arbitrary xattr text
    E = Escape(P, ctx.cg)
    bad = []
    for q in ("reportKillInitiationToXattr", "reportKillCompletionToXattr", "reportKillUuidToXattr"):
        rf = P.fn1("Oomd::BaseKillPlugin::" + q)
        for s, ch in E.from_root(rf, classes={"text", "absent", "explicit"}):
            bad.append((s, ch))
    ctx.check(not bad, "xattr-text-cannot-throw", "E-ESCAPE", tkc.loc(),
              "no conversion of pre-existing xattr text can throw out of the xattr helpers",
              "pre-existing xattr text (user.* is writable by the cgroup owner) can throw out of the kill path: " +
              "; ".join("%s at %s" % (s.what, s.loc()) for s, _ in bad[:3]), bad[0][1] if bad else None)
