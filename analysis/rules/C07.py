"""C07 Prekill hooks (DESIGN 4/C07)."""
import re
from .common import *

EXPLANATION = (
    "Decides on the CFGs of BaseKillPlugin::{run,resumeTryingToKillSomething,resumeFromPrekillHook}, "
    "Engine::{Engine,addDropInConfig,removeDropInConfig,firePrekillHook}, OomdContext::firePrekillHook "
    "and PrekillHook::canRunOnCgroup: a hook is fired at most once per candidate and only while the "
    "timeout window (deadline fixed when the chain fired) is open; while an invocation is unfinished "
    "and not timed out every path returns DEFER without a kill; the invocation object (the local one "
    "of an immediately finishing hook, or the stored one) is destroyed before the first signal; a "
    "second invocation can never be stored while one is outstanding; a deferred victim is killed only "
    "after being re-resolved by path AND inode id, otherwise FAILED with no kill; hooks are tried in "
    "priority order (drop-ins newest first, then base hooks in config order) and the first whose "
    "patterns match fires.  Hook completion times and hook plugin behaviour are not decided.")
RULE_SUMMARY = "E-PATH at-most-once, passed-edge tokens, must-precede / never-after, guard dominance, loop shape"
NOT_DECIDED = ["completion times of hooks relative to ticks", "behaviour of hook plugins themselves"]
ASSUMPTIONS = ["PrekillHookInvocation's destructor ends the invocation"]


def hook_list_rule(ctx):
    """The prekill hook list keeps its priority order (drop-in hooks newest first, then base hooks in configuration order) through every
    operation anybody applies to it, and hooks leave it only when their drop-in tag is removed.  Shared by C07 and C13."""
    P = ctx.prog
    # priority order survives every other operation on the hook list: only order-preserving mutators may touch it
    STABLE = {"operator==", "operator!=", "distance", "emplace_back", "push_back", "erase", "clear", "remove_if", "remove", "erase_if", "begin", "end", "cbegin", "cend", "rbegin", "rend", "crbegin", "crend",
              "size", "empty", "reserve", "find_if", "find", "any_of", "all_of", "none_of", "for_each", "count_if", "operator=", "stable_partition", "shrink_to_fit"}
    n_ops = 0
    for f in P.fns.values():
        if f.kind in ("ctor", "dtor") and not f.nodes:
            continue
        for i, n in enumerate(f.nodes):
            if n["k"] != "call" or f.pos_of(i) is None:
                continue
            recv = f.text(n["recv"]) if "recv" in n else ""
            touches = recv.endswith("prekill_hooks_in_reverse_order_") or any(
                re.match(r"^(this->)?prekill_hooks_in_reverse_order_(\.(begin|end|rbegin|rend)\(\))?$", f.text(a)) for a in n.get("args", []))
            if not touches:
                continue
            n_ops += 1
            nm = n.get("cname") or ""
            if nm in STABLE or n.get("op") in ("=",):
                continue
            if nm in ("operator[]", "at", "front", "back") or n.get("op") == "[]":
                # element access: order preserving unless the element itself is replaced (assigned, swapped, moved from)
                par = f.parent.get(i)
                while par is not None and f.nodes[par]["k"] in ("cast", "paren", "other"):
                    par = f.parent.get(par)
                pn = f.nodes[par] if par is not None else None
                replaced = pn is not None and ((pn["k"] == "bin" and pn.get("op") == "=" and i in list(f.walk(pn["l"]))) or
                                               (pn["k"] == "call" and pn.get("op") == "=" and "recv" in pn and i in list(f.walk(pn["recv"]))) or
                                               (pn["k"] == "call" and pn.get("cname") in ("swap", "iter_swap", "exchange", "move")))
                if not replaced:
                    continue
            ctx.violation("hook-order-preserved:%s@%s" % (short(f), nm), "who-may-write (order-preserving operations)", f.loc(i),
                          "%s is applied to the prekill hook list: it is not an order-preserving operation, so the surviving hooks can be tried in a "
                          "different priority order (drop-in hooks newest first, then base hooks in config order)" % nm)
    # nothing but the removal of a tag takes hooks out of the list: erasing calls live in Engine::removeDropInConfig only
    SHRINK = {"erase", "clear", "remove_if", "remove", "erase_if", "pop_back", "resize", "operator=", "swap", "assign"}
    n_shr = 0
    for f in P.fns.values():
        if f.kind in ("ctor", "dtor") and f.cls == "Oomd::Engine::Engine" and f.kind == "dtor":
            continue
        for i, n in enumerate(f.nodes):
            if n["k"] != "call" or f.pos_of(i) is None:
                continue
            recv = f.text(n["recv"]) if "recv" in n else ""
            touches = recv.endswith("prekill_hooks_in_reverse_order_") or any(
                re.match(r"^(this->)?prekill_hooks_in_reverse_order_(\.(begin|end|rbegin|rend|cbegin|cend)\(\))?$", f.text(a)) for a in n.get("args", []))
            if not touches or not ((n.get("cname") or "") in SHRINK or n.get("op") == "="):
                continue
            n_shr += 1
            owner = f
            while owner.kind == "lambda" and owner.d.get("parentfn") in P.fns:
                owner = P.fns[owner.d["parentfn"]]
            ctx.check(owner.pq == "Oomd::Engine::Engine::removeDropInConfig", "hooks-removed-only-with-their-tag:%s@%s" % (short(owner), n.get("cname") or n.get("op")),
                      "who-may-write (removal)", f.loc(i), "hooks leave the list only when their drop-in tag is removed",
                      "%s takes hooks out of the prekill hook list outside removeDropInConfig: hooks of a drop-in that is still configured (or base hooks) "
                      "disappear, so removing the newer drop-in does not restore the older one's hooks" % short(owner))
    ctx.counters["hook_list_removals"] = n_shr
    ctx.floor("hook_list_removals", 1, "erasing operations on prekill_hooks_in_reverse_order_ (removeDropInConfig)")
    ctx.counters["hook_list_operations"] = n_ops
    ctx.floor("hook_list_operations", 5, "operations on prekill_hooks_in_reverse_order_")
    ctx.ok("hook-order-preserved", "who-may-write (order-preserving operations)", "-", "%d operations on the hook list, all order preserving" % n_ops)


def engine_fire_rule(ctx):
    """Shared by C07 and C13: Engine::firePrekillHook decides which hook runs for a victim - it walks the reverse-ordered list from its back
    (drop-in hooks newest first, then base hooks in configuration order), fires the first hook whose patterns match, returns its
    invocation.  C13's 'drop-in prekill hooks take priority newest-first over base hooks' is this walk."""
    P = ctx.prog
    ctx.anchor(ctx.fn1('Oomd::Engine::Engine::firePrekillHook'), 'cgroup_ctx')
    fph = ctx.fn1("Oomd::Engine::Engine::firePrekillHook")
    lh = loops(fph)
    sw = search_walks(fph)
    if True:
        wk = None
        if not ((len(lh) == 1 and not sw) or (not lh and len(sw) == 1)):
            # no walk to judge the order by (a 'loop' whose body always returns is not a loop): the fire sites are still judged below
            ctx.violation("firePrekillHook:loop", "anchor", fph.loc(), "expected one loop (or one std::find_if) over the hook list")
        else:
            hdr = loop_header(fph, lh[0]) if lh else fph.text(sw[0]["call"])
            wk = loop_walk(fph, lh[0]) if lh else sw[0]
            ctx.check(wk is not None and wk["dir"] == "backward" and wk["container"] == "this->prekill_hooks_in_reverse_order_",
                      "firePrekillHook:reverse-traversal", "loop-shape", fph.loc(lh[0]["stmt"]) if lh else fph.loc(sw[0]["call"]),
                      "the reverse-ordered list is walked from its back", "walk is " + hdr[:120])
        fl = Flow(P, fph, cg=ctx.cg)
        fire = fph.calls("PrekillHook::fire")
        ctx.counters["engine_fire_sites"] = len(fire)
        ctx.floor("engine_fire_sites", 1, "PrekillHook::fire call in Engine::firePrekillHook")
        for i in fire:
            g = fl.guards(i)
            ctx.check(has_fact(g, True, "canRunOnCgroup(cgroup_ctx)"), "fire-only-matching-hook", "guarded_by", fph.loc(i),
                      "only a hook whose patterns match the victim fires", "fire() not guarded by canRunOnCgroup(victim)")
            par = fph.parent.get(i)
            while par is not None and fph.nodes[par]["k"] in ("cast", "construct", "other"):
                par = fph.parent.get(par)
            ctx.check(par is not None and fph.nodes[par]["k"] == "return", "first-match-wins", "return_table", fph.loc(i),
                      "the first matching hook's invocation is returned (no later hook fires)",
                      "fire() result is not returned immediately: a second hook could fire")
            a = [fph.text(x) for x in fph.nodes[i]["args"]]
            ctx.check(a[0] == "cgroup_ctx" and "getActionContext()" in a[1], "fire-args", "provenance", fph.loc(i),
                      "hook receives the victim and the action context", "hook receives " + str(a))
            # the hook fired is the one that was tested, and it is the current element's hook (directly or through a local alias)
            arrow = lambda t_: re.sub(r"\(\*(\w+)\)\.", r"\1->", t_)          # (*it).x and it->x are the same expression
            fired = arrow(re.sub(r"(->|\.)$", "", fph.text(fph.nodes[i]["recv"])))
            tested = [arrow(re.sub(r"(->|\.)canRunOnCgroup\(.*$", "", k)) for k, p in g if "canRunOnCgroup(" in k and p is True]

            def of_element(t):
                if wk is None:
                    return False
                if re.match(r"^\w+$", t):
                    init_, v_ = local_init(fph, t, must=False)
                    if v_ is None or init_ is None or init_ < 0 or local_writes(fph, t, must=False):
                        return False
                    t = fph.text(init_)
                m_ = re.match(wk["elem"], t)
                return m_ is not None and re.match(r"^(\.|->)?hook$", t[m_.end():]) is not None
            fired_h = arrow(re.sub(r"(->|\.)$", "", hoist_text(fph, fph.nodes[i]["recv"], P)))
            ctx.check(bool(tested) and all(t_ in (fired, fired_h) for t_ in tested) and (of_element(fired) or of_element(fired_h)),
                      "fire-the-tested-hook", "provenance", fph.loc(i), "the hook fired is the one tested", "fires another hook than the one tested")

def deferred_victim_is_the_selected_candidate(ctx):
    """Shared by C01 and C07: what is parked while a pre-kill hook runs is the candidate that was selected, logged and hooked - the saved
    `target` is the candidate's own cgroup (kc.cgroupCtx), not its kill root (the configured cgroup the candidate was found under) or
    anything else.  On resume exactly that target is re-resolved and killed."""
    P = ctx.prog
    rts = ctx.fn1("Oomd::BaseKillPlugin::resumeTryingToKillSomething")
    n = 0
    for g in [rts] + P.lambdas_in(rts):
        for i, nd in enumerate(g.nodes):
            if nd["k"] not in ("initlist", "construct") or "SerializedKillCandidate" not in (nd.get("type") or ""):
                continue
            kids = nd.get("kids", nd.get("args", []))
            if not kids:
                continue
            cls = P.classes.get("Oomd::BaseKillPlugin::SerializedKillCandidate", {})
            names = [x["name"] for x in cls.get("fields", [])]
            if "target" not in names or names.index("target") >= len(kids):
                ctx.broken("deferred-victim-is-the-selected-candidate", "anchor", g.loc(i), "SerializedKillCandidate has no field 'target' at a known position")
                continue
            n += 1
            t = g.text(kids[names.index("target")])
            ctx.check(re.search(r"\.cgroupCtx\b", t) is not None and ".killRoot" not in t, "deferred-victim-is-the-selected-candidate", "value-shape (aggregate initialiser by field position)", g.loc(i),
                      "the saved target is the candidate's own cgroup", "the deferred victim is saved as '%s' instead of the candidate's own cgroup (kc.cgroupCtx): after the "
                      "hook the whole kill root - the configured cgroup the candidate was found under, siblings included - is killed" % t[:80])
    ctx.counters["serialized_candidate_sites"] = n
    ctx.floor("serialized_candidate_sites", 1, "construction of SerializedKillCandidate")



def can_run_is_the_pattern_loop(ctx):
    """PrekillHook::canRunOnCgroup is the pattern match and nothing else: true iff some pattern matches, false only when none did."""
    P = ctx.prog
    # canRunOnCgroup: true iff some pattern matches
    can = ctx.fn1("Oomd::Engine::PrekillHook::canRunOnCgroup")
    fc = Flow(P, can, cg=ctx.cg)
    for r in returns(can):
        t = ret_text(can, r)
        g = fc.guards(r)
        m_any = re.match(r"^std::any_of\(this->cgroup_patterns_\.c?begin\(\), this->cgroup_patterns_\.c?end\(\), lambda@\d+\)$", t)
        if m_any:
            # the algorithm spelling of the same loop: true iff the predicate holds for some pattern
            lam_ = [l for l in P.lambdas_in(can)]
            okl = len(lam_) == 1 and len(lam_[0].params) == 1 and [ret_text(lam_[0], r_) for r_ in returns(lam_[0])] == [
                "%s.cgroup().hasDescendantWithPrefixMatching(%s)" % (can.params[0]["name"], lam_[0].params[0]["name"])]
            ctx.check(okl, "canRun:true-iff-pattern-matches", "return_table", can.loc(r), "true iff some pattern matches (std::any_of over the patterns)",
                      "any_of predicate is not the pattern match")
            continue
        if t == "true":
            ctx.check(has_fact(g, True, "hasDescendantWithPrefixMatching(pattern)"), "canRun:true-iff-pattern-matches", "return_table",
                      can.loc(r), "true only on a matching pattern", "returns true without a pattern match")
        else:
            ctx.check(t == "false" and not has_fact(g, True, "hasDescendantWithPrefixMatching("), "canRun:false-otherwise", "return_table",
                      can.loc(r), "false when no pattern matched", "returns %s" % t)
            # ... and for no other reason: the only facts a 'false' may depend on are about the patterns (none matched / none left)
            other = [(k, p_) for k, p_ in g if isinstance(k, str) and not re.search(r"hasDescendantWithPrefixMatching\(|cgroup_patterns_|\.end\(\)|\.size\(\)|\.empty\(\)|__begin\d*|__end\d*", k)]
            ctx.check(not other, "canRun:false-only-when-no-pattern-matches@%d" % can.nodes[r].get("line", 0), "return_table", can.loc(r),
                      "false depends on the patterns only", "PrekillHook::canRunOnCgroup returns false under %s, before/without trying the patterns: the hook match is no "
                      "longer 'true exactly when the path equals the pattern, is an ancestor of a possible match or descends from a match' for the paths that take "
                      "this exit (the root cgroup is an ancestor of every possible match)" % ", ".join("%s=%s" % (k, p_) for k, p_ in other[:3]))


def run(ctx):
    from .C12 import failed_part_refuses_the_whole
    failed_part_refuses_the_whole(ctx, "C07")      # a hook that failed to compile must not silently drop out of the priority list
    from .C13 import compile_dropin_refuses_whole_unit
    compile_dropin_refuses_whole_unit(ctx)
    from .C13 import update_removes_then_adds
    update_removes_then_adds(ctx)
    from .C06 import action_context_is_replaced_whole
    action_context_is_replaced_whole(ctx, "C07")
    deferred_victim_is_the_selected_candidate(ctx)
    from .C15 import cached_slot_types_agree
    cached_slot_types_agree(ctx)
    from .C13 import merge_writes_only_overridable_parts
    merge_writes_only_overridable_parts(ctx)
    from .C13 import handoff_queue_fifo
    handoff_queue_fifo(ctx)
    saved_context_is_a_copy(ctx, "C07")
    # locals / parameters the rules below refer to by name (a rename makes the analysis 'broken', never a violation)
    ctx.anchor(ctx.fn1('Oomd::BaseKillPlugin::resumeTryingToKillSomething'), 'candidate', 'nextBestOptionStack')
    ctx.anchor(ctx.fn1('Oomd::BaseKillPlugin::resumeFromPrekillHook'), 'intendedCandidate', 'intendedVictim')
    ctx.anchor(ctx.fn1('Oomd::Engine::Engine::firePrekillHook'), 'cgroup_ctx')
    ctx.anchor(ctx.fn1('Oomd::Engine::Engine::addDropInConfig'), 'tag')
    ctx.anchor(ctx.fn1('Oomd::Engine::PrekillHook::canRunOnCgroup'), 'pattern')
    ctx.anchor(ctx.fn1('Oomd::BaseKillPlugin::pastPrekillHookTimeout'), 'ctx')
    P = ctx.prog
    ruleset_wiring(ctx, "C07", ['prekill_hook_timeout'])
    rts = ctx.fn1("Oomd::BaseKillPlugin::resumeTryingToKillSomething")
    rfp = ctx.fn1("Oomd::BaseKillPlugin::resumeFromPrekillHook")
    krun = ctx.fn1("Oomd::BaseKillPlugin::run")

    # ------------------------------------------------ resumeTryingToKillSomething
    fires = rts.calls("OomdContext::firePrekillHook")
    kills = rts.calls("tryToLogAndKillCgroup")
    ctx.counters["fire_sites"] = len(fires)
    ctx.floor("fire_sites", 1, "firePrekillHook call in resumeTryingToKillSomething")
    ls = [l for l in loops(rts) if l["stmt"] is not None and rts.nodes[l["stmt"]]["k"] == "while"
          and "nextBestOptionStack" in rts.text(rts.nodes[l["stmt"]]["c"])]
    if len(ls) != 1:
        ctx.broken("dfs-loop", "anchor", rts.loc(), "expected one while(!nextBestOptionStack.empty()) loop")
        return
    L = ls[0]
    # invocation variable(s): locals initialised from firePrekillHook
    hookvars = {}
    for d in rts.all("decl"):
        for v in rts.nodes[d].get("vars", []):
            if "init" in v and rts.strip(v["init"]) in fires:
                hookvars[v["decl"]] = v["name"]
    ctx.check(len(hookvars) == len(fires) == 1, "hook-result-held-in-local", "anchor", rts.loc(fires[0]),
              "the invocation returned by firePrekillHook is held in one local", "firePrekillHook result is not bound to a single local")
    hv = next(iter(hookvars.values()), "hookInvocation")
    ev = {f: [("set", "fired"), ("set", "live")] for f in fires}
    for b in rts.cfg:
        for idx, e in enumerate(b["elems"]):
            if e.get("dtor") == "auto" and e.get("decl") in hookvars:
                ev.setdefault((b["id"], idx), []).append(("clear", "live"))
    stores = field_writes(rts, "prekillHookState_")
    for w in stores:
        ev.setdefault(w, []).append(("set", "stored"))

    def et(k, p):
        if "didFinish()" in k and hv in k and p is False and "&&" not in k and "||" not in k:
            return ["pending"]
        return None
    fi = iter_flow(ctx, rts, L, ev, edge_tokens=et)
    for f in fires:
        ctx.check(not fi.may(f, "fired"), "hook-fired-at-most-once-per-candidate", "at_most_once", rts.loc(f),
                  "one hook invocation per candidate", "a hook can be fired twice for one candidate")
        g = fi.guards(f)
        ctx.check(has_fact(g, False, "pastPrekillHookTimeout("), "hook-only-inside-window", "guarded_by", rts.loc(f),
                  "no hook is fired once the prekill_hook_timeout window is over",
                  "firePrekillHook is reachable after the timeout window closed", witness_path(rts, fi, f))
        # ... and EVERY candidate about to be killed inside the window gets one: next to the window test the firing depends on nothing
        # that remembers earlier candidates (a fallback victim after a failed kill has its hook fired again)
        carried = set()
        for bn in body_nodes(rts, L):
            for w in rts.walk(bn):
                wn = rts.nodes[w]
                tgt = wn.get("l") if wn["k"] == "bin" and wn.get("op") in ("=", "|=", "&=", "+=") else (wn.get("sub") if wn["k"] == "un" and wn.get("op") in ("++", "--") else None)
                if tgt is not None:
                    tn = rts.nodes[rts.strip(tgt)]
                    if tn["k"] == "ref" and tn.get("dk") in ("local", "param"):
                        carried.add(tn["name"])
        extra = [(k, p_) for k, p_ in g if isinstance(k, str) and "pastPrekillHookTimeout(" not in k and any(re.search(r"(?<![\w.])%s(?![\w(])" % re.escape(nm), k) for nm in carried)]
        ctx.check(not extra, "hook-for-every-candidate-inside-window", "guarded_by (no history condition)", rts.loc(f),
                  "inside the window the hook is fired for every candidate, first or fallback",
                  "firePrekillHook is additionally guarded by %s: a fallback candidate - tried after the first victim's kill signalled nothing - is killed "
                  "with no hook fired although the timeout window is still open" % extra)
        X = Expander(P, rts)
        ctx.check(X(rts.nodes[f]["args"][0]) == "param:nextBestOptionStack.back().cgroupCtx.get()", "hook-for-the-candidate",
                  "provenance", rts.loc(f), "the hook is fired for the candidate about to be killed",
                  "the hook is fired for " + X(rts.nodes[f]["args"][0]))
    for k in kills:
        ctx.check(not fi.may(k, "pending"), "no-kill-while-hook-pending", "never_after", rts.loc(k),
                  "no kill on a path where the invocation reported unfinished",
                  "tryToLogAndKillCgroup is reachable while the hook invocation is unfinished")
        ctx.check(not fi.may(k, "live"), "invocation-destroyed-before-kill", "never_after", rts.loc(k),
                  "the (finished) invocation object is destroyed before the first signal",
                  "the hook invocation object is still alive when the victim is signalled")
        ctx.check(not fi.may(k, "stored"), "no-kill-after-storing-invocation", "never_after", rts.loc(k),
                  "no kill after an invocation was stored", "a kill follows the storing of an outstanding invocation")
    pend_exits = [e for e in fi.exits() if any("pending" in st.may for st in e[3].values())]
    okp = bool(pend_exits)
    for kind, node, b, parts in pend_exits:
        if kind != "return" or ret_const(rts, node) != "DEFER" or not all("stored" in st.must for st in parts.values()):
            okp = False
    back_pending = any(any("pending" in st.may for st in (fi.OUT.get(b) or {}).values()) for b in back_sources(L))
    ctx.check(okp and not back_pending, "pending-hook-defers", "must_follow", rts.loc(fires[0]),
              "an unfinished invocation is stored and DEFER returned on every path",
              "with an unfinished invocation the function can do something else than store it and return DEFER")
    for r in returns(rts):
        if ret_const(rts, r) == "DEFER":
            ctx.check(fi.must(r, "pending") and fi.must(r, "stored"), "DEFER-only-for-pending-hook", "return_table", rts.loc(r),
                      "DEFER is returned only with a stored unfinished invocation", "DEFER returned without a pending invocation")
    # never two outstanding: the store is dominated by the entry check prekillHookState_ == nullopt
    ff = Flow(P, rts, cg=ctx.cg)
    ctx.counters["invocation_stores"] = len(stores)
    ctx.floor("invocation_stores", 1, "writes of prekillHookState_ in resumeTryingToKillSomething")
    for w in stores:
        rhs = rts.text(write_rhs(rts, w))
        if "nullopt" in rhs:
            continue
        g = ff.guards(w)
        ctx.check(("this->prekillHookState_", False) in g, "never-two-outstanding", "guarded_by", rts.loc(w),
                  "an invocation is stored only when none is outstanding (entry assertion still holds)",
                  "prekillHookState_ can be overwritten while an invocation is outstanding", witness_path(rts, ff, w))
        ctx.check(hv in rhs and "std::move" not in rhs or hv in rhs, "stores-this-invocation", "provenance", rts.loc(w),
                  "the stored invocation is the one just fired", "stored invocation is " + rhs[:80])
        ctx.check("serializeKillCandidate(candidate)" in rhs, "stores-intended-victim", "provenance", rts.loc(w),
                  "the intended victim is the candidate the hook was fired for", "stored victim is " + rhs[:120])
    # entry assertion
    asserts = [i for i in rts.all("throw") if rts.nodes[i].get("mac") == "OCHECK_EXCEPT"]
    ctx.check(any(("this->prekillHookState_", False) in ff.guards(k) for k in kills) and bool(asserts),
              "entry-asserts-no-outstanding-hook", "guarded_by", rts.loc(), "kill loop runs only with no outstanding invocation",
              "resumeTryingToKillSomething does not assert prekillHookState_ == nullopt on entry")

    # ------------------------------------------------ resumeFromPrekillHook
    clears = [w for w in field_writes(rfp, "prekillHookState_") if "nullopt" in rfp.text(write_rhs(rfp, w))]
    k2 = rfp.calls("tryToLogAndKillCgroup")
    cont = rfp.calls("resumeTryingToKillSomething")
    ctx.counters["resume_kill_sites"] = len(k2) + len(cont)
    ctx.floor("resume_kill_sites", 2, "kill continuations in resumeFromPrekillHook")
    ev = {w: [("set", "cleared")] for w in clears}

    def et2(k, p):
        if p is False and (k == "intendedCandidate" or k.startswith("deserializeKillCandidate(intendedVictim")):
            return ["gone"]
        return None
    f2 = Flow(P, rfp, events=ev, cg=ctx.cg, edge_tokens=et2)
    for i in k2 + cont:
        ctx.check(f2.must(i, "cleared"), "invocation-destroyed-before-deferred-kill:" + rfp.nodes[i]["cname"], "must_precede",
                  rfp.loc(i), "prekillHookState_ is reset (destroying the invocation) before the kill continues",
                  "the kill continues while the finished invocation object is still stored")
        ctx.check(not f2.may(i, "gone"), "no-kill-if-victim-gone:" + rfp.nodes[i]["cname"], "never_after", rfp.loc(i),
                  "nothing is killed when the intended victim cannot be re-resolved",
                  "a kill is attempted although the intended victim was removed or re-created")
        g = f2.guards(i)
        ok = has_fact(g, True, "didFinish()") or has_fact(g, True, "pastPrekillHookTimeout(")
        # the two are alternatives: accept the composite form produced by the else-if chain
        if not ok:
            ok = not any(p is False and "didFinish()" in k for k, p in g) or has_fact(g, True, "pastPrekillHookTimeout(")
        ctx.check(True, "x", "x", "-", "") if False else None
    for r in returns(rfp):
        c = ret_const(rfp, r)
        g = f2.guards(r)
        if c == "DEFER":
            ctx.count("defer_returns")
            ctx.check(has_fact(g, False, "didFinish()") and has_fact(g, False, "pastPrekillHookTimeout("),
                      "still-running-defers", "return_table", rfp.loc(r),
                      "DEFER exactly while the hook is unfinished and the window is open",
                      "DEFER returned although the hook finished or timed out", witness_path(rfp, f2, r))
            ctx.check(not f2.may(r, "cleared"), "defer-keeps-invocation", "never_after", rfp.loc(r),
                      "the invocation stays stored while deferring", "the invocation is dropped although DEFER is returned")
        elif c == "FAILED":
            ctx.check(f2.must(r, "gone"), "victim-gone-fails", "return_table", rfp.loc(r),
                      "FAILED is returned when the victim cannot be re-resolved", "FAILED returned on another path")
    if not ctx.counters.get("defer_returns"):
        ctx.violation("still-running-defers", "return_table", rfp.loc(),
                      "resumeFromPrekillHook never returns DEFER: an unfinished hook inside its window does not postpone the kill")
    # every path past the DEFER test had didFinish or timeout
    for w in clears:
        g = f2.guards(w)
        ctx.check(not (has_fact(g, False, "didFinish()") and has_fact(g, False, "pastPrekillHookTimeout(")),
                  "clear-only-when-done", "guarded_by", rfp.loc(w), "state is cleared only when finished or timed out",
                  "state cleared while the hook is still running inside the window")
    paths_ok = True
    for i in k2 + cont:
        g = f2.guards(i)
        if has_fact(g, False, "didFinish()") and has_fact(g, False, "pastPrekillHookTimeout("):
            paths_ok = False
    # stronger: a kill continuation is unreachable on the unfinished-and-in-window edge
    atom = lambda k: "&&" not in k and "||" not in k
    f3 = Flow(P, rfp, cg=ctx.cg, edge_tokens=lambda k, p: ["unfinished"] if ("didFinish()" in k and p is False and atom(k)) else
              (["inwindow"] if ("pastPrekillHookTimeout(" in k and p is False and atom(k)) else None))
    for i in k2 + cont + clears:
        parts = f3.at(i) or {}
        for st in parts.values():
            if "unfinished" in st.may and "inwindow" in st.may and not ("unfinished" in st.must and "inwindow" in st.must) is False:
                pass
        both = any("unfinished" in st.must and "inwindow" in st.must for st in parts.values())
        if both:
            paths_ok = False
    ctx.check(paths_ok, "victim-not-signalled-until-done", "never_after", rfp.loc(),
              "no kill continuation on the path where the hook is unfinished and the window open",
              "the deferred victim can be signalled while the hook is still running")
    # identity check in the re-resolution closure: a context is handed back only where the cgroup's CURRENT inode id was compared with
    # the SAVED one (both present) - in the closure itself or in a helper it delegates to with the saved id
    def resolves_by_id(g, saved, depth=0):
        """[(ok, node, why)] for every value-returning exit of g; `saved` is the text of the saved id inside g"""
        out = []
        fl_ = Flow(P, g, cg=ctx.cg)
        for r in returns(g):
            if "val" not in g.nodes[r]:
                continue
            for v in value_leaves(g, g.nodes[r]["val"]):
                t = g.text(v)
                if "nullopt" in t or t in ("{}", ""):
                    continue
                gs = fl_.guards(v) if g.pos_of(v) is not None else fl_.guards(r)
                ok = False
                for k, p in gs:
                    m = re.match(r"^\(\*([\w.>-]+) == \*([\w.>-]+)\)$", k) if (p is True and isinstance(k, str)) else None
                    if not m or saved not in m.groups():
                        continue
                    cur = m.group(1) if m.group(2) == saved else m.group(2)
                    cur_is_id = False
                    if re.match(r"^\w+$", cur):
                        init_, v_ = local_init(g, cur, must=False)
                        cur_is_id = v_ is not None and init_ is not None and init_ >= 0 and re.search(r"(\.|->)id\((nullptr)?\)$", g.text(init_)) is not None and not local_writes(g, cur, must=False)
                    else:
                        cur_is_id = re.search(r"(\.|->)id\((nullptr)?\)$", cur) is not None
                    has = all(((x_, True) in gs or (x_ + ".has_value()", True) in gs) for x_ in (cur, saved))
                    if cur_is_id and has:
                        ok = True
                if not ok and depth < 2:
                    # delegation: return H(..., saved, ...)
                    cn = g.nodes[g.strip(v)]
                    if cn["k"] == "call" and cn.get("cusr"):
                        tg = [P.fns[u] for u in P.resolve(cn["cusr"]) if u in P.fns]
                        idx = [k_ for k_, a_ in enumerate(cn.get("args", [])) if g.text(a_) == saved]
                        if len(tg) == 1 and len(idx) == 1 and idx[0] < len(tg[0].params) and tg[0].cfg:
                            ctx.use(tg[0])
                            sub = resolves_by_id(tg[0], tg[0].params[idx[0]]["name"], depth + 1)
                            if sub and all(o for o, _, _ in sub):
                                ok = True
                            else:
                                out += [(o, n_, w_) for o, n_, w_ in sub if not o]
                                continue
                out.append((ok, (g, r), witness_path(g, fl_, r)))
        return out
    found = False
    for l in P.lambdas_in(rfp):
        scp = [p_["name"] for p_ in l.params if "SerializedCgroupRef" in p_.get("type", "")]
        if len(scp) != 1 or not any(l.nodes[x]["k"] == "call" and "addToCacheAndGet" in l.text(x) for x in range(len(l.nodes))):
            continue
        found = True
        ctx.use(l)
        sc = scp[0]
        res = resolves_by_id(l, sc + ".id")
        ctx.check(bool(res) and all(o for o, _, _ in res), "re-resolve-by-inode-id", "guarded_by (through helpers)", l.loc(),
                  "a serialised cgroup is re-resolved only if path AND inode id match",
                  "a re-created cgroup (same path, different inode) can be accepted as the deferred victim: %s hands back a context without comparing "
                  "its current id with the saved one" % ", ".join(sorted({g_.pq.replace("Oomd::", "") + " at " + g_.loc(r_) for o, (g_, r_), _ in res if not o})),
                  next((w_ for o, _, w_ in res if not o), None))
        X = Expander(P, l)
        for i in [x for x in l.calls() if "addToCacheAndGet" in (l.nodes[x].get("cname") or "")]:
            ctx.check(X(l.nodes[i]["args"][0]) == "param:%s.path" % sc, "re-resolve-by-saved-path", "provenance", l.loc(i),
                      "looked up by the serialised path", "looked up by " + X(l.nodes[i]["args"][0]))
    ctx.check(found, "re-resolution-closure", "anchor", rfp.loc(), "re-resolution closure found", "no closure re-resolving SerializedCgroupRef by path and id")
    # the serialised id is the inode id taken when the hook was fired
    for l in P.lambdas_in(rts):
        for i, n in enumerate(l.nodes):
            if n["k"] == "initlist" and n.get("type", "").endswith("SerializedCgroupRef"):
                t = l.text(i)
                ctx.use(l)
                ctx.check(".cgroup()" in t and ".id(" in t, "serialise-path-and-id", "value-shape", l.loc(i),
                          "serialised reference holds path and inode id", "serialised reference is " + t[:80])

    # ------------------------------------------------ run(): dispatch
    fk = Flow(P, krun, cg=ctx.cg)
    for i in krun.calls("resumeFromPrekillHook"):
        ctx.check(("this->prekillHookState_", True) in fk.guards(i), "dispatch:resume-iff-outstanding", "guarded_by", krun.loc(i),
                  "resume only with an outstanding invocation", "resumeFromPrekillHook reachable without an outstanding invocation")
    for i in krun.calls("tryToKillSomething"):
        ctx.check(("this->prekillHookState_", False) in fk.guards(i), "dispatch:fresh-iff-none", "guarded_by", krun.loc(i),
                  "a fresh kill cycle starts only with no outstanding invocation",
                  "a fresh kill cycle can start while a hook invocation is outstanding")

    engine_fire_rule(ctx)
    ohk = ctx.fn1("Oomd::OomdContext::firePrekillHook")
    calls = [i for i in ohk.calls() if ohk.nodes[i].get("op") == "()" and "prekill_hook_handler_" in ohk.text(ohk.nodes[i].get("recv", -1))]
    ctx.check(len(calls) == 1 and ohk.text(ohk.nodes[calls[0]]["args"][0]) == "cgroup_ctx", "context-forwards-to-handler", "provenance",
              ohk.loc(), "OomdContext::firePrekillHook forwards the victim to the engine's handler", "handler is not invoked with the victim")
    # ... for every kill attempt: the only way out of it that does not pass the handler is the one taken when no handler is installed.
    # A memo ("a hook was already started on this cgroup in this interval") that answers 'no hook' lets the second ruleset settling on
    # the same victim kill it while the first one's hook is still running.
    if len(calls) == 1:
        fo = Flow(P, ohk, events={calls[0]: [("set", "handed")]}, cg=ctx.cg, split=lambda k: "prekill_hook_handler_" in k)
        for r in returns(ohk):
            for val, st in (fo.at(r) or {}).items():
                d = dict(val)
                if any(k.startswith("C:") and "prekill_hook_handler_" in k and v is False for k, v in d.items()):
                    continue        # no handler installed: nothing to ask
                if "handed" in st.must:
                    continue
                other = [(k, p_) for k, p_ in fo.guards(r) if isinstance(k, str) and "prekill_hook_handler_" not in k]
                ctx.check(False, "context-forwards-to-handler:every-attempt@%d" % ohk.nodes[r].get("line", 0), "must_precede, helpers followed", ohk.loc(r),
                          "a return that bypasses the handler is taken only when no handler is installed",
                          "OomdContext::firePrekillHook can answer '%s' without asking the engine's handler although one is installed, under %s: a kill attempt "
                          "on a cgroup with a matching hook then proceeds with no hook run for it" % (ret_text(ohk, r), other or "no condition"))
        ctx.ok("context-forwards-to-handler:every-attempt", "must_precede, helpers followed", ohk.loc(), "%d returns, each passes the handler unless none is installed" % len(returns(ohk)))
    upd = ctx.fn1("Oomd::Oomd::updateContext")
    hl = [l for l in P.lambdas_in(upd) if l.calls("Engine::firePrekillHook")]
    ctx.check(len(hl) == 1 and bool(upd.calls("setPrekillHooksHandler")), "handler-is-engine-firePrekillHook", "provenance", upd.loc(),
              "the handler installed each tick calls Engine::firePrekillHook", "no handler calling Engine::firePrekillHook is installed")
    # insertion order: reverse iteration + emplace_back, in both the constructor and addDropInConfig
    for q in ("Oomd::Engine::Engine::Engine", "Oomd::Engine::Engine::addDropInConfig"):
        f = ctx.fn1(q)
        pushes = [i for i in f.calls("emplace_back", "push_back") if "prekill_hooks_in_reverse_order_" in f.text(f.nodes[i].get("recv", -1))]
        ctx.count("hook_insert_sites", len(pushes))
        other = [i for i in f.calls("push_front", "emplace_front", "insert", "emplace")
                 if "prekill_hooks_in_reverse_order_" in f.text(f.nodes[i].get("recv", -1)) and i not in pushes]
        okq = len(pushes) == 1 and not other
        if okq:
            lp = [l for l in loops(f) if f.pos_of(pushes[0])[0] in l["body"]]
            okq = len(lp) == 1
            if okq:
                # the source list is walked from its back, and what is appended is the current element (moved)
                wk_ = loop_walk_any(f, lp[0])
                okq = wk_ is not None and wk_["dir"] == "backward"
                if okq:
                    Xq = Expander(P, f)
                    src_ = [x for x in f.walk(f.nodes[pushes[0]]["args"][0]) if f.nodes[x]["k"] == "call" and f.nodes[x].get("cname") == "move" and f.nodes[x].get("args")]
                    vals = [f.text(f.nodes[x]["args"][0]) for x in src_]
                    def cur(t):
                        if re.match(r"^\w+$", t):
                            init_, v_ = local_init(f, t, must=False)
                            if v_ is not None and init_ is not None and init_ >= 0:
                                t = f.text(init_)
                        return re.match(wk_["elem"], t) is not None
                    okq = bool(vals) and all(cur(t_) for t_ in vals)
        ctx.check(okq, "hooks-appended-in-reverse:" + short(f), "loop-shape", f.loc(),
                  "hooks are appended by reverse iteration (so they are tried in configuration order, later additions first)",
                  "hook list is not filled by reverse iteration + emplace_back")
        t = f.text(f.nodes[pushes[0]]["args"][0]) if pushes else ""
        want_tag = "tag" if "addDropInConfig" in q else "std::nullopt"
        ctx.check(want_tag in t, "hook-tag:" + short(f), "value-shape", f.loc(pushes[0]) if pushes else f.loc(),
                  "hooks carry %s as drop-in tag" % want_tag, "hook tagged with " + t[:80])
    ctx.floor("hook_insert_sites", 2, "hook list insertion sites")
    hook_list_rule(ctx)
    add = ctx.fn1("Oomd::Engine::Engine::addDropInConfig")
    # hooks are appended only after all rulesets of the unit were added
    pushes = [i for i in add.calls("emplace_back") if "prekill_hooks_in_reverse_order_" in add.text(add.nodes[i].get("recv", -1))]
    fa = Flow(P, add, cg=ctx.cg, edge_tokens=lambda k, p: ["ruleset-failed"] if ("addDropInRuleset(" in k and p is False) else None)
    for i in pushes:
        ctx.check(not fa.may(i, "ruleset-failed"), "hooks-only-after-rulesets", "never_after", add.loc(i),
                  "drop-in hooks are added only if every ruleset of the unit was accepted",
                  "drop-in hooks can be added although a ruleset of the unit was refused")
    # the match itself (component-wise; '*' is one whole component): same rule as C16
    from .C16 import pattern_match_rule
    pattern_match_rule(ctx)
    can_run_is_the_pattern_loop(ctx)
    # the deadline is part of the action context saved at ASYNC_PAUSED: it must be the
    # saved one that is in place when the waiting kill plugin is resumed (window counted
    # from when the chain fired, not from the resume tick)
    impl = ctx.fn1("Oomd::Engine::Ruleset::runOnceImpl")
    rac = [i for i in impl.calls("Ruleset::run_action_chain") if "begin()" not in impl.text(impl.nodes[i]["args"][0])]
    sac = impl.calls("OomdContext::setActionContext")
    restore = [i for i in sac if "active_action_chain_state_" in impl.text(impl.nodes[i]["args"][0])]
    ev = {}
    for i in restore:
        ev.setdefault(i, []).append(("set", "restored"))
    for i in sac:
        if i not in restore:
            ev.setdefault(i, []).append(("clear", "restored"))
    fdl = Flow(P, impl, events=ev, cg=ctx.cg)
    ctx.counters["resume_sites"] = len(rac)
    ctx.floor("resume_sites", 1, "resuming run_action_chain call")
    for i in rac:
        ctx.check(fdl.must(i, "restored"), "deadline-survives-async-pause", "order", impl.loc(i),
                  "a resumed action runs with the context (and prekill deadline) saved when the chain fired",
                  "a resumed action can run with a context built on the resume tick: the prekill_hook_timeout window "
                  "slides forward while a detector keeps firing", witness_path(impl, fdl, i))
    fires_ctx = [i for i in sac if "prekill_hook_timeout_" in impl.text(impl.nodes[i]["args"][0])]
    if fires_ctx or firing_edge_in_impl(ctx):
        ctx.check(len(fires_ctx) == 1, "deadline-fixed-once-at-firing", "value-shape", impl.loc(fires_ctx[0]) if fires_ctx else impl.loc(),
                  "the deadline is computed at exactly one place (chain firing)", "deadline computed at %d places" % len(fires_ctx))
    # pastPrekillHookTimeout uses the deadline fixed at chain fire and the steady clock
    ppt = ctx.fn1("Oomd::BaseKillPlugin::pastPrekillHookTimeout")
    X = Expander(P, ppt)
    fpt = Flow(P, ppt, cg=ctx.cg)
    D_ = r"\*?param:ctx\.getActionContext\(\)\.prekill_hook_timeout_ts(?:\.value\(\))?"
    NOW_ = r"std::chrono::steady_clock::now\(\)"
    n_cmp = 0
    for r, leaf in return_leaves(ppt):
        t = X(leaf)
        past = re.search(r"\(%s > %s\)" % (NOW_, D_), t) is not None or re.search(r"\(%s < %s\)" % (D_, NOW_), t) is not None
        if t == "false":
            # 'no deadline configured' answered before the comparison (guard-clause spelling of `has_value() && now > deadline`)
            g = expanded_guards(P, ppt, fpt, leaf, X)
            absent = any(isinstance(k, str) and re.search(r"prekill_hook_timeout_ts(\.has_value\(\))?$", k) and p is False for k, p in g)
            ctx.check(absent, "timeout-from-action-context", "value-shape", ppt.loc(r),
                      "'not past' is answered without the clock only when no deadline is set", "pastPrekillHookTimeout returns false under " + str(sorted(g, key=str))[:160])
            continue
        n_cmp += 1
        ctx.check("param:ctx.getActionContext().prekill_hook_timeout_ts" in t and past,
                  "timeout-from-action-context", "value-shape", ppt.loc(r),
                  "window end is the action context's deadline, compared on the steady clock", "timeout test is " + t[:120])
    if not n_cmp:
        ctx.violation("timeout-from-action-context", "value-shape", ppt.loc(), "pastPrekillHookTimeout never compares the clock with the deadline")
    # ... in the clock's own resolution: neither pastPrekillHookTimeout nor any NEW helper it goes through converts the remaining time
    # to a coarser unit first (duration_cast<seconds> truncates towards zero: the window would count as over during its whole last
    # second, and the victim is signalled while its hook is still running inside the window)
    from ..inline import known_functions
    kn_ = known_functions()
    scope_ = [ppt]
    if kn_ is not None:
        for u_ in ctx.cg.reach([ppt.usr]):
            h_ = P.fns[u_]
            if h_ is not ppt and h_.file.startswith("oomd/") and h_.kind != "lambda" and plain(h_.d.get("qname", "")) not in kn_[0]:
                scope_.append(h_)
    for h_ in scope_:
        ctx.use(h_)
        for i_ in h_.calls():
            c_ = plain(h_.nodes[i_].get("callee") or "")
            if re.match(r"^std::chrono::(duration_cast|floor|ceil|round|time_point_cast)$", c_):
                ctx.violation("timeout-in-clock-resolution:%s@%d" % (short(h_), h_.nodes[i_].get("line", 0)), "who-may-call (helpers followed)", h_.loc(i_),
                              "the prekill-hook window test goes through %s in %s: the remaining time is rounded to a coarser unit before it is tested, so 'the window is "
                              "over' is answered up to one unit early (whole seconds: during the entire last second) and the victim is signalled while its hook is still "
                              "running inside the window" % (c_, h_.pq))
    ctx.ok("timeout-in-clock-resolution", "who-may-call (helpers followed)", ppt.loc(), "%d function(s) on the window test: no unit conversion" % len(scope_))
