"""C06 Async continuation (DESIGN 4/C06)."""
from .common import *

EXPLANATION = (
    "Decides, on the CFGs of Ruleset::run_action_chain and Ruleset::runOnceImpl, that ASYNC_PAUSED "
    "saves (this plugin, the current action context) and runs nothing further; that the resume "
    "branch restores exactly the saved context, reads it before clearing the saved state, clears "
    "it before running, restarts at the saved plugin (pointer identity) and returns, so no fresh "
    "chain follows; that a fresh uuid is generated on the firing edge; that every exit is covered by "
    "the scope guard clearing the per-run context; and that the kill plugins return ASYNC_PAUSED "
    "only on their documented edges.  The suspended state is a per-Ruleset member (instances pause "
    "independently).  uuid freshness as a value is not decided.")
RULE_SUMMARY = "E-PATH order / must-precede / never-after on tokens, value provenance by expression shape, scope-guard coverage"
NOT_DECIDED = ["uuid freshness as a value (only that generateUuid() is evaluated on the firing edge)"]
ASSUMPTIONS = ["Util::generateUuid returns distinct values"]


def resume_restores_instance_context(ctx, tag):
    """The suspended chain is the instance's own state - the paused plugin AND the action context it was fired with, both held in the
    Ruleset object's active_action_chain_state_: a resuming run_action_chain is reached only with OomdContext::setActionContext having been
    handed that field's context (and no other context set since).  A context kept anywhere else (a slot in the shared OomdContext, keyed by
    ruleset name) is shared by all per-cgroup instances of a ruleset, which carry the template's name."""
    P = ctx.prog
    impl = ctx.use(ctx.fn1("Oomd::Engine::Ruleset::runOnceImpl"))
    rac = impl.calls("Ruleset::run_action_chain")
    resume = [i for i in rac if "begin()" not in impl.text(impl.nodes[i]["args"][0])]
    ctx.counters[tag + "_resume_calls"] = len(resume)
    ctx.floor(tag + "_resume_calls", 1, "resuming run_action_chain call")
    sac = impl.calls("OomdContext::setActionContext")
    restore = [i for i in sac if "this->active_action_chain_state_" in impl.text(impl.nodes[i]["args"][0])]
    ev = {}
    for i in restore:
        ev.setdefault(i, []).append(("set", "restored"))
    for i in sac:
        if i not in restore:
            ev.setdefault(i, []).append(("clear", "restored"))
    # any other non-const call on the shared context between the restore and the resume could replace the action context again
    octx = [p_["name"] for p_ in impl.params if "OomdContext" in p_["type"]]
    fr = Flow(P, impl, events=ev, cg=ctx.cg)
    for i in resume:
        ctx.check(fr.must(i, "restored"), "%s:resume:context-is-the-instance's-own" % tag, "order", impl.loc(i),
                  "the context in place when the chain resumes is the one saved in this Ruleset object",
                  "run_action_chain(resume) is reachable without OomdContext::setActionContext(this->active_action_chain_state_->...) having run: the resumed "
                  "plugin sees a context that is not this instance's saved one (kept elsewhere - e.g. a slot in the shared OomdContext keyed by the ruleset name, "
                  "which all per-cgroup instances of a ruleset share - or built on the resume tick)", witness_path(impl, fr, i))


def action_context_is_replaced_whole(ctx, tag):
    """OomdContext::setActionContext puts the given context in place AS A WHOLE and unconditionally, and getActionContext hands that
    object out: restoring a suspended chain's saved context, or starting a fresh one, leaves nothing of the previous context behind (no
    field-wise copy that skips a field when the new value is 'empty')."""
    P, cg = ctx.prog, ctx.cg
    st = ctx.use(ctx.fn1("Oomd::OomdContext::setActionContext"))
    gt = ctx.use(ctx.fn1("Oomd::OomdContext::getActionContext"))
    if len(st.params) != 1:
        ctx.broken(tag + ":action-context-is-replaced-whole", "anchor", st.loc(), "setActionContext no longer takes exactly the context")
        return
    ws = field_writes(st, "action_context_")
    whole = [w for w in ws if st.text(st.nodes[w].get("l", st.nodes[w].get("recv", -1))) == "this->action_context_"]
    part = [w for w in ws if w not in whole]
    fl = Flow(P, st, cg=cg)
    X = Expander(P, st)
    ok = len(whole) >= 1 and not part
    why = ""
    if part:
        why = "it writes %s field by field" % st.text(st.nodes[part[0]].get("l", st.nodes[part[0]].get("recv", -1)))
    elif not whole:
        why = "there is no assignment of the whole object"
    for w in whole:
        rhs = X(write_rhs(st, w))
        if not re.fullmatch(r"(std::move\()?param:%s\)?" % re.escape(st.params[0]["name"]), rhs):
            ok, why = False, "it stores %s" % rhs[:60]
    if ok:
        for kind, node, b, parts in fl.exits():
            pass
        ev = {w: [("set", "stored")] for w in whole if st.pos_of(w) is not None}
        fs = Flow(P, st, events=ev, cg=cg)
        for e in fs.exits():
            if not all("stored" in st_.must for st_ in e[3].values()):
                ok, why = False, "an exit is reachable without the assignment"
    ctx.check(ok, tag + ":action-context-is-replaced-whole", "who-may-write + must_pass_through", st.loc(),
              "setActionContext assigns the whole context on every path",
              "OomdContext::setActionContext does not simply replace the action context (%s): a part of the previous context survives - a resumed chain, or the "
              "next ruleset's fresh chain, runs with another chain's target cgroup / uuid / deadline" % why)
    rets = [ret_text(gt, r) for r in returns(gt)]
    ctx.check(rets == ["this->action_context_"], tag + ":action-context-getter-is-plain", "return_table", gt.loc(),
              "getActionContext returns the stored context", "getActionContext returns %s" % rets)


def run(ctx):
    from .C05 import pause_gate_reads_own_deadline
    pause_gate_reads_own_deadline(ctx, "C06")
    from .C16 import resolve_rule
    resolve_rule(ctx)      # a suspended chain of a per-cgroup instance survives only while resolveWildcard keeps listing its cgroup
    from .C02 import action_chain_table
    action_chain_table(ctx)
    action_context_is_replaced_whole(ctx, "C06")
    uuid_generator_keeps_state(ctx)
    pg_scan_sampling_tick(ctx, "C06")
    from .C02 import engine_evaluation_order
    engine_evaluation_order(ctx)
    resume_follows_clear(ctx, "C06")
    saved_context_is_a_copy(ctx, "C06")
    detector_walk_every_tick(ctx, "C06")
    detector_group_runs_every_detector(ctx, "C06")
    from .C11 import instances_kept_only_if_ran
    instances_kept_only_if_ran(ctx)
    # locals / parameters the rules below refer to by name (a rename makes the analysis 'broken', never a violation)
    ctx.anchor(ctx.fn1('Oomd::Engine::Ruleset::runOnceImpl'), 'context')
    ctx.anchor(ctx.fn1('Oomd::Engine::Ruleset::run_action_chain'), 'action', 'context')
    P = ctx.prog
    chain = ctx.fn1("Oomd::Engine::Ruleset::run_action_chain")
    impl = ctx.fn1("Oomd::Engine::Ruleset::runOnceImpl")

    # ---- 1. what ASYNC_PAUSED saves
    cb = case_blocks(chain)
    saves = field_writes(chain, "active_action_chain_state_")
    runs = virtual_run_calls(chain, prog=P)
    ctx.count("chain_run_sites", len(runs))
    ctx.floor("chain_run_sites", 1, "virtual run() in run_action_chain")
    ctx.count("state_saves", len(saves))
    ctx.floor("state_saves", 1, "writes of active_action_chain_state_ in run_action_chain")
    fl = Flow(P, chain, cg=ctx.cg)
    for w in saves:
        g = fl.guards(w)
        rhs = chain.text(write_rhs(chain, w))
        only_async = any(p == "case:ASYNC_PAUSED" for k, p in g)
        ctx.check(only_async, "save-only-on-ASYNC", "switch_table", chain.loc(w),
                  "the chain state is saved only under case ASYNC_PAUSED",
                  "active_action_chain_state_ written outside case ASYNC_PAUSED")
        # the saved plugin is the one that just ran: the receiver of run()
        recv = run_receiver_text(chain, runs[0], P) if runs else "?"
        plug = recv.rstrip(">").rstrip("-")          # "action->" -> "action"
        import re as _re
        ctx.check(bool(plug) and bool(_re.search(r"(?<![\w.>])%s\b" % _re.escape(plug), rhs)),
                  "save-current-plugin", "value-shape", chain.loc(w),
                  "saved plugin is the action that returned ASYNC_PAUSED (%s)" % plug,
                  "saved plugin is not the action that just ran: " + rhs[:120])
        ctx.check("context.getActionContext()" in rhs, "save-current-context", "value-shape", chain.loc(w),
                  "saved context is the context the action was fired with",
                  "saved context is not context.getActionContext(): " + rhs[:120])
    if "ASYNC_PAUSED" in cb and runs:
        L = loops(chain)
        cut = set(L[0]["back_edges"]) if L else set()
        ev = {runs[0]: [("set", "ran")]}
        ev.update({w: [("set", "saved")] for w in saves})
        fa = Flow(P, chain, events=ev, start=cb["ASYNC_PAUSED"], cut=cut, cg=ctx.cg)
        ex = fa.exits()
        good = ex and all(e[0] == "return" and all("saved" in st.must and "ran" not in st.may
                                                     for st in e[3].values()) for e in ex)
        back = any(s in fa.OUT for s, _ in cut)
        ctx.check(good and not back, "ASYNC-saves-and-returns", "must_follow", chain.loc(),
                  "after ASYNC_PAUSED the state is saved and nothing further runs",
                  "after ASYNC_PAUSED the chain can continue or leave without saving")
    else:
        ctx.violation("ASYNC-saves-and-returns", "switch_table", chain.loc(), "no case ASYNC_PAUSED")

    # ---- 2. resume branch
    rac = impl.calls("Ruleset::run_action_chain")
    resume = [i for i in rac if "begin()" not in impl.text(impl.nodes[i]["args"][0])]
    begin = [i for i in rac if i not in resume]
    ctx.count("resume_calls", len(resume))
    ctx.floor("resume_calls", 1, "resuming run_action_chain call")
    sac = impl.calls("OomdContext::setActionContext")
    restore = [i for i in sac if "active_action_chain_state_" in impl.text(impl.nodes[i]["args"][0])
               and "action_context" in impl.text(impl.nodes[i]["args"][0])]
    fresh = [i for i in sac if i not in restore]
    clears = [w for w in field_writes(impl, "active_action_chain_state_")
              if "nullopt" in impl.text(write_rhs(impl, w))]
    other_writes = [w for w in field_writes(impl, "active_action_chain_state_") if w not in clears]
    ev = {}
    for i in restore:
        ev.setdefault(i, []).append(("set", "restored"))
    for i in fresh:
        ev.setdefault(i, []).append(("clear", "restored"))
    for w in clears:
        ev.setdefault(w, []).append(("set", "cleared"))
    for i in resume:
        ev.setdefault(i, []).append(("set", "resumed"))
    fr = Flow(P, impl, events=ev, cg=ctx.cg)
    for i in resume:
        ctx.check(fr.must(i, "restored"), "resume:context-restored", "order", impl.loc(i),
                  "the saved action context is restored (and not replaced) before the chain resumes",
                  "run_action_chain(resume) is reachable without the saved context in place",
                  witness_path(impl, fr, i))
        ctx.check(fr.must(i, "cleared"), "resume:state-cleared-before-run", "order", impl.loc(i),
                  "the suspended state is cleared before the plugin runs again",
                  "the suspended state is still set when the chain resumes (a second ASYNC_PAUSED would be overwritten / a STOP would leave it stale)",
                  witness_path(impl, fr, i))
        # restart at the saved plugin: pointer identity with a reference taken from the saved state
        g = fr.guards(i)
        ident = [k for k, p in g if p is True and "==" in k and ".get()" in k.replace("->get()", ".get()")]
        okid = False
        for k in ident:
            for nm in set(w for w in k.replace("(", " ").replace(")", " ").replace("&", " ").split()):
                init, v = local_init(impl, nm, must=False)
                if v is not None and init >= 0 and "active_action_chain_state_" in impl.text(init) \
                        and "active_plugin" in impl.text(init):
                    okid = True
        ctx.check(okid, "resume:at-saved-plugin", "guarded_by", impl.loc(i),
                  "the chain restarts at the plugin saved in the suspended state",
                  "run_action_chain(resume) is not guarded by identity with the saved plugin",
                  witness_path(impl, fr, i))
        # resumes the rest of the chain
        a = [impl.text(x) for x in impl.nodes[i]["args"]]
        ctx.check(len(a) >= 2 and "action_group_.end()" in a[1], "resume:rest-of-chain", "value-shape", impl.loc(i),
                  "the resumed chain runs to the end of the action group", "resumed range is %s" % a[:2])
        # the call is returned: nothing else runs this tick
        par = impl.parent.get(i)
        while par is not None and impl.nodes[par]["k"] in ("cast", "construct"):
            par = impl.parent.get(par)
        ctx.check(par is not None and impl.nodes[par]["k"] == "return", "resume:returns", "return_table", impl.loc(i),
                  "runOnceImpl returns the resumed chain's result", "the resumed chain's result is not returned")
    for i in restore:
        ctx.check(not fr.may(i, "cleared"), "resume:read-before-clear:context", "order", impl.loc(i),
                  "the saved context is read before the state is cleared",
                  "the saved context is read after active_action_chain_state_ was cleared (empty optional)")
    # references into the saved state are taken before it is cleared
    for d in impl.all("decl"):
        for v in impl.nodes[d].get("vars", []):
            if "init" in v and "active_action_chain_state_" in impl.text(v["init"]):
                ctx.check(not fr.may(d, "cleared"), "resume:read-before-clear:" + v["name"], "order", impl.loc(d),
                          "'%s' is bound before the state is cleared" % v["name"],
                          "'%s' is read from the suspended state after it was cleared" % v["name"])
    ctx.check(not other_writes, "runOnceImpl:only-clears-state", "field-write", impl.loc(),
              "runOnceImpl only ever clears the suspended state",
              "runOnceImpl writes a non-empty suspended state")
    for i in begin:
        ctx.check(not fr.may(i, "resumed"), "no-fresh-chain-after-resume", "never_after", impl.loc(i),
                  "no fresh chain after a resumed one", "a fresh chain can start after the suspended chain resumed")
    # the restore happens only when a chain is suspended
    for i in restore:
        ctx.check(has_fact(fr.guards(i), True, "active_action_chain_state_"), "resume:only-if-suspended",
                  "guarded_by", impl.loc(i), "context restored only when a chain is suspended",
                  "saved context restored without testing that a chain is suspended")

    # ---- 3. fresh uuid on the firing edge
    for i in fresh:
        a = impl.text(impl.nodes[i]["args"][0])
        if "generateUuid" in a or "name_" in a:
            ctx.count("firing_context_sites")
            ctx.check("Oomd::Util::generateUuid()" in a, "fresh-uuid-on-firing", "value-shape", impl.loc(i),
                      "a new uuid is generated when a chain fires", "firing context has no fresh uuid: " + a[:100])
            ctx.check("prekill_hook_timeout_" in a and "steady_clock::now()" in a, "deadline-fixed-at-firing",
                      "value-shape", impl.loc(i), "prekill deadline = now + prekill_hook_timeout_ at firing",
                      "firing context has no prekill deadline")
            ctx.check("getRulesetCgroup()" in a, "target-cgroup-at-firing", "value-shape", impl.loc(i),
                      "firing context carries the ruleset cgroup", "firing context lacks the ruleset cgroup")
    ctx.floor("firing_context_sites", 1, "setActionContext on the firing edge")

    # ---- 4. scope guard covers every exit
    guards = []
    for d in impl.all("decl"):
        for v in impl.nodes[d].get("vars", []):
            if "ScopeGuard" in v.get("type", ""):
                guards.append((d, v))
    lam_ok = False
    for d, v in guards:
        lam = None
        for x in impl.walk(v.get("init", -1)):
            if impl.nodes[x]["k"] == "lambda":
                lam = impl.nodes[x]["lusr"]
        for u in P.resolve(lam) if lam else []:
            lf = ctx.use(P.fns[u])
            c1 = [i for i in lf.calls("OomdContext::setActionContext")]
            c2 = [i for i in lf.calls("OomdContext::setInvokingRuleset")
                  if "nullopt" in lf.text(lf.nodes[i]["args"][0])]
            c3 = [i for i in lf.calls("OomdContext::setRulesetCgroup")
                  if "nullopt" in lf.text(lf.nodes[i]["args"][0])]
            if c1 and c2 and c3:
                lam_ok = True
                fg = Flow(P, impl, events={d: [("set", "guard")]}, cg=ctx.cg)
                bad = []
                for kind, node, b, parts in fg.exits():
                    if kind in ("return", "fallthrough") and not all("guard" in st.must for st in parts.values()):
                        bad.append(impl.loc(node) if node is not None else kind)
                    elif kind in ("return", "fallthrough"):
                        has_dtor = any(e.get("dtor") == "auto" and e.get("decl") == v["decl"]
                                       for e in impl.blocks[b]["elems"])
                        if not has_dtor:
                            bad.append("no guard destructor at " + (impl.loc(node) if node is not None else kind))
                ctx.check(not bad, "scope-guard-covers-exits", "must_precede", impl.loc(d),
                          "every return of runOnceImpl runs the context-clearing scope guard",
                          "exits not covered by the scope guard: " + ", ".join(bad[:3]))
                # and it is armed before any action can run
                for i in rac:
                    ctx.check(fg.must(i, "guard"), "scope-guard-before-chain", "must_precede", impl.loc(i),
                              "the guard is armed before actions run", "actions can run before the guard is armed")
    ctx.check(lam_ok, "scope-guard-clears-context", "scope-guard effect", impl.loc(),
              "scope guard clears action context, invoking ruleset and ruleset cgroup",
              "no scope guard in runOnceImpl clears action context, invoking ruleset and ruleset cgroup")

    from .C05 import pause_field_writers
    pause_field_writers(ctx)
    # ---- 5. plugins return ASYNC_PAUSED only on documented edges
    krun = ctx.fn1("Oomd::BaseKillPlugin::run")
    fk = Flow(P, krun, cg=ctx.cg)
    for r in returns(krun):
        if ret_const(krun, r) == "ASYNC_PAUSED":
            ctx.count("async_returns")
            ctx.check(has_fact(fk.guards(r), True, "KillResult::DEFER"), "async-only-on-DEFER:BaseKillPlugin::run",
                      "return_table", krun.loc(r), "ASYNC_PAUSED only when the kill was deferred to a prekill hook",
                      "BaseKillPlugin::run returns ASYNC_PAUSED without DEFER")
    for f in ctx.fns("Oomd::KillPgScan::run"):
        ff = Flow(P, f, cg=ctx.cg)
        for r, leaf in return_leaves(f):
            if ret_const_of(f, leaf) == "ASYNC_PAUSED":
                ctx.count("async_returns")
                # `return c ? a : b`: the alternative sits in its own block and carries the polarity of c
                ctx.check(has_fact(ff.guards(r), False, "has_prev_tick_data") or has_fact(ff.guards(leaf), False, "has_prev_tick_data"), "async-only-without-prev-tick:KillPgScan::run",
                          "return_table", f.loc(r), "ASYNC_PAUSED only while the second sample is missing",
                          "KillPgScan::run returns ASYNC_PAUSED although previous-tick data exist")
        init, v = local_init(f, "has_prev_tick_data")
        ctx.check(v is not None and "getCurrentTick()" in f.text(init) and "last_tick_data_was_collected_" in f.text(init),
                  "prev-tick-test:KillPgScan::run", "value-shape", f.loc(),
                  "previous-tick test compares the recorded tick with the current tick",
                  "has_prev_tick_data is not derived from the recorded tick")
    ctx.floor("async_returns", 2, "return ASYNC_PAUSED sites in kill plugins")
    # a plugin that yields must not arm the ruleset's pause on the way: the pause gate is evaluated before the resume
    # branch, so an armed pause keeps the suspended chain from being resumed on the next tick
    for f in [krun] + list(ctx.fns("Oomd::KillPgScan::run")):
        pa = f.calls("Ruleset::pause_actions")
        fp_ = Flow(P, f, events={i: [("set", "pause-armed")] for i in pa}, cg=ctx.cg)
        for r in returns(f):
            c = ret_const(f, r)
            if c == "ASYNC_PAUSED" or (c is None and "ASYNC_PAUSED" in ret_text(f, r)):
                ctx.check(not fp_.may(r, "pause-armed"), "yield-does-not-arm-pause:" + short(f), "must_not_precede", f.loc(r),
                          "no path to 'return ASYNC_PAUSED' calls pause_actions()",
                          "a path calls Ruleset::pause_actions() and then returns ASYNC_PAUSED: the ruleset's pause gate (checked before the resume branch) "
                          "blocks the suspended chain for post_action_delay seconds instead of resuming it on the next tick",
                          witness_path(f, fp_, r))
    # no other plugin in the library returns ASYNC_PAUSED
    allowed = ("Oomd::BaseKillPlugin::run", "Oomd::KillPgScan::run")
    for f in P.fns.values():
        if f.name != "run" or f.pq in allowed:
            continue
        for r in returns(f):
            if ret_const(f, r) == "ASYNC_PAUSED":
                ctx.violation("async-return-outside-table:" + short(f), "return_table", f.loc(r),
                              "a plugin outside the documented two returns ASYNC_PAUSED")

    # ---- 6. suspended state is per ruleset instance
    ruleset_state_is_per_instance(ctx)
