"""C11 Ruleset-level cgroup instances (DESIGN 4/C11)."""
import re
from .common import *
from ..misc import erase_in_iteration

EXPLANATION = (
    "Decides on the CFGs of Ruleset::{runOnce,prerun,registerRunnableRulesetForCgroupPath} and the "
    "DetectorGroup copy constructor: per iteration over the resolved wildcard the instance's "
    "runOnceImpl runs at most once and, past the directory/xattr filters, exactly once; with a filter "
    "set it is dominated by hasxattr == true; instances are created only when the map has no entry "
    "for that absolute path and looked up / inserted / marked visited under the same key; the "
    "per-run ruleset cgroup is set to that cgroup before the run; instances not visited in a tick are "
    "erased without touching an invalidated iterator (erase-in-iteration rule) by a drop loop that "
    "dominates every return after the visiting loop, has no early exit and runs to the end of the map; Ruleset::prerun "
    "reaches prerun of every live instance on the enabled path; a new instance owns freshly created "
    "plugins (registry.create / copy-constructed detector groups), never the template's, and its "
    "actions get the instance cgroup as default 'cgroup' argument before init.  Detector window "
    "values per instance are not decided.")
RULE_SUMMARY = "E-PATH per-iteration rules with condition splitting, E-MISC erase_in_iteration, key agreement, ownership provenance"
NOT_DECIDED = ["detector window values per instance"]
ASSUMPTIONS = ["PluginRegistry::create returns a new object on every call"]

KEY = "cgroup.absolutePath()"


def instance_keeps_order(ctx):
    """The per-cgroup instance is built from the template's detector groups and actions IN THE TEMPLATE'S ORDER: each of the two fresh
    vectors is filled by pushes that all sit in one forward walk over the template's vector, exactly one push per completed iteration,
    appended at the back.  (Actions run in configured order until one stops the chain, and the first firing detector group names the
    action context: an instance that reorders either behaves differently from the ruleset that was configured - shared by C02 and C11.)"""
    P = ctx.prog
    detector_group_copy_keeps_every_detector(ctx)
    rg = ctx.fn1("Oomd::Engine::Ruleset::registerRunnableRulesetForCgroupPath")
    ctx.use(rg)
    for local, field in (("action_group", "this->action_group_"), ("detector_groups", "this->detector_groups_")):
        pushes = [i for i in rg.calls("emplace_back", "push_back", "insert", "emplace", "push_front", "emplace_front") if rg.text(rg.nodes[i].get("recv", -1)) == local]
        if not pushes:
            # filled by an order-preserving algorithm: std::transform / std::copy over [field.begin(), field.end()) into back_inserter(local)
            alg = [i for i in rg.calls() if (rg.nodes[i].get("callee") or "").split("(")[0].endswith(("std::transform", "std::copy", "std::move")) and len(rg.nodes[i].get("args", [])) >= 3]
            okalg = [i for i in alg if re.match(r"^%s\.c?begin\(\)$" % re.escape(field), rg.text(rg.nodes[i]["args"][0])) and
                     re.match(r"^%s\.c?end\(\)$" % re.escape(field), rg.text(rg.nodes[i]["args"][1])) and
                     re.match(r"^std::back_inserter\(%s\)$" % re.escape(local), rg.text(rg.nodes[i]["args"][2]))]
            if len(okalg) == 1:
                ctx.ok("instance-keeps-order:" + local, "loop-shape + per-iteration exactly-once", rg.loc(okalg[0]), "filled by %s over %s into back_inserter(%s): one element per element, in order" % (rg.nodes[okalg[0]].get("cname"), field, local))
                continue
            ctx.broken("instance-keeps-order:" + local, "anchor", rg.loc(), "no insertion into the local vector '%s' (renamed?)" % local)
            continue
        lps = [l for l in loops(rg) if (loop_walk(rg, l) or {}).get("container") == field]
        ok = len(lps) == 1 and loop_walk(rg, lps[0])["dir"] == "forward" and all(rg.nodes[i].get("cname") in ("emplace_back", "push_back") for i in pushes)
        why = ""
        if not ok:
            why = "%d loops over %s; insertions by %s" % (len(lps), field, sorted({rg.nodes[i].get("cname") for i in pushes}))
        if ok:
            L = lps[0]
            outside = [i for i in pushes if L["stmt"] not in list(rg.ancestors(i))]
            if outside:
                ok, why = False, "an insertion at %s is outside the walk over %s" % (rg.loc(outside[0]), field)
        if ok:
            fl = iter_flow(ctx, rg, L, {i: [("set", "pushed")] for i in pushes})
            for b in back_sources(L):
                parts = fl.OUT.get(b)
                if parts is not None and not all("pushed" in st.must for st in parts.values()):
                    ok, why = False, "an iteration over %s can complete without appending its element (it is appended later or not at all)" % field
            for i in pushes:
                if fl.may(i, "pushed"):
                    ok, why = False, "an iteration can append twice"
        ctx.check(ok, "instance-keeps-order:" + local, "loop-shape + per-iteration exactly-once", rg.loc(pushes[0]),
                  "the instance's %s are appended one per element of %s, in that order" % (local, field),
                  "the instance's %s do not keep the configured order: %s" % (local, why))


def detector_group_copy_keeps_every_detector(ctx):
    """Part of instance_keeps_order (C02, C11): the copy of a detector group that a per-cgroup instance gets holds one detector per
    detector of the template - every iteration of the copy constructor's walk appends exactly one.  A group that lost a detector (a copy
    that is skipped) is a weaker conjunction; a group that lost all of them fires on every tick (check() starts from 'all continue')."""
    P = ctx.prog
    cps = [f for f in P.fns.values() if f.pq == "Oomd::Engine::DetectorGroup::DetectorGroup" and f.kind == "ctor" and len(f.params) == 1
           and "DetectorGroup" in (f.params[0].get("type") or "")]
    if len(cps) != 1:
        ctx.broken("detector-group-copy-keeps-every-detector", "anchor", "-", "DetectorGroup's copy constructor not found (%d candidates)" % len(cps))
        return
    f = ctx.use(cps[0])
    pn = f.params[0]["name"]
    pushes = [i for i in f.calls("emplace_back", "push_back") if f.text(f.nodes[i].get("recv", -1)).replace("this->", "") == "detectors_"]
    lps = [l for l in loops(f) if (loop_walk_any(f, l) or {}).get("container", "").replace("param:", "") in (pn + ".detectors_",)]
    if len(lps) != 1 or not pushes:
        alg = [i for i in f.calls() if (f.nodes[i].get("callee") or "").split("(")[0].endswith(("std::transform",)) and len(f.nodes[i].get("args", [])) >= 3]
        if alg and not pushes:
            ctx.ok("detector-group-copy-keeps-every-detector", "loop-shape + per-iteration exactly-once", f.loc(alg[0]), "copied by std::transform: one detector per detector")
            return
        ctx.broken("detector-group-copy-keeps-every-detector", "anchor", f.loc(), "expected one walk over %s.detectors_ appending to detectors_" % pn)
        return
    L = lps[0]
    fl = iter_flow(ctx, f, L, {i: [("set", "pushed")] for i in pushes})
    ok = True
    for b in back_sources(L):
        parts = fl.OUT.get(b)
        if parts is not None and not all("pushed" in st.must for st in parts.values()):
            ok = False
    ctx.check(ok, "detector-group-copy-keeps-every-detector", "loop-shape + per-iteration exactly-once", f.loc(pushes[0]),
              "every detector of the template is copied into the instance's group",
              "an iteration of DetectorGroup's copy constructor can complete without appending its detector: the per-cgroup instance's group is a "
              "weaker conjunction than configured, and a group left without any detector fires on every tick (check() starts from 'all continue')")


def instance_action_args(ctx):
    """The arguments an action of a per-cgroup instance is initialised with: the template action's configured arguments, plus the
    instance cgroup as 'cgroup' ONLY where the configuration gives none (a non-overwriting insert after the configured arguments are
    in place).  An action that names its own cgroup patterns keeps them - its victims are matched by what was configured.  Shared by
    C01 (kill containment) and C11."""
    P = ctx.prog
    rg = ctx.fn1("Oomd::Engine::Ruleset::registerRunnableRulesetForCgroupPath")
    ctx.use(rg)
    X = Expander(P, rg)
    cgp = [p_["name"] for p_ in rg.params if "CgroupPath" in p_["type"]]
    if len(cgp) != 1:
        ctx.broken("instance-cgroup-parameter", "anchor", rg.loc(), "registerRunnableRulesetForCgroupPath has no single CgroupPath parameter")
        return
    cgn = cgp[0]
    inits = rg.calls("BasePlugin::init", "BasePlugin::initPlugin")
    te = [i for i in rg.calls("try_emplace", "emplace", "insert") if rg.text(rg.nodes[i].get("recv", -1)) == "args"]
    ev = {i: [("set", "cgroup-default")] for i in te}
    REFUSED = re.compile(r"^\((0 == .*->init(Plugin)?\(args, .*\)|.*->init(Plugin)?\(args, .*\) == 0)\)$")
    fg = Flow(P, rg, events=ev, cg=ctx.cg, edge_tokens=lambda k, p: ["default-refused"] if (REFUSED.match(k) and p is False) else None)
    ctx.counters["instance_action_inits"] = len(inits)
    ctx.floor("instance_action_inits", 1, "init of the instance's actions")
    for i in inits:
        a = [X(x) for x in rg.nodes[i]["args"]]
        with_default = rg.text(rg.nodes[i]["args"][0]) == "args" and fg.must(i, "cgroup-default")
        ctx.check(with_default or fg.must(i, "default-refused"), "actions-default-to-instance-cgroup", "must_precede", rg.loc(i),
                  "an action is initialised with the instance cgroup as default 'cgroup' argument; only an action that refused that argument set is "
                  "initialised with its configured arguments alone",
                  "actions of the instance are initialised without the instance cgroup as default target")
        ctx.check("getPluginArgs()" in a[0] or a[0].startswith("var:args") or "args" in rg.text(rg.nodes[i]["args"][0]), "actions-keep-their-args", "provenance", rg.loc(i),
                  "actions are initialised with the template action's arguments", "init receives " + a[0][:80])
    for i in te:
        a = [rg.text(x) for x in rg.nodes[i]["args"]]
        ctx.check('"cgroup"' in a[0] and (cgn + ".relativePath()") in a[1] and rg.nodes[i]["cname"] in ("try_emplace", "emplace", "insert"),        # (none of the three replaces an existing entry)
                  "cgroup-default-does-not-override", "value-shape", rg.loc(i),
                  "try_emplace(\"cgroup\", instance path): an explicit 'cgroup' argument wins", "default inserted by %s(%s)" % (rg.nodes[i]["cname"], ", ".join(a)[:80]))
    # the map starts as the configured arguments (so that the default can only fill a gap)
    for d_ in rg.all("decl"):
        for v_ in rg.nodes[d_].get("vars", []):
            if v_["name"] == "args" and rg.pos_of(d_) is not None:
                t_ = X(v_["init"]) if v_.get("init") is not None and v_.get("init", -1) >= 0 else ""
                ctx.check("getPluginArgs()" in t_ and '"cgroup"' not in t_, "instance-args-start-from-configured", "provenance", rg.loc(d_),
                          "the argument map starts as the template action's configured arguments",
                          "the argument map of an instance action starts as %s: the instance default is in place before the configured arguments, so a configured "
                          "'cgroup' no longer wins and the action acts on the instance's cgroup instead of the cgroups it was configured with" % (t_[:90] or "an empty map"))


def instances_kept_only_if_ran(ctx):
    """Shared by C06 and C11: in Ruleset::runOnce's walk over the matching cgroups, a cgroup is marked visited (= its instance survives the
    sweep) only in iterations that ran the instance.  An instance that is kept without running is frozen: a suspended chain is neither
    resumed nor ended, detector windows starve, and it resumes with stale state when the cgroup matches again.  Markings inside scope
    guards are followed (they happen on every way out of the iteration)."""
    P = ctx.prog
    ro = ctx.fn1("Oomd::Engine::Ruleset::runOnce")
    ls = [l for l in loops(ro) if l["stmt"] is not None and ro.nodes[l["stmt"]]["k"] == "rangefor"
          and "resolveWildcard()" in ro.text(ro.nodes[l["stmt"]]["range"])]
    if len(ls) != 1:
        ctx.broken("instance-kept-only-if-it-ran", "anchor", ro.loc(), "expected one range-for over resolveWildcard() in Ruleset::runOnce")
        return
    L = ls[0]
    inbody = lambda i: ro.pos_of(i) is not None and ro.pos_of(i)[0] in L["body"]
    impl = [i for i in ro.calls("Ruleset::runOnceImpl") if inbody(i)]
    # what the sweep tests: the set consulted by the drop loop (found by role: the container whose contains()/find() guards the erase)
    marks = {}
    for i in ro.calls("insert", "emplace"):
        if inbody(i) and "recv" in ro.nodes[i]:
            rn = ro.nodes[ro.strip(ro.nodes[i]["recv"])]
            if rn.get("k") == "ref" and rn.get("dk") in ("local", "static_local"):
                marks[i] = (ro, i)
                # the set of cgroups seen on THIS tick by THIS ruleset: an automatic local (or emptied before the walk).  A static /
                # thread_local set is initialised once and shared by every ruleset and every tick: nothing is ever 'not visited' again
                if rn.get("dk") == "static_local":
                    clears = [c_ for c_ in ro.calls("clear") if ro.text(ro.nodes[c_].get("recv", -1)) == ro.text(ro.nodes[i]["recv"]) and not inbody(c_)]
                    ctx.check(bool(clears), "visited-set-is-per-call", "storage_class", ro.loc(i),
                              "the visited set is emptied before every walk",
                              "the set of cgroups visited this tick ('%s') has static storage and is never emptied: its initialiser runs once, so it "
                              "accumulates the cgroups of every ruleset and every tick - stale instances are never dropped (a re-created cgroup resumes "
                              "the old pause / suspended chain) and rulesets influence one another" % ro.text(ro.nodes[i]["recv"]))
                else:
                    ctx.ok("visited-set-is-per-call", "storage_class", ro.loc(i), "the visited set is an automatic local of runOnce")
    for e_ in ctx.cg.out.get(ro.usr, ()):
        if e_.kind == "scope-exit" and e_.dst in P.fns and isinstance(e_.node, tuple) and e_.node[1] in L["body"]:
            cl_ = P.fns[e_.dst]
            ins_ = [j for j in cl_.calls("insert", "emplace") if "recv" in cl_.nodes[j] and cl_.nodes[cl_.strip(cl_.nodes[j]["recv"])].get("captured")]
            if ins_:
                marks[e_.node[1:]] = (cl_, ins_[0])
    if not impl or not marks:
        ctx.broken("instance-kept-only-if-it-ran", "anchor", ro.loc(), "no instance run / no visited marking found in the walk over the matching cgroups")
        return
    fg = iter_flow(ctx, ro, L, {**{k_: [("set", "visited")] for k_ in marks}, **{i: [("set", "ran")] for i in impl}})
    # each marking site is judged where it executes (the paths merge again at the loop's latch): the instance has run on every path to it
    verdict = {}
    for k_, (g_, j_) in marks.items():
        ok_ = fg.reachable(k_) is False or fg.must(k_, "ran") or not fg.at(k_)
        verdict[(g_.usr, j_)] = verdict.get((g_.usr, j_), True) and ok_
    seen = set()
    for k_, (g_, j_) in marks.items():
        if (g_.usr, j_) in seen:
            continue
        seen.add((g_.usr, j_))
        ok = verdict[(g_.usr, j_)]
        ctx.check(ok, "instance-kept-only-if-it-ran", "order (per iteration, scope guards followed)", g_.loc(j_),
                  "a cgroup is marked visited only in an iteration that ran its instance",
                  "a cgroup can be marked visited in an iteration that does not run its instance (attribute gone, open failed, duplicate): the "
                  "instance survives the sweep without running - a suspended chain is neither resumed nor ended and comes back with stale state")


def instance_skipped_only_for_documented_reasons(ctx):
    """Shared by C05 and C11: in Ruleset::runOnce's walk a matching cgroup is passed over (its instance neither created nor run, hence
    dropped by the sweep together with its post-action pause, suspended chain and detector windows) only for the documented reasons:
    the directory cannot be opened, the xattr filter's attribute is absent or unreadable, the instance cannot be created.  Any other
    `continue` makes a cgroup that still matches lose its state - and start afresh (acting at once) when the condition passes."""
    from ..cfg import CondNorm
    P = ctx.prog
    ro = ctx.fn1("Oomd::Engine::Ruleset::runOnce")
    ls = [l for l in loops(ro) if l["stmt"] is not None and ro.nodes[l["stmt"]]["k"] == "rangefor"
          and "resolveWildcard()" in ro.text(ro.nodes[l["stmt"]]["range"])]
    if len(ls) != 1:
        ctx.broken("instance-skipped-only-for-documented-reasons", "anchor", ro.loc(), "expected one range-for over resolveWildcard() in Ruleset::runOnce")
        return
    L = ls[0]
    opened = locals_receiving(ro, r"DirFd::open\(")
    probes = locals_receiving(ro, r"hasxattrAt\(")
    cn = CondNorm(ro, P)
    conts = [i for i, n in enumerate(ro.nodes) if n["k"] == "continue" and L["stmt"] in list(ro.ancestors(i))
             and not any(ro.nodes[a]["k"] in ("for", "while", "do", "rangefor") and a != L["stmt"] for a in list(ro.ancestors(i))[:list(ro.ancestors(i)).index(L["stmt"])])]
    ctx.counters["instance_skip_sites"] = len(conts)
    for i in conts:
        facts = []
        for a in ro.ancestors(i):
            if a == L["stmt"]:
                break
            an = ro.nodes[a]
            if an["k"] == "if" and "c" in an:
                in_then = an.get("then") is not None and (an["then"] == i or i in set(ro.walk(an["then"])))
                facts += cn.decompose(an["c"], in_then)
        def documented(k, p):
            if not isinstance(k, str) or p is not False:
                return False
            base = re.sub(r"^\*|\.has_value\(\)$|\.value\(\)$|\.operator bool\(\)$", "", k)
            if base in opened or base in probes or k.startswith("this->registerRunnableRulesetForCgroupPath("):
                return True
            # the xattr test moved into a helper: a call that is handed the opened directory and the filter's name
            return "(" in k and "xattr_filter_" in k and any(re.search(r"(?<![\w.])%s(?![\w])" % re.escape(o_), k) for o_ in opened)
        ok = any(documented(k, p) for k, p in facts)
        if not ok:
            # the test sits in a multi-exit helper that was folded in (`if (!passesFilter(dir, cgroup)) continue;`): every exit of the
            # folded body that makes the condition take this branch has to carry a documented reason
            for a in ro.ancestors(i):
                if a == L["stmt"]:
                    break
                an = ro.nodes[a]
                if an["k"] != "if" or "c" not in an:
                    continue
                in_then = an.get("then") is not None and (an["then"] == i or i in set(ro.walk(an["then"])))
                for x in ro.walk(an["c"]):
                    xn = ro.nodes[x]
                    if xn.get("k") == "other" and xn.get("cls") == "InlinedCall" and xn.get("rets"):
                        pol = [p for k, p in cn.decompose(an["c"], in_then) if isinstance(k, str) and k.startswith("InlinedCall(")]
                        if len(pol) == 1 and isinstance(pol[0], bool):
                            paths = inlined_condition_paths(ro, cn, x, pol[0])
                            if paths and all(any(documented(k, p) for k, p in fs_) for fs_ in paths):
                                ok = True
                            else:
                                facts = facts + [f_ for fs_ in paths for f_ in fs_]
        ctx.check(ok, "instance-skipped-only-for-documented-reasons", "guarded_by (lexical)", ro.loc(i),
                  "a matching cgroup is passed over only when it cannot be opened, fails the xattr filter or its instance cannot be created",
                  "a cgroup that still matches the ruleset's pattern is passed over under %s: its instance is dropped by the sweep together with its "
                  "post-action pause, suspended chain and detector windows, and a fresh one acts at once when the condition passes"
                  % [(k, p) for k, p in facts][:4])


def instances_leave_only_through_the_sweep(ctx):
    """'Every matching cgroup has its own detector windows, post-action pause and suspended chain, which persist from tick to tick while the
    cgroup exists': per-cgroup instances are taken out of runnable_rulesets_ only by Ruleset::runOnce's sweep of the cgroups it did not
    visit on this tick.  Nothing else erases, clears, replaces or moves the map (enabling / disabling the ruleset, drop-in bookkeeping)."""
    P = ctx.prog
    SHRINK = {"erase", "clear", "extract", "swap", "operator=", "assign", "merge", "erase_if", "remove_if"}
    n = 0
    for f in sorted(P.fns.values(), key=lambda x: (x.file, x.line, x.usr)):
        if not f.file.startswith("oomd/") or f.file.endswith("Test.cpp"):
            continue
        for i, nd in enumerate(f.nodes):
            if nd["k"] not in ("call", "bin") or f.pos_of(i) is None:
                continue
            recv = f.text(nd["recv"]) if "recv" in nd else (f.text(nd["l"]) if nd["k"] == "bin" and nd.get("op") == "=" else "")
            touches = recv.endswith("runnable_rulesets_") or (nd["k"] == "call" and nd.get("cname") in ("erase_if", "swap", "exchange") and any(
                re.match(r"^(this->)?runnable_rulesets_$", f.text(a)) for a in nd.get("args", [])))
            if not touches or not ((nd.get("cname") or "") in SHRINK or nd.get("op") == "="):
                continue
            n += 1
            owner = f
            while owner.kind == "lambda" and owner.d.get("parentfn") in P.fns:
                owner = P.fns[owner.d["parentfn"]]
            ctx.use(f)
            ctx.check(owner.pq == "Oomd::Engine::Ruleset::runOnce" and (nd.get("cname") or "") in ("erase", "erase_if"),
                      "instances-leave-only-through-the-sweep:%s@%s" % (short(owner), nd.get("cname") or nd.get("op")), "who-may-write (removal)", f.loc(i),
                      "per-cgroup instances are removed only by runOnce's sweep of unvisited cgroups",
                      "%s removes per-cgroup instances from runnable_rulesets_ (%s) outside the sweep of Ruleset::runOnce: cgroups that still exist lose their "
                      "detector windows, post-action pause and suspended chain" % (owner.pq, f.text(i)[:60]))
    ctx.counters["instance_map_removals"] = n
    ctx.floor("instance_map_removals", 1, "removing operations on runnable_rulesets_ (the sweep in runOnce)")


def run(ctx):
    from .C05 import pause_gate_reads_own_deadline
    pause_gate_reads_own_deadline(ctx, "C11")
    # every instance's own detector windows persist from tick to tick: they are fed on every tick, also while the instance's pause runs
    detector_walk_every_tick(ctx, "C11")
    # "its actions targeting that cgroup": the instance hands its cgroup to the actions as argument text
    cgroup_argument_pieces_taken_verbatim(ctx, "C11")
    ruleset_state_is_per_instance(ctx)
    ruleset_wiring(ctx, "C11", ['post_action_delay', 'prekill_hook_timeout', 'silenced_logs'])      # every instance is built with the template's settings
    instances_leave_only_through_the_sweep(ctx)
    from .C05 import invoking_ruleset_rule
    invoking_ruleset_rule(ctx)
    from .C06 import resume_restores_instance_context
    resume_restores_instance_context(ctx, "C11")
    # locals / parameters the rules below refer to by name (a rename makes the analysis 'broken', never a violation)
    ctx.anchor(ctx.fn1('Oomd::Engine::Ruleset::runOnce'), 'cgroup', 'visited', 'context')
    ctx.anchor(ctx.fn1('Oomd::Engine::Ruleset::registerRunnableRulesetForCgroupPath'), 'args', 'action_group', 'detector_groups')
    P = ctx.prog
    ro = ctx.fn1("Oomd::Engine::Ruleset::runOnce")
    ls = [l for l in loops(ro) if l["stmt"] is not None and ro.nodes[l["stmt"]]["k"] == "rangefor"
          and "resolveWildcard()" in ro.text(ro.nodes[l["stmt"]]["range"])]
    if len(ls) != 1:
        ctx.broken("runOnce:loop", "anchor", ro.loc(), "expected one range-for over resolveWildcard()")
        return
    L = ls[0]
    inbody = lambda i: ro.pos_of(i) is not None and ro.pos_of(i)[0] in L["body"]
    impl = [i for i in ro.calls("Ruleset::runOnceImpl") if inbody(i)]
    reg = [i for i in ro.calls("registerRunnableRulesetForCgroupPath") if inbody(i)]
    src_ = [i for i in ro.calls("OomdContext::setRulesetCgroup") if inbody(i)]
    vis = [i for i in ro.calls("insert") if inbody(i) and "visited" in ro.text(ro.nodes[i].get("recv", -1))]
    # a scope guard declared in the loop body whose closure marks the cgroup visited: the marking happens where the guard dies
    guard_vis = {}
    for e_ in ctx.cg.out.get(ro.usr, ()):
        if e_.kind == "scope-exit" and e_.dst in P.fns and isinstance(e_.node, tuple) and e_.node[1] in L["body"]:
            cl_ = P.fns[e_.dst]
            ins_ = [j for j in cl_.calls("insert") if "visited" in cl_.text(cl_.nodes[j].get("recv", -1))]
            if ins_:
                guard_vis[e_.node[1:]] = (cl_, ins_[0])
    hx = [i for i in ro.calls("Fs::hasxattrAt") if inbody(i)]
    ctx.counters["instance_run_sites"] = len(impl)
    ctx.floor("instance_run_sites", 1, "instance runOnceImpl call in the wildcard loop")
    ev = {}
    for i in impl:
        ev.setdefault(i, []).append(("set", "ran"))
    for i in src_:
        ev.setdefault(i, []).append(("set", "cgroup-set"))
    for i in vis:
        ev.setdefault(i, []).append(("set", "visited"))
    for k_ in guard_vis:
        ev.setdefault(k_, []).append(("set", "visited"))
    for i in reg:
        ev.setdefault(i, []).append(("set", "created"))
    split = lambda k: k == "this->xattr_filter_.empty()"
    fi = iter_flow(ctx, ro, L, ev, split=split)
    for i in impl:
        ctx.check(not fi.may(i, "ran"), "instance-runs-at-most-once-per-cgroup", "at_most_once", ro.loc(i),
                  "each matching cgroup's instance runs at most once per tick", "an instance can run twice for one cgroup in a tick")
        ctx.check(fi.must(i, "cgroup-set"), "ruleset-cgroup-set-before-run", "must_precede", ro.loc(i),
                  "the per-run ruleset cgroup is set before the instance runs", "the instance can run without setRulesetCgroup")
        parts = fi.at(i) or {}
        okx = bool(parts)
        for val, st in parts.items():
            d = dict(val)
            filt = d.get("C:this->xattr_filter_.empty()")
            if filt is False:
                # the probe's result (the local that receives hasxattrAt) was read as 'present' and 'true'
                probes_ = locals_receiving(ro, r"hasxattrAt\(")
                has_ = any((n_, True) in st.conds or (n_ + ".has_value()", True) in st.conds for n_ in probes_)
                val_ = any(("*" + n_, True) in st.conds or (n_ + ".value()", True) in st.conds for n_ in probes_)
                if not (has_ and val_):
                    okx = False
            elif filt is None:
                okx = False
        ctx.check(okx, "instance-runs-only-with-xattr", "guarded_by(split)", ro.loc(i),
                  "with an xattr_filter the instance runs only for cgroups carrying the attribute",
                  "the instance can run for a cgroup without the xattr_filter attribute")
        r = Expander(P, ro)(ro.nodes[i]["recv"])
        # the lookup spelled map[key], map.at(key) or map.find(key)->second
        r_norm = re.sub(r"this->runnable_rulesets_\.at\((.*?\.absolutePath\(\))\)", r"this->runnable_rulesets_[\1]", r)
        r_norm = re.sub(r"this->runnable_rulesets_\.find\((.*?\.absolutePath\(\))\)->second", r"this->runnable_rulesets_[\1]", r_norm)
        ctx.check(("this->runnable_rulesets_[%s]" % KEY in hoist_text(ro, ro.nodes[i]["recv"], P)) or ("this->runnable_rulesets_[elem(" in r_norm and ".absolutePath()]" in r_norm), "run-the-instance-of-this-cgroup", "provenance", ro.loc(i),
                  "the instance looked up by this cgroup's absolute path is run", "runs " + r[:100])
    # past the filters the instance always runs, is marked visited
    for b in back_sources(L):
        parts = fi.OUT.get(b) or {}
        # iterations that did not 'continue' early: identified by having set the ruleset cgroup
        for st in parts.values():
            pass
    for i in vis:
        ctx.check(fi.must(i, "ran") and hoist_text(ro, ro.nodes[i]["args"][0], P) == KEY, "visited-after-run-same-key", "order", ro.loc(i),
                  "a cgroup is marked visited (by the same key) after its instance ran", "visited marking does not follow the run with the same key")
    instances_kept_only_if_ran(ctx)
    instance_skipped_only_for_documented_reasons(ctx)
    for i in impl:
        # the visit marking follows on every path to the end of the iteration
        fv = iter_flow(ctx, ro, L, {**{v: [("set", "visited")] for v in vis}, **{k_: [("set", "visited")] for k_ in guard_vis}, **{i: [("set", "ran")]}})
        okv = True
        for b in back_sources(L):
            for st in (fv.OUT.get(b) or {}).values():
                if "ran" in st.may and not ("visited" in st.must or "ran" not in st.must):
                    okv = False
        ctx.check(okv and bool(vis or guard_vis), "run-implies-visited", "must_follow", ro.loc(i),
                  "every instance that ran is marked visited in that iteration", "an instance can run without being marked visited (it would be dropped)")
    ctx.counters["create_sites"] = len(reg)
    ctx.floor("create_sites", 1, "instance creation call")
    for i in reg:
        g = fi.guards(i)
        M_ = "this->runnable_rulesets_"
        absent_ = has_fact(g, False, "%s.contains(%s)" % (M_, KEY)) or any(p is True and "runnable_rulesets_.end()" in k and "find(%s)" % KEY in k for k, p in g) or \
            any(isinstance(k, str) and ((k == "%s.count(%s)" % (M_, KEY) and p is False) or
                                        (k in ("(0 == %s.count(%s))" % (M_, KEY), "(%s.count(%s) == 0)" % (M_, KEY)) and p is True) or
                                        (k in ("(0 < %s.count(%s))" % (M_, KEY), "(%s.count(%s) > 0)" % (M_, KEY), "(%s.count(%s) != 0)" % (M_, KEY)) and p is False)) for k, p in g)
        ctx.check(absent_,
                  "create-only-if-absent", "guarded_by", ro.loc(i), "an instance is created only when none exists for that path",
                  "an instance can be (re)created although one exists: its state would be lost", witness_path(ro, fi, i))
        ctx.check(ro.text(ro.nodes[i]["args"][1]) == "cgroup", "create-for-this-cgroup", "provenance", ro.loc(i),
                  "created for the cgroup being visited", "created for " + ro.text(ro.nodes[i]["args"][1]))
    for i in impl:
        # existence: on every path to the run the entry exists (created or contained)
        fe = iter_flow(ctx, ro, L, {r_: [("set", "created")] for r_ in reg}, split=lambda k: "runnable_rulesets_.contains(" in k or "runnable_rulesets_.find(" in k or "runnable_rulesets_.count(" in k)
        look = [x for x in ro.walk(ro.nodes[i]["recv"]) if ro.nodes[x]["k"] == "call" and ro.nodes[x].get("op") == "[]"
                and ro.pos_of(x) is not None]
        parts = fe.at(look[0] if look else i) or {}
        ok = bool(parts) and all(("created" in st.must) or any(kk.startswith("C:") and "contains(" in kk and vv is True for kk, vv in dict(val).items())
                                 or any(kk.startswith("C:") and "find(" in kk and vv is False for kk, vv in dict(val).items())
                                 or any(kk.startswith("C:") and "count(" in kk and ((kk.endswith(")") and not kk.startswith("C:(") and vv is True) or
                                                                                     (kk.startswith("C:(0 == ") and vv is False)) for kk, vv in dict(val).items())
                                 for val, st in parts.items())
        ctx.check(ok or not reg, "instance-exists-before-run", "must_precede", ro.loc(i), "the entry exists before it is looked up",
                  "operator[] may default-construct a null instance")
    for i in src_:
        ctx.check(ro.text(ro.nodes[i]["args"][0]) == "cgroup", "ruleset-cgroup-is-this-cgroup", "provenance", ro.loc(i),
                  "setRulesetCgroup receives the cgroup being visited", "setRulesetCgroup receives " + ro.text(ro.nodes[i]["args"][0]))
    for i in hx:
        a = [ro.text(x) for x in ro.nodes[i]["args"]]
        fdn = locals_receiving(ro, r"DirFd::open\(")
        ctx.check(any(re.search(r"\b%s\b" % re.escape(n_), a[0]) for n_ in fdn) and a[1] == "this->xattr_filter_", "xattr-probed-on-this-cgroup", "provenance", ro.loc(i),
                  "the attribute is probed on the cgroup's own directory fd", "probe is hasxattrAt(%s)" % ", ".join(a))
    # the filter test itself: presence of the attribute, whatever its value
    from .C03 import has_xattr_probe
    has_xattr_probe(ctx)
    from .C05 import pause_field_writers
    pause_field_writers(ctx)
    # ---- drop loop
    from ..misc import double_advance
    da_ = double_advance(P, ctx.cg, ro)
    ctx.check(not da_, "drop-loop-visits-every-instance", "at_most_once (iterator advance per iteration)", ro.loc(da_[0][0]) if da_ else ro.loc(),
              "the drop loop looks at every instance (one advance per iteration)", (da_[0][1] if da_ else "") + " - an instance that should be dropped survives the tick")
    bad = erase_in_iteration(P, ro, ctx.cg)
    ctx.check(not bad, "erase-in-iteration:Ruleset::runOnce", "erase_in_iteration", ro.loc(bad[0][0]) if bad else ro.loc(),
              "dropping instances does not advance an invalidated iterator",
              bad[0][1] if bad else "")
    er = [i for i in ro.calls("erase") if "runnable_rulesets_" in ro.text(ro.nodes[i].get("recv", -1))]
    ctx.counters["drop_sites"] = len(er)
    ctx.floor("drop_sites", 1, "erase of runnable_rulesets_ entries")
    fd = Flow(P, ro, cg=ctx.cg)
    for i in er:
        g = fd.guards(i)
        ctx.check(any(p is False and (k.startswith("visited.contains(") or re.match(r"^visited\.count\(.*\)$", k)) for k, p in g) or
                  any(p is True and re.match(r"^\((0 == visited\.count\(.*\)|visited\.count\(.*\) == 0)\)$", k) for k, p in g) or
                  any(p is True and "visited.end()" in k and "visited.find(" in k for k, p in g),
                  "drop-only-unvisited", "guarded_by", ro.loc(i), "only instances not visited this tick are dropped",
                  "an instance can be dropped although its cgroup was visited", witness_path(ro, fd, i))
    # the drop loop runs on every tick that iterated (not skipped by early return)
    dl = [l for l in loops(ro) if l is not L and l["stmt"] is not None and "runnable_rulesets_" in loop_header(ro, l)]
    ctx.check(len(dl) == 1, "drop-loop-present", "anchor", ro.loc(), "one loop drops stale instances", "no loop over runnable_rulesets_ drops stale instances")
    if len(dl) == 1:
        D = dl[0]
        dom, succ_, pred_ = dominators(ro)
        # blocks reachable from the visiting loop
        seen, st_ = set(), [L["head"]]
        while st_:
            u = st_.pop()
            if u in seen:
                continue
            seen.add(u)
            st_.extend(succ_.get(u, []))
        skipped = []
        for r in returns(ro):
            b = ro.pos_of(r)[0]
            if b in seen and D["head"] not in dom.get(b, ()):
                skipped.append(ro.loc(r))
        ctx.check(not skipped, "drop-loop-on-every-tick", "must_pass_through(dominance)", skipped[0] if skipped else ro.loc(D["stmt"]),
                  "every return after the visiting loop is dominated by the drop loop: stale instances are looked for on every tick",
                  "runOnce can return at %s after visiting the cgroups without running the drop loop: an instance whose cgroup disappeared "
                  "survives the tick (and is reused if the cgroup reappears)" % ", ".join(skipped))
        no_early_exit(ctx, ro, D, "drop-loop:no-early-exit", "runnable_rulesets_")
        hdr = loop_header(ro, D)
        n_ = ro.nodes[D["stmt"]]
        condt = ro.text(n_["c"]) if n_["k"] in ("for", "while") and "c" in n_ else ("range" if n_["k"] == "rangefor" else "?")
        ctx.check(n_["k"] == "rangefor" or re.match(r"^\((\w+) != this->runnable_rulesets_\.end\(\)\)$|^\(this->runnable_rulesets_\.end\(\) != (\w+)\)$", condt) is not None,
                  "drop-loop:whole-map", "loop-shape", ro.loc(D["stmt"]), "the drop loop runs until the end of the instance map", "drop loop condition is " + condt)
    # cgroup_-less rulesets run the template directly
    fr = Flow(P, ro, cg=ctx.cg)
    direct = [i for i in ro.calls("Ruleset::runOnceImpl") if i not in impl]
    for i in direct:
        ctx.check(has_fact(fr.guards(i), False, "this->cgroup_"), "template-runs-only-without-cgroup", "guarded_by", ro.loc(i),
                  "the template itself runs only when no ruleset cgroup is configured", "the template runs although a ruleset cgroup is configured")

    # ---- prerun reaches the instances
    pr = ctx.fn1("Oomd::Engine::Ruleset::prerun")
    lp = loop_over(pr, "runnable_rulesets_")
    if len(lp) != 1:
        ctx.violation("prerun-reaches-instances", "loop", pr.loc(),
                      "Ruleset::prerun has no loop over runnable_rulesets_: per-cgroup instances receive prerun() only on "
                      "the tick that creates them (their detectors' sliding windows and plugin state go stale)")
    else:
        calls = [i for i in pr.calls("Ruleset::prerun") if pr.pos_of(i)[0] in lp[0]["body"]]
        per_iter_once(ctx, pr, lp[0], calls, "prerun-reaches-instances", "prerun() of each per-cgroup instance")
        no_early_exit(ctx, pr, lp[0], "prerun-instances:no-early-exit", "runnable_rulesets_")
        fp = Flow(P, pr, cg=ctx.cg)
        parts = fp.IN.get(lp[0]["head"])
        conds = None
        for st in (parts or {}).values():
            conds = st.conds if conds is None else conds & st.conds
        extra = [(k, p) for k, p in (conds or ()) if "enabled_" not in k and "__begin" not in k and "__end" not in k]
        ctx.check(parts is not None and not extra, "prerun-instances:unconditional", "guarded_by", pr.loc(lp[0]["stmt"]),
                  "instances are prerun whenever the ruleset is enabled", "instance prerun is conditioned on %s" % extra)

    init_results_checked(ctx, "C11")
    instance_keeps_order(ctx)
    from .C16 import resolve_rule
    resolve_rule(ctx)
    # ---- instance creation: fresh plugins, cgroup default, keyed insert
    rg = ctx.fn1("Oomd::Engine::Ruleset::registerRunnableRulesetForCgroupPath")
    X = Expander(P, rg)
    # the instance cgroup is the CgroupPath parameter, whatever it is called
    cgp = [p_["name"] for p_ in rg.params if "CgroupPath" in p_["type"]]
    if len(cgp) != 1:
        ctx.broken("instance-cgroup-parameter", "anchor", rg.loc(), "registerRunnableRulesetForCgroupPath has no single CgroupPath parameter")
        return
    cgn = cgp[0]
    pushes = [i for i in rg.calls("emplace_back", "push_back") if rg.text(rg.nodes[i].get("recv", -1)) in ("action_group", "detector_groups")]
    ctx.counters["instance_plugin_pushes"] = len(pushes)
    ctx.floor("instance_plugin_pushes", 2, "plugin/group insertions into the new instance")
    for i in pushes:
        which = rg.text(rg.nodes[i]["recv"])
        t = X(rg.nodes[i]["args"][0])
        if which == "action_group":
            t0 = re.sub(r"^std::move\((.*)\)$", r"\1", t)
            rr_ = rg.root_ref(rg.nodes[i]["args"][0])
            empty_init = t0 in ("std::unique_ptr()", "{}", "nullptr") and rr_ is not None and rr_ >= 0 and rg.nodes[rr_].get("k") == "ref" and rg.nodes[rr_].get("dk") == "local"
            if t0.startswith("var:") or empty_init:
                # a local that is (re)assigned: every value it can hold has to be a newly created plugin
                nm = t0[4:] if t0.startswith("var:") else rg.nodes[rr_]["name"]
                defs = []
                init_, v_ = local_init(rg, nm, must=False)
                if v_ is not None and init_ is not None and init_ >= 0:
                    defs.append(X(init_))
                for j in rg.calls("reset"):
                    if rg.text(rg.nodes[j].get("recv", -1)) == nm:
                        defs.append(X(rg.nodes[j]["args"][0]) if rg.nodes[j].get("args") else "nullptr")
                for w in local_writes(rg, nm, must=False):
                    defs.append(X(write_rhs(rg, w)))
                # ... or it is handed by mutable reference to a local closure that re-creates it (`renew(plugin)`): what the closure
                # stores into its parameter counts as a definition; an empty initialiser (`std::unique_ptr<T> plugin;`) does not
                for j in rg.calls():
                    nj = rg.nodes[j]
                    pts_ = nj.get("ptypes") or []
                    for k_, a_ in enumerate(nj.get("args", [])):
                        an_ = rg.nodes[rg.strip(a_)]
                        if an_.get("k") == "ref" and an_.get("name") == nm and k_ < len(pts_) and pts_[k_].rstrip().endswith("&") and not pts_[k_].lstrip().startswith("const "):
                            for e_ in ctx.cg.out.get(rg.usr, ()):
                                if e_.node == j and e_.dst in P.fns:
                                    cl_ = P.fns[e_.dst]
                                    if k_ >= len(cl_.params):
                                        continue
                                    pn_ = cl_.params[k_]["name"]
                                    Xc_ = Expander(P, cl_)
                                    for r_ in cl_.calls("reset"):
                                        if cl_.text(cl_.nodes[r_].get("recv", -1)) == pn_:
                                            defs.append(Xc_(cl_.nodes[r_]["args"][0]) if cl_.nodes[r_].get("args") else "nullptr")
                                    for w_ in local_writes(cl_, pn_, must=False):
                                        defs.append(Xc_(write_rhs(cl_, w_)))
                defs = [d for d in defs if d not in ("std::unique_ptr()", "{}", "nullptr", "std::unique_ptr(nullptr)")] if len(defs) > 1 else defs
                ok = bool(defs) and all("getPluginRegistry().create(" in d or re.search(r"\bregistry\.create\(", d) for d in defs)
                t = " | ".join(defs)
            else:
                ok = t0.startswith("Oomd::getPluginRegistry().create(") or "Oomd::getPluginRegistry().create(" in t0[:80]
        else:
            ok = t.startswith("std::make_unique(*") and "detector_groups_" in t
        ctx.check(ok, "instance-owns-fresh-plugins:" + which, "provenance", rg.loc(i),
                  "the instance receives newly created plugins / copy-constructed detector groups",
                  "the instance receives " + t[:120] + " (shared with the template or another instance)")
    instance_action_args(ctx)
    ins = [i for i, n in enumerate(rg.nodes) if n["k"] == "call" and n.get("op") == "=" and "recv" in n
           and "this->runnable_rulesets_[" in rg.text(n["recv"])]
    # ... or the keyed-insert spellings of the same store (insert_or_assign / emplace / try_emplace / insert({k, v}))
    ins_k = [i for i in rg.calls("insert_or_assign", "emplace", "try_emplace", "insert") if "recv" in rg.nodes[i]
             and rg.text(rg.nodes[i]["recv"]).replace("this->", "") == "runnable_rulesets_" and rg.nodes[i].get("args")]
    key_ok = (len(ins) == 1 and ("[%s.absolutePath()]" % cgn) in rg.text(rg.nodes[ins[0]]["recv"])) or \
        (not ins and len(ins_k) == 1 and hoist_text(rg, rg.nodes[ins_k[0]]["args"][0], P).startswith("%s.absolutePath()" % cgn))
    if not ins and not ins_k:
        ctx.broken("instance-stored-under-absolute-path", "anchor", rg.loc(), "no store into runnable_rulesets_ found in registerRunnableRulesetForCgroupPath")
    else:
        ctx.check(key_ok, "instance-stored-under-absolute-path", "provenance",
                  rg.loc((ins or ins_k)[0]), "the instance is stored under the cgroup's absolute path (the key runOnce uses)",
                  "instance is stored under another key than runOnce looks up")
    mk = [i for i in rg.calls("make_unique") if "Ruleset" in rg.nodes[i].get("type", "") and "DetectorGroup" not in rg.nodes[i].get("type", "")]
    for i in mk:
        a = [rg.text(x) for x in rg.nodes[i]["args"]]
        ctx.check("detector_groups" in a[1] and "action_group" in a[2] and "detector_groups_" not in a[1] and "action_group_" not in a[2],
                  "instance-built-from-fresh-vectors", "provenance", rg.loc(i), "the instance is built from the freshly filled vectors",
                  "the instance is built from " + str(a[1:3]))
        ctx.check("this->post_action_delay_" in a and "this->prekill_hook_timeout_" in a and "this->name_" == a[0],
                  "instance-inherits-settings", "provenance", rg.loc(i), "name, delays and flags are inherited from the template", "constructor args: " + str(a)[:160])
    # DetectorGroup copy constructor creates new detectors
    for f in P.fns.values():
        if f.pq == "Oomd::Engine::DetectorGroup::DetectorGroup" and len(f.params) == 1 and "DetectorGroup" in f.params[0]["type"]:
            ctx.use(f)
            Xd = Expander(P, f)
            for i in f.calls("emplace_back", "push_back"):
                t = Xd(f.nodes[i]["args"][0])
                ctx.count("dg_copy_pushes")
                t_core = re.sub(r"^(std::move\(|std::unique_ptr(<[^()]*>)?\()+", "", t)
                ctx.check(t_core.startswith("Oomd::getPluginRegistry().create("), "detector-group-copy-creates-detectors", "provenance", f.loc(i),
                          "copied detector groups get newly created detectors", "copied group receives " + t[:100])
            for i in f.calls("BasePlugin::init", "BasePlugin::initPlugin"):
                a = [Xd(x) for x in f.nodes[i]["args"]]
                ctx.check("getPluginArgs()" in a[0] and "getPluginContext()" in a[1], "detector-copy-same-args", "provenance", f.loc(i),
                          "new detectors are initialised with the original's arguments and context", "init receives " + str(a)[:120])
    ctx.floor("dg_copy_pushes", 1, "detector creation in DetectorGroup copy constructor")
    # state is per Ruleset object
    rc = P.classes.get("Oomd::Engine::Ruleset")
    rec = [x for x in (rc or {}).get("fields", []) if x["name"] == "runnable_rulesets_"]
    ctx.check(bool(rec) and "std::unordered_map<std::string, std::unique_ptr<" in rec[0]["type"] and not rec[0].get("static"),
              "instances-in-one-map-keyed-by-path", "type", "oomd/engine/Ruleset.h", "instances live in one per-ruleset map keyed by path string",
              "runnable_rulesets_ has type " + (rec[0]["type"] if rec else "?"))
