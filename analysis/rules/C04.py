"""C04 Dry-run (DESIGN 4/C04)."""
import re
from .common import *

EXPLANATION = (
    "Decides, for every world and configuration: no effect sink (kill(2), pidfd_open/"
    "process_mrelease, xattr writes, cgroup.kill/cgroup.freeze, sd_bus_call_method, the oomd.kills "
    "and restart counters) can execute on a path where the dry flag is true, in both dry-aware "
    "classes - each sink call site reachable from BaseKillPlugin::run / SystemdRestart::run is "
    "dominated by dry==false or lies in a function all of whose call sites are (transitively) so "
    "dominated; the dry parameter is the plugin's dry_ field; the dry flag is read only at the "
    "enumerated places (early return, stat guard, '(dry)' labels, forwarding, the restart branch) so "
    "it cannot influence ranking or the returned PluginRet; the dry branch reports success like a "
    "wet kill; the kill record carries the '(dry)' mark.  Not decided: that external prekill hooks "
    "(fired in dry mode too) have no effects of their own.")
RULE_SUMMARY = "E-EFFECT may-reach-sink over the call graph + guard dominance with transitive caller protection; frozen dry-read table"
NOT_DECIDED = ["effects of external prekill hooks, which are fired in dry mode as well",
               "equality of the dry and wet victim when plugin code outside the tree is involved"]
ASSUMPTIONS = ["the listed libc / libsystemd / Fs functions are the only effectful boundary of the kill plugins"]

SINK_CALLEES = {"kill", "syscall", "pthread_kill", "setxattr", "Oomd::Fs::setxattr", "Oomd::Fs::writeKillAt",
                "Oomd::Fs::writeFreezeAt", "sd_bus_call_method", "Oomd::Fs::writeControlFileAt",
                "Oomd::Fs::writeMemhighAt", "Oomd::Fs::writeMemhightmpAt", "Oomd::Fs::writeMemReclaimAt",
                "Oomd::Fs::setSwappiness"}
STAT_KEYS = ("kKillsKey", "kRestartsKey")

# (function plain-name suffix, context) pairs where the dry flag may be read
DRY_READS = {
    ("BaseKillPlugin::tryToKillCgroup", "branch"): "early return before any effect",
    ("BaseKillPlugin::tryToLogAndKillCgroup", "branch"): "guards the oomd.kills counter",
    ("BaseKillPlugin::tryToLogAndKillCgroup", "label"): "'(dry)' mark in the kill record",
    ("BaseKillPlugin::tryToLogAndKillCgroup", "forward"): "forwarded to tryToKillCgroup / dumpKillInfo",
    ("BaseKillPlugin::resumeTryingToKillSomething", "forward"): "forwarded to dumpKillInfo",
    ("BaseKillPlugin::init", "forward"): "bound to the 'dry' argument",
    ("SystemdRestart::run", "branch"): "restart vs. log-only, and the restart counter guard",
    ("SystemdRestart::run", "label"): "'(dry)' mark in the restart record",
    ("SystemdRestart::init", "forward"): "bound to the 'dry' argument",
}


def classify_read(f, i, depth=0):
    """Context in which expression node i (a read of the dry flag) is used."""
    cur = i
    for a in f.ancestors(i):
        an = f.nodes[a]
        if an["k"] == "cond" and cur in set(f.walk(an["c"])):
            t, e2 = f.nodes[f.strip(an["t"])], f.nodes[f.strip(an["f"])]
            return "label" if t["k"] == "lit" and e2["k"] == "lit" and t["lk"] == "str" == e2["lk"] else "other-cond"
        if an["k"] in ("call", "construct") and (cur in an.get("args", []) or
                                                 cur in [f.strip(x) for x in an.get("args", [])]):
            if an["k"] == "construct" and an.get("copymove"):
                cur = a
                continue
            return "forward"
        if an["k"] == "if" and cur in set(f.walk(an["c"])):
            return "branch"
        if an["k"] == "decl" and depth < 3:
            # a local derived from the flag: classified by how that local is used
            kinds = set()
            for v in an.get("vars", []):
                if "init" in v and cur in set(f.walk(v["init"])):
                    for j, m in enumerate(f.nodes):
                        if m["k"] == "ref" and m.get("decl") == v["decl"]:
                            kinds.add(classify_read(f, j, depth + 1))
            if len(kinds) == 1:
                return kinds.pop()
            return "other:local(%s)" % ",".join(sorted(kinds))
        if an["k"] in ("while", "for", "do", "switch", "return"):
            return "other:" + an["k"]
        if an["k"] == "bin" and an["op"] in ("=", "+=", "|=", "&="):
            return "other:assign"
        cur = a
    return "other"


def is_sink(f, i):
    n = f.nodes[i]
    if n["k"] != "call":
        return None
    c = f.callee(i)
    if c in SINK_CALLEES:
        return c
    if c in ("Oomd::incrementStat", "Oomd::Stats::increment") and n.get("args"):
        a = f.text(n["args"][0])
        for k in STAT_KEYS:
            if k in a:
                return "incrementStat(%s)" % k
    return None


def dry_false(guards):
    return any(p is False and (k == "dry" or k == "this->dry_") for k, p in guards)


def run(ctx):
    # locals / parameters the rules below refer to by name (a rename makes the analysis 'broken', never a violation)
    ctx.anchor(ctx.fn1('Oomd::BaseKillPlugin::tryToKillCgroup'), 'dry')
    P, cg = ctx.prog, ctx.cg
    init_results_checked(ctx, "C04")
    kmsg_record_complete(ctx, "C04")
    # the configured dry argument reaches the plugin at all
    json_nonscalar_arg_rejected(ctx, "C04")
    roots = [f for f in P.fns.values() if f.name == "run" and (
        f.pq == "Oomd::BaseKillPlugin::run" or f.pq.startswith("Oomd::SystemdRestart") or
        re.match(r"Oomd::Kill\w+::run$", f.pq))]
    ctx.counters["dry_aware_roots"] = len(roots)
    ctx.floor("dry_aware_roots", 2, "run() of the dry-aware classes")
    scope = cg.reach([f.usr for f in roots])
    # sink call sites in scope
    sinks = []
    for u in scope:
        f = P.fns[u]
        for i in f.calls():
            s = is_sink(f, i)
            if s:
                sinks.append((f, i, s))
    ctx.counters["sink_sites_in_scope"] = len(sinks)
    ctx.floor("sink_sites_in_scope", 6, "effect sinks reachable from the dry-aware run() methods")
    flows = {}

    def flow(f):
        if f.usr not in flows:
            flows[f.usr] = Flow(P, f, cg=cg)
            ctx.use(f)
        return flows[f.usr]

    def site_guarded(f, node):
        if isinstance(node, tuple):      # destructor element
            return dry_false(flow(f).guards(node[1:]) if False else frozenset()) if False else False
        return dry_false(flow(f).guards(node))

    # protected(F): every call site of F is guarded by !dry or inside a protected function.
    cand = set(scope)
    root_usrs = {f.usr for f in roots}
    changed = True
    while changed:
        changed = False
        for u in list(cand):
            if u in root_usrs:
                cand.discard(u)
                changed = True
                continue
            edges = [e for e in cg.inn.get(u, []) if e.src in scope]
            if not edges:
                cand.discard(u)
                changed = True
                continue
            for e in edges:
                src = P.fns[e.src]
                ok = (e.src in cand) or site_guarded(src, e.node)
                if not ok:
                    cand.discard(u)
                    changed = True
                    break
    protected = cand
    for f, i, s in sinks:
        own = short(f) if f.kind != "lambda" else "closure-in-" + short(P.fns.get(f.d.get("parentfn"), f))
        inst = "no-effect-when-dry:%s:%s" % (s.replace("Oomd::", ""), own)
        if site_guarded(f, i):
            ctx.ok(inst, "guarded_by", f.loc(i), "%s is dominated by dry == false" % s)
        elif f.usr in protected:
            ctx.ok(inst, "guarded_by(transitive)", f.loc(i),
                   "%s lies in a function reachable only through dry == false call sites" % s)
        else:
            # witness: an unguarded chain from a root
            chain = None
            for r in roots:
                p = cg.path(r.usr, f.usr)
                if p:
                    chain = ["%s -> %s at %s" % (P.fns[e.src].pq, P.fns[e.dst].pq,
                                                 P.fns[e.src].loc(e.node) if isinstance(e.node, int) else "scope exit")
                             for e in p]
                    break
            ctx.violation(inst, "guarded_by", f.loc(i),
                          "%s can execute in dry-run mode: the call is not dominated by dry == false and its "
                          "function is reachable through call sites that are not either" % s, chain)

    # the dry parameter is the plugin's dry_ field
    for f in P.fns.values():
        for i in f.calls("BaseKillPlugin::tryToKillCgroup"):
            a = f.nodes[i]["args"]
            ctx.count("tryToKillCgroup_calls")
            ctx.check(len(a) >= 3 and f.text(a[2]) == "this->dry_", "dry-param-is-dry-field:" + short(f), "provenance",
                      f.loc(i), "tryToKillCgroup receives dry_", "tryToKillCgroup receives " + (f.text(a[2]) if len(a) >= 3 else "?"))
    ctx.floor("tryToKillCgroup_calls", 1, "tryToKillCgroup call sites")

    # dry branch reports success like a wet kill
    tkc = ctx.fn1("Oomd::BaseKillPlugin::tryToKillCgroup")
    fl = flow(tkc)
    dry_rets = [r for r in returns(tkc) if ("dry", True) in fl.guards(r)]
    ctx.check(len(dry_rets) == 1 and tkc.text(tkc.nodes[dry_rets[0]]["val"]).split("(")[-1].rstrip(")") in ("true", "1"),
              "dry-branch-reports-one-kill", "return_table", tkc.loc(dry_rets[0]) if dry_rets else tkc.loc(),
              "the dry branch returns a positive count (same control flow as a successful wet kill)",
              "the dry branch of tryToKillCgroup does not return a positive count")
    # nothing effectful before the dry test: every call preceding it is logging/clock/accessor
    for i in tkc.calls():
        g = fl.guards(i)
        if any(k == "dry" for k, p in g):
            continue
        s = is_sink(tkc, i)
        n = tkc.nodes[i]
        reach = [e.dst for e in cg.out.get(tkc.usr, []) if e.node == i]
        bad = s or any(any(is_sink(P.fns[u], j) for j in P.fns[u].calls()) for d in reach for u in cg.reach([d]))
        if bad:
            ctx.violation("effect-before-dry-test:tryToKillCgroup", "guarded_by", tkc.loc(i),
                          "%s runs before the dry flag is tested" % tkc.text(i)[:60])
    ctx.ok("nothing-before-dry-test:tryToKillCgroup", "guarded_by", tkc.loc(), "no effectful call precedes the dry test")

    # ---- dry-read table
    n_reads = 0
    for f in P.fns.values():
        cls_ok = "BaseKillPlugin" in f.qname or "SystemdRestart" in f.qname or re.search(r"Oomd::Kill\w+", f.qname)
        for i, n in enumerate(f.nodes):
            is_read = (n["k"] == "member" and n.get("qname", "").endswith(("BaseKillPlugin::dry_", "::dry_")) and
                       ("BaseKillPlugin" in n.get("qname", "") or "SystemdRestart" in n.get("qname", ""))) or \
                      (n["k"] == "ref" and n["name"] == "dry" and n.get("dk") == "param" and "BaseKillPlugin" in f.qname)
            if not is_read:
                continue
            n_reads += 1
            ctx.use(f)
            kind = classify_read(f, i)
            owner = f
            while owner.kind == "lambda" and owner.d.get("parentfn") in P.fns:
                owner = P.fns[owner.d["parentfn"]]
            key = None
            for (fn_sfx, kd), why in DRY_READS.items():
                if owner.pq.endswith(fn_sfx) and kd == kind:
                    key = (fn_sfx, kd)
            if key:
                ctx.ok("dry-read:%s:%s" % key, "frozen-table", f.loc(i), DRY_READS[key])
            else:
                ctx.violation("dry-read:%s:%s" % (short(owner), kind), "frozen-table", f.loc(i),
                              "the dry flag is read in a place outside the audited table (it could influence "
                              "victim selection or the returned PluginRet)")
    ctx.counters["dry_reads"] = n_reads
    ctx.floor("dry_reads", 6, "reads of the dry flag")
    ctx.tables["dry_reads_allowed"] = {"%s/%s" % k: v for k, v in DRY_READS.items()}

    # ---- decision and control flow do not depend on dry
    krun = ctx.fn1("Oomd::BaseKillPlugin::run")
    fk = flow(krun)
    for r in returns(krun):
        g = fk.guards(r)
        ctx.check(not any("dry" in k for k, p in g), "run-return-independent-of-dry:" + str(ret_const(krun, r)),
                  "guarded_by", krun.loc(r), "the returned PluginRet does not depend on dry",
                  "BaseKillPlugin::run's return is conditioned on the dry flag")
    for i in krun.calls("Ruleset::pause_actions"):
        ctx.check(not any("dry" in k for k, p in fk.guards(i)), "pause-independent-of-dry", "guarded_by", krun.loc(i),
                  "the ruleset pause does not depend on dry", "pause_actions is conditioned on the dry flag")
    rts = ctx.fn1("Oomd::BaseKillPlugin::resumeTryingToKillSomething")
    fr = flow(rts)
    for i in rts.calls("tryToLogAndKillCgroup", "firePrekillHook", "rankForKilling", "addChildrenToCacheAndGet"):
        ctx.check(not any("dry" in k for k, p in fr.guards(i)), "selection-independent-of-dry:" + rts.nodes[i]["cname"],
                  "guarded_by", rts.loc(i), "victim selection does not depend on dry",
                  "victim selection step is conditioned on the dry flag")
    # ---- '(dry)' mark
    tlk = ctx.fn1("Oomd::BaseKillPlugin::tryToLogAndKillCgroup")
    marks = [i for i in tlk.all("cond") if "dry_" in tlk.text(tlk.nodes[i]["c"]) and tlk.text(tlk.nodes[i]["t"]) == '"(dry)"'
             and tlk.text(tlk.nodes[i]["f"]) == '""']
    ctx.check(len(marks) >= 1, "dry-mark-in-kill-record", "value-shape", tlk.loc(marks[0]) if marks else tlk.loc(),
              "the kill record is marked '(dry)' exactly in dry mode", "no (dry_ ? \"(dry)\" : \"\") selection in the kill record")
    for f in ctx.fns("Oomd::SystemdRestart::run"):
        fs = flow(f)
        for r in returns(f):
            if ret_const(f, r) != "STOP":
                continue     # CONTINUE needs a failed (hence wet) restart; dry always "succeeds"
            ctx.check(not any("dry" in k for k, p in fs.guards(r)), "restart-return-independent-of-dry:" + str(ret_const(f, r)),
                      "guarded_by", f.loc(r), "SystemdRestart's return does not depend on dry",
                      "SystemdRestart::run's return is conditioned on dry")
        for i in f.calls("restartService"):
            ctx.check(dry_false(fs.guards(i)), "restart-only-when-wet", "guarded_by", f.loc(i),
                      "the D-Bus restart is issued only when not dry", "restartService reachable in dry mode")
