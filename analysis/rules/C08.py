"""C08 Detector predicates: window typestate and comparison polarity (DESIGN 4/C08)."""
import re
from .common import *

EXPLANATION = (
    "Decides the window typestate shared by pressure_above, pressure_rising_beyond and memory_above "
    "(sibling agreement against one template) and the polarity/strictness of all seven detectors: the "
    "window condition is 'watched value > threshold' (strict); on its false edge the start time is "
    "reset to the epoch on every path (one non-exceeding sample re-arms); on its true edge the start "
    "time is written only while it is the epoch and only with 'now' (steady clock); CONTINUE is "
    "dominated by the window condition and by floor(seconds(now - start)) >= duration, every other "
    "return is STOP, and every return has either passed the window condition of this tick or reset "
    "the start time itself (no tick leaves a stale start time behind); pressure_rising_beyond additionally requires the 10 s value above threshold and "
    "not below last*fast_fall_ratio, and records the last sample on every exit; memory_reclaim stamps "
    "'now' exactly when pgscan grew, continues iff the age is <= duration and records pgscan on every "
    "exit; swap_free / exists / nr_dying_descendants return CONTINUE exactly under their documented "
    "comparison; with several cgroups memory_above keeps the largest usage.  The truth of a predicate "
    "over a concrete sample history and the weighted choice of the 'most pressured' cgroup are value "
    "clauses and not decided.")
RULE_SUMMARY = "E-PATH window typestate (guard dominance, passed-edge must-follow), return tables, sibling agreement across three detectors"
NOT_DECIDED = ["truth of each predicate over a concrete sample history", "which cgroup is 'under the most pressure' (weighted numeric comparison)"]
ASSUMPTIONS = ["steady_clock is monotonic", "duration_cast<seconds> floors"]

EPOCH = "std::chrono::steady_clock::time_point()"


def window_rules(ctx, f, watched, thr="this->threshold_", who=""):
    P, cg = ctx.prog, ctx.cg
    ctx.anchor(f, "now", "diff")
    key = "(%s < %s)" % (thr, watched)          # watched > threshold, strict
    fl = Flow(P, f, cg=cg)
    # the condition exists as a branch
    keys = set()
    for b in f.cfg:
        for j in range(len(b["succ"])):
            for k, p in fl.edge_facts(b["id"], j):
                keys.add(k)
    ctx.check(key in keys, who + ":window-condition-strict", "guard-shape", f.loc(),
              "window condition is '%s > threshold' (strict)" % watched,
              "no branch on '%s > %s' (strict): found %s" % (watched, thr, sorted(k for k in keys if "threshold_" in k)))
    hw = field_writes(f, "hit_thres_at_")
    resets = [w for w in hw if f.text(write_rhs(f, w)).endswith("time_point()")]
    arms = [w for w in hw if w not in resets]
    ctx.count("window_writes", len(hw))
    for w in resets:
        g = fl.guards(w)
        ctx.check((key, False) in g, who + ":reset-only-when-not-exceeding", "guarded_by", f.loc(w), "start time reset only on the not-exceeding edge",
                  "hit_thres_at_ is reset under %s" % sorted(g, key=str))
    for w in arms:
        g = fl.guards(w)
        armed_guard = any(p is True and re.match(r"^\((this->hit_thres_at_ == .*time_point\(\)|.*time_point\(\) == this->hit_thres_at_)\)$", k) for k, p in g)
        ctx.check((key, True) in g and armed_guard and f.text(write_rhs(f, w)) == "now", who + ":arm-once-with-now", "guarded_by", f.loc(w),
                  "start time is set to 'now' only when exceeding and not yet armed", "hit_thres_at_ written with '%s' under %s" % (f.text(write_rhs(f, w)), sorted(g, key=str)))
    # every path that took the not-exceeding edge resets before leaving
    ev = {w: [("clear", "needs-reset")] for w in resets}
    fe = Flow(P, f, events=ev, cg=cg, edge_tokens=lambda k, p: ["needs-reset"] if (k == key and p is False) else None)
    bad = []
    for kind, node, b, parts in fe.exits():
        for st in parts.values():
            if "needs-reset" in st.may:
                bad.append(f.loc(node) if node is not None else kind)
    ctx.check(bool(resets) and not bad, who + ":one-low-sample-rearms", "must_follow", f.loc(resets[0]) if resets else f.loc(),
              "a single non-exceeding sample resets the duration clock on every path", "a non-exceeding sample can leave the start time armed (%s)" % ", ".join(sorted(set(bad))) if resets else "no reset of hit_thres_at_ at all")
    # every exit has classified this tick's sample: it passed the window condition (either way) or reset the clock itself
    ev2 = {w: [("set", "classified")] for w in resets}
    fc = Flow(P, f, events=ev2, cg=cg, edge_tokens=lambda k, p: ["classified"] if k == key else None)
    bad = []
    for kind, node, b, parts in fc.exits():
        if kind not in ("return", "fallthrough"):
            continue
        if not all("classified" in st.must for st in parts.values()):
            bad.append(f.loc(node) if node is not None else kind)
    ctx.check(not bad, who + ":every-tick-classifies-the-sample", "must_pass_through", bad[0] if bad else f.loc(),
              "every return has compared this tick's value with the threshold (or reset the clock): no tick leaves a stale start time behind",
              "run() can return at %s without comparing the watched value with the threshold and without resetting hit_thres_at_: a tick without "
              "an exceeding sample does not restart the duration clock" % ", ".join(sorted(set(bad))))
    # now / diff
    init, v = local_init(f, "now")
    ctx.check(v is not None and f.text(init) == "std::chrono::steady_clock::now()", who + ":now-is-steady-clock", "value-shape", f.loc(), "now = steady_clock::now()", "now = " + (f.text(init) if v else "?"))
    init, v = local_init(f, "diff")
    secs = False
    if v is not None:
        for x in f.walk(init):
            nn = f.nodes[x]
            if nn["k"] == "call" and nn.get("cname") == "duration_cast":
                ty = nn.get("type", "").replace(" ", "")
                # duration<long> == duration<long, ratio<1,1>> == seconds
                secs = "seconds" in ty or ty.endswith("std::chrono::duration<long>>") or ty in ("std::chrono::duration<long>", "std::chrono::duration<long,std::ratio<1,1>>")
    ctx.check(v is not None and re.match(r"^std::chrono::duration_cast\(\(now - this->hit_thres_at_\)\)\.count\(\)$", f.text(init)) is not None and secs,
              who + ":age-in-whole-seconds", "value-shape", f.loc(), "age = duration_cast<seconds>(now - start).count()", "age = " + (f.text(init) if v else "?"))
    return fl, key


def recorded_on_every_exit(ctx, f, fld, src):
    """fld = src is executed on every path to a return: by a scope guard armed on that path or by a direct assignment."""
    P, cg = ctx.prog, ctx.cg
    ev, texts = {}, []
    lam = {l.usr: l for l in P.lambdas_in(f) if field_writes(l, fld)}
    for l in lam.values():
        texts += [l.text(write_rhs(l, w)) for w in field_writes(l, fld)]
    for e_ in cg.out.get(f.usr, ()):
        if e_.kind == "scope-exit" and e_.dst in lam:
            pass
    for d in f.all("decl"):
        for v in f.nodes[d].get("vars", []):
            if "ScopeGuard" in v.get("type", "") and any(x in lam for x in [f.nodes[y].get("usr") for y in f.walk(v.get("init", -1)) if v.get("init", -1) is not None and v.get("init", -1) >= 0] if x):
                ev.setdefault(d, []).append(("set", "recorded"))
    if not ev:
        # fall back: any scope guard declaration when exactly the guard's closure writes the field
        for d in f.all("decl"):
            if lam and any("ScopeGuard" in v.get("type", "") for v in f.nodes[d].get("vars", [])):
                ev.setdefault(d, []).append(("set", "recorded"))
    for w in field_writes(f, fld):
        texts.append(f.text(write_rhs(f, w)))
        ev.setdefault(w, []).append(("set", "recorded"))
    fl = Flow(P, f, events=ev, cg=cg)
    allexits = all(all("recorded" in st.must for st in e[3].values()) for e in fl.exits() if e[0] in ("return", "fallthrough"))
    return bool(texts) and all(t == src for t in texts) and allexits, texts


def run(ctx):
    P, cg = ctx.prog, ctx.cg
    # ------------------------------------------------ the three windowed detectors
    pa = ctx.fn1("Oomd::PressureAbove::run")
    prb = ctx.fn1("Oomd::PressureRisingBeyond::run")
    ma = ctx.fn1("Oomd::MemoryAbove::run")
    for f, watched, who in ((pa, "current_pressure.sec_10", "pressure_above"), (ma, "current_memory_usage", "memory_above")):
        ctx.anchor(f, *watched.split(".")[:1])
        fl, key = window_rules(ctx, f, watched, who=who)
        seen = set()
        for r in returns(f):
            c = ret_const(f, r)
            g = fl.guards(r)
            seen.add(c)
            if c == "CONTINUE":
                ok = (key, True) in g and any(k in ("(diff < this->duration_)",) and p is False for k, p in g)
                ctx.check(ok, who + ":CONTINUE-iff-window-full", "return_table", f.loc(r), "CONTINUE only while exceeding and age >= duration",
                          "CONTINUE returned under %s" % sorted(g, key=str))
            else:
                ctx.check(c == "STOP", who + ":otherwise-STOP", "return_table", f.loc(r), "otherwise STOP", "returns " + str(c))
        ctx.check(seen == {"CONTINUE", "STOP"}, who + ":return-values", "return_table", f.loc(), "returns CONTINUE or STOP", "returns " + str(sorted(map(str, seen))))
    ctx.anchor(prb, "current_pressure", "pressure_duration_met_60s", "above_threshold_10s", "falling_rapidly_10s")
    fl, key = window_rules(ctx, prb, "current_pressure.sec_60", who="pressure_rising_beyond")
    for w in local_writes(prb, "pressure_duration_met_60s"):
        g = fl.guards(w)
        ctx.check(prb.text(write_rhs(prb, w)) == "true" and (key, True) in g and any(k == "(diff < this->duration_)" and p is False for k, p in g),
                  "pressure_rising_beyond:window-flag", "guarded_by", prb.loc(w), "the 60 s window flag is set only while exceeding and age >= duration", "window flag set under %s" % sorted(g, key=str))
    init, v = local_init(prb, "pressure_duration_met_60s")
    ctx.check(v is not None and prb.text(init) == "false", "pressure_rising_beyond:window-flag-init", "vardecl", prb.loc(), "window flag starts false", "window flag starts " + (prb.text(init) if v else "?"))
    init, v = local_init(prb, "above_threshold_10s")
    ctx.check(v is not None and prb.text(init) == "(current_pressure.sec_10 > this->threshold_)", "pressure_rising_beyond:10s-above", "value-shape", prb.loc(), "10 s level must be strictly above threshold",
              "above_threshold_10s = " + (prb.text(init) if v else "?"))
    init, v = local_init(prb, "falling_rapidly_10s")
    ctx.check(v is not None and prb.text(init) == "(current_pressure.sec_10 < (this->last_pressure_.sec_10 * this->fast_fall_ratio_))", "pressure_rising_beyond:fast-fall", "value-shape", prb.loc(),
              "falling fast = sec_10 < last.sec_10 * fast_fall_ratio", "falling_rapidly_10s = " + (prb.text(init) if v else "?"))
    fl2 = Flow(P, prb, cg=cg)
    for r in returns(prb):
        c = ret_const(prb, r)
        g = fl2.guards(r)
        if c == "CONTINUE":
            ctx.check(("pressure_duration_met_60s", True) in g and ("above_threshold_10s", True) in g and ("falling_rapidly_10s", False) in g,
                      "pressure_rising_beyond:CONTINUE-iff-all-three", "return_table", prb.loc(r), "CONTINUE iff window full, 10 s above threshold and not falling fast",
                      "CONTINUE returned under %s" % sorted((k, p) for k, p in g if "10s" in k or "60s" in k))
        else:
            ctx.check(c == "STOP", "pressure_rising_beyond:otherwise-STOP", "return_table", prb.loc(r), "otherwise STOP", "returns " + str(c))
    # last sample recorded on every exit (scope guard)
    for f, fld, src, who in ((prb, "last_pressure_", "current_pressure", "pressure_rising_beyond"), (pa, "last_pressure_", "current_pressure", "pressure_above")):
        lam = [l for l in P.lambdas_in(f) if field_writes(l, fld)]
        ok = False
        for e_ in cg.out.get(f.usr, ()):
            if e_.kind == "scope-exit" and any(l.usr == e_.dst for l in lam):
                ok = True
        texts = [l.text(write_rhs(l, w)) for l in lam for w in field_writes(l, fld)]
        if f is prb:
            okr, texts = recorded_on_every_exit(ctx, f, fld, src)
            ctx.check(okr, who + ":last-sample-recorded-on-every-exit", "must_follow", f.loc(), "the last sample is recorded on every exit",
                      "last_pressure_ is not updated on every exit (writes: %s)" % texts)
            # the fast-fall test reads the PREVIOUS sample: the guard runs at exit, after the test
    # ------------------------------------------------ memory_reclaim
    mr = ctx.fn1("Oomd::MemoryReclaim::run")
    ctx.anchor(mr, "pgscan", "now", "diff")
    fm = Flow(P, mr, cg=cg)
    stamps = field_writes(mr, "last_reclaim_at_")
    gk = "(this->last_pgscan_ < pgscan)"
    for w in stamps:
        g = fm.guards(w)
        ctx.check((gk, True) in g and mr.text(write_rhs(mr, w)) == "now", "memory_reclaim:stamp-iff-pgscan-grew", "guarded_by", mr.loc(w), "reclaim time is stamped only when pgscan grew (strictly)",
                  "last_reclaim_at_ written under %s" % sorted(g, key=str))
    init, v = local_init(mr, "diff")
    fe = Flow(P, mr, events={w: [("set", "stamped")] for w in stamps}, cg=cg, edge_tokens=lambda k, p: ["grew"] if (k == gk and p is True) else None)
    di = [d for d in mr.all("decl") if any(vv["name"] == "diff" for vv in mr.nodes[d].get("vars", []))]
    okm = bool(stamps) and bool(di)
    for d in di:
        for st in (fe.at(d) or {}).values():
            if "grew" in st.may and "stamped" not in st.must and "grew" in st.must:
                okm = False
    ctx.check(okm, "memory_reclaim:growth-always-stamps", "must_follow", mr.loc(), "growth of pgscan always updates the reclaim time before the age is computed", "pgscan growth can be missed")
    ctx.check(v is not None and re.match(r"^std::chrono::duration_cast\(\(now - this->last_reclaim_at_\)\)\.count\(\)$", mr.text(init)) is not None, "memory_reclaim:age", "value-shape", mr.loc(),
              "age = seconds(now - last_reclaim_at_)", "age = " + (mr.text(init) if v else "?"))
    for r in returns(mr):
        c = ret_const(mr, r)
        g = fm.guards(r)
        le = any(k == "(this->duration_ < diff)" and p is False for k, p in g)
        gt = any(k == "(this->duration_ < diff)" and p is True for k, p in g)
        ctx.check((c == "CONTINUE" and le) or (c == "STOP" and gt), "memory_reclaim:return-table:" + str(c), "return_table", mr.loc(r), "CONTINUE iff age <= duration", "%s returned under %s" % (c, sorted(g, key=str)))
    okr, texts = recorded_on_every_exit(ctx, mr, "last_pgscan_", "pgscan")
    ctx.check(okr, "memory_reclaim:pgscan-recorded-on-every-exit", "must_follow", mr.loc(), "the pgscan sum is recorded on every exit",
              "last_pgscan_ is not set to this tick's sum on every exit (writes: %s): it stops being the previous tick's value, so 'pgscan grew' is "
              "judged against an older sample" % texts)
    # a direct assignment must come after the growth comparison (a scope guard runs at exit anyway)
    for w in field_writes(mr, "last_pgscan_"):
        cmpn = [i for i, n_ in enumerate(mr.nodes) if n_["k"] == "bin" and n_.get("op") in ("<", ">") and "last_pgscan_" in mr.text(i) and mr.pos_of(i) is not None]
        fo = Flow(P, mr, events={c: [("set", "compared")] for c in cmpn}, cg=cg)
        ctx.check(bool(cmpn) and fo.must(w, "compared"), "memory_reclaim:record-after-comparison", "order", mr.loc(w), "the previous sample is overwritten only after it was compared",
                  "last_pgscan_ is overwritten before the growth comparison reads it")
    # the comparison uses the previous sample: the scope guard is armed before the comparison but runs at exit
    for l in loop_over(mr, "cgroups_"):
        sums = local_writes(mr, "pgscan")
        ctx.check(all(mr.nodes[w].get("op") == "+=" for w in sums) and bool(sums), "memory_reclaim:pgscan-sum", "value-shape", mr.loc(), "pgscan is summed over the cgroups", "pgscan is not a sum")
    # ------------------------------------------------ swap_free
    sf = ctx.fn1("Oomd::SwapFree::run")
    ctx.anchor(sf, "swaptotal", "swapused", "swapthres", "system_ctx")
    fs_ = Flow(P, sf, cg=cg)
    init, v = local_init(sf, "swapthres")
    ctx.check(v is not None and sf.text(init) == "((swaptotal * this->threshold_pct_) / 100)", "swap_free:threshold", "value-shape", sf.loc(), "threshold = total * pct / 100", "swapthres = " + (sf.text(init) if v else "?"))
    for r in returns(sf):
        c = ret_const(sf, r)
        g = fs_.guards(r)
        low = any(k == "((swaptotal - swapused) < swapthres)" and p is True for k, p in g)
        rate = any(k == "(system_ctx.swapout_bps < this->swapout_bps_threshold_)" and p is False for k, p in g)
        if c == "CONTINUE":
            ctx.check(low and rate, "swap_free:CONTINUE-iff-low-and-swapping", "return_table", sf.loc(r), "CONTINUE iff free < threshold (strict) and swap-out rate >= its threshold", "CONTINUE under %s" % sorted(g, key=str))
        else:
            ctx.check(c == "STOP" and not (low and rate), "swap_free:otherwise-STOP", "return_table", sf.loc(r), "otherwise STOP", "%s under %s" % (c, sorted(g, key=str)))
    # ------------------------------------------------ exists
    ex = ctx.fn1("Oomd::Exists::run")
    ctx.anchor(ex, "exists")
    fx = Flow(P, ex, cg=cg)
    ws = local_writes(ex, "exists")
    t = sorted(ex.text(write_rhs(ex, w)) for w in ws)
    ctx.check(t == ["!exists", "true"], "exists:flag-writes", "value-shape", ex.loc(), "exists is set on a match and negated once when configured", "exists written with " + str(t))
    for w in ws:
        g = fx.guards(w)
        rhs = ex.text(write_rhs(ex, w))
        if rhs == "true":
            ctx.check(any(p is True and "resolveWildcard().size()" in k for k, p in g), "exists:true-iff-some-match", "guarded_by", ex.loc(w), "set when some pattern resolves to an existing cgroup", "set under %s" % sorted(g, key=str))
        else:
            ctx.check(("this->negate_", True) in g, "exists:negate", "guarded_by", ex.loc(w), "negated only with 'negate'", "negated under %s" % sorted(g, key=str))
    for r in returns(ex):
        c = ret_const(ex, r)
        g = fx.guards(r)
        ctx.check((c == "CONTINUE" and ("exists", True) in g) or (c == "STOP" and ("exists", False) in g), "exists:return-table:" + str(c), "return_table", ex.loc(r), "CONTINUE iff (exists xor negate)",
                  "%s under %s" % (c, sorted(g, key=str)))
    # ------------------------------------------------ nr_dying_descendants
    nd = ctx.fn1("Oomd::NrDyingDescendants::run")
    fn_ = Flow(P, nd, cg=cg)
    for r in returns(nd):
        c = ret_const(nd, r)
        g = fn_.guards(r)
        if c == "CONTINUE":
            comp = [k for k, p in g if p is True and "lte_" in k and "count_" in k]
            V = r"(\*\w+|\w+\.value\(\)|\w+)"
            forms = (r"^\(\(this->lte_ && \(%s <= this->count_\)\) \|\| \(!this->lte_ && \(%s > this->count_\)\)\)$" % (V, V),
                     r"^\(this->lte_ \? \(%s <= this->count_\) : \(%s > this->count_\)\)$" % (V, V))
            ok_cmp = len(comp) == 1 and any(re.match(fm, comp[0]) for fm in forms)
            ctx.check(ok_cmp, "nr_dying_descendants:comparison", "return_table", nd.loc(r), "CONTINUE iff (lte ? nr <= count : nr > count) for some cgroup", "CONTINUE under %s" % comp)
            # a cgroup whose statistic is unavailable is no match: the compared value is an optional that was tested, not a default
            avail = any(p is True and (k.endswith("nr_dying_descendants(nullptr)") or re.match(r"^\w+(\.has_value\(\))?$", k)) for k, p in g if "lte_" not in k)
            defaulted = any("value_or(" in nd.text(x) for x in range(len(nd.nodes)) if nd.nodes[x]["k"] == "call" and nd.nodes[x].get("cname") == "value_or")
            ctx.check(avail and not defaulted, "nr_dying_descendants:unavailable-is-no-match", "guarded_by", nd.loc(r),
                      "the count is compared only where it could be read",
                      "the count is compared although it may be unavailable (a default stands in for it): with lte a cgroup whose cgroup.stat cannot be read "
                      "counts as 0 dying descendants and matches")
        else:
            ctx.check(c == "STOP", "nr_dying_descendants:otherwise-STOP", "return_table", nd.loc(r), "otherwise STOP", "returns " + str(c))
    # ------------------------------------------------ watched value of memory_above: the largest usage
    ctx.anchor(ma, "usage", "current_memory_usage")
    fma = Flow(P, ma, cg=cg)
    for w in local_writes(ma, "current_memory_usage"):
        g = fma.guards(w)
        ctx.check(ma.text(write_rhs(ma, w)) == "usage" and ("(current_memory_usage < usage)", True) in g, "memory_above:largest-usage", "guarded_by", ma.loc(w), "the watched value is the largest usage among the cgroups",
                  "current_memory_usage written under %s" % sorted(g, key=str))
    init, v = local_init(ma, "usage")
    ctx.check(v is not None and ma.text(init) == "(this->is_anon_ ? cgroup_ctx.anon_usage(nullptr).value_or(0) : cgroup_ctx.current_usage(nullptr).value_or(0))", "memory_above:usage-source", "value-shape", ma.loc(),
              "usage is anon or total usage as configured", "usage = " + (ma.text(init) if v else "?"))
    ctx.floor("window_writes", 6, "writes of hit_thres_at_ in the three windowed detectors")
