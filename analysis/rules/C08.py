"""C08 Detector predicates: window typestate and comparison polarity (DESIGN 4/C08)."""
import re
from .common import *

EXPLANATION = (
    "Decides the window typestate shared by pressure_above, pressure_rising_beyond and memory_above "
    "(sibling agreement against one template) and the polarity/strictness of all seven detectors: the "
    "window condition is 'watched value > threshold' (strict); on its false edge the start time is "
    "reset to the epoch on every path (one non-exceeding sample re-arms); on its true edge the start "
    "time is written only while it is the epoch and only with 'now' (steady clock); CONTINUE is "
    "dominated by the window condition and by floor(seconds(now - start)) >= duration, every other "
    "return is STOP, and every return has either passed the window condition of this tick or reset "
    "the start time itself (no tick leaves a stale start time behind); pressure_rising_beyond additionally requires the 10 s value above threshold and "
    "not below last*fast_fall_ratio, and records the last sample on every exit; memory_reclaim stamps "
    "'now' exactly when pgscan grew, continues iff the age is <= duration and records pgscan on every "
    "exit; swap_free / exists / nr_dying_descendants return CONTINUE exactly under their documented "
    "comparison; with several cgroups memory_above keeps the largest usage.  The truth of a predicate "
    "over a concrete sample history and the weighted choice of the 'most pressured' cgroup are value "
    "clauses and not decided.")
RULE_SUMMARY = "E-PATH window typestate (guard dominance, passed-edge must-follow), return tables, sibling agreement across three detectors"
NOT_DECIDED = ["truth of each predicate over a concrete sample history", "which cgroup is 'under the most pressure' (weighted numeric comparison)"]
ASSUMPTIONS = ["steady_clock is monotonic", "duration_cast<seconds> floors"]

EPOCH = "std::chrono::steady_clock::time_point()"


def time_roles(ctx, f, start_field, who):
    """(NOW, AGE): the local holding this tick's clock reading and the local holding the whole-second age of `start_field`.
    Found by what they are initialised with, not by name."""
    nows = locals_receiving(f, r"::now\(\)")
    if len(nows) != 1:
        raise AnalysisBroken("anchor: %s keeps the clock reading in %d locals %s; the window rules need exactly one" % (f.pq, len(nows), nows))
    NOW = nows[0]
    ages = locals_receiving(f, r"duration_cast\(\(%s - this->%s\)\)\.count\(\)" % (re.escape(NOW), re.escape(start_field)),
                            text=lambda n_: hoist_text(f, n_, ctx.prog))
    if len(ages) != 1:
        raise AnalysisBroken("anchor: %s keeps the age of %s in %d locals %s; the window rules need exactly one" % (f.pq, start_field, len(ages), ages))
    return NOW, ages[0]


def age_checks(ctx, f, NOW, AGE, start_field, who):
    init, v = local_init(f, NOW)
    ctx.check(v is not None and f.text(init) == "std::chrono::steady_clock::now()", who + ":now-is-steady-clock", "value-shape", f.loc(), "the clock reading is steady_clock::now()", "clock reading = " + (f.text(init) if v else "?"))
    init, v = local_init(f, AGE)
    secs = False
    if v is not None:
        for x in f.walk(init):
            nn = f.nodes[x]
            if nn["k"] == "call" and nn.get("cname") == "duration_cast":
                ty = nn.get("type", "").replace(" ", "")
                # duration<long> == duration<long, ratio<1,1>> == seconds
                secs = "seconds" in ty or ty.endswith("std::chrono::duration<long>>") or ty in ("std::chrono::duration<long>", "std::chrono::duration<long,std::ratio<1,1>>")
    ctx.check(v is not None and re.match(r"^std::chrono::duration_cast\(\(%s - this->%s\)\)\.count\(\)$" % (re.escape(NOW), re.escape(start_field)), hoist_text(f, init, ctx.prog)) is not None and secs,
              who + ":age-in-whole-seconds", "value-shape", f.loc(), "age = duration_cast<seconds>(now - start).count()", "age = " + (f.text(init) if v else "?"))


def window_rules(ctx, f, watched, thr="this->threshold_", who=""):
    """The arm / disarm typestate of hit_thres_at_ around the window condition `watched > threshold` (strict)."""
    P, cg = ctx.prog, ctx.cg
    NOW, AGE = time_roles(ctx, f, "hit_thres_at_", who)
    key = "(%s < %s)" % (thr, watched)          # watched > threshold, strict
    fl = Flow(P, f, cg=cg)
    # the condition exists as a branch
    keys = set()
    for b in f.cfg:
        for j in range(len(b["succ"])):
            for k, p in fl.edge_facts(b["id"], j):
                keys.add(k)
    ctx.check(key in keys, who + ":window-condition-strict", "guard-shape", f.loc(),
              "window condition is '%s > threshold' (strict)" % watched,
              "no branch on '%s > %s' (strict): found %s" % (watched, thr, sorted(k for k in keys if isinstance(k, str) and "threshold_" in k)))
    hw = field_writes(f, "hit_thres_at_")
    # a named epoch: `const steady_clock::time_point never_hit{};` - a time_point local that is default-constructed and never written
    epoch_names = set()
    for d_ in f.all("decl"):
        for v_ in f.nodes[d_].get("vars", []):
            if "time_point" in (v_.get("type") or "") and v_.get("init") is not None and v_.get("init", -1) >= 0 and not local_writes(f, v_["name"], must=False):
                in_ = f.nodes[f.strip(v_["init"])]
                if f.text(v_["init"]).endswith("time_point()") or (in_["k"] == "construct" and not in_.get("args")):
                    epoch_names.add(v_["name"])
    is_epoch = lambda t_: t_.endswith("time_point()") or t_ in epoch_names
    resets = [w for w in hw if is_epoch(f.text(write_rhs(f, w)))]
    arms = [w for w in hw if w not in resets]
    ctx.count("window_writes", len(hw))
    for w in resets:
        g = fl.guards(w)
        ctx.check((key, False) in g, who + ":reset-only-when-not-exceeding", "guarded_by", f.loc(w), "start time reset only on the not-exceeding edge",
                  "hit_thres_at_ is reset under %s" % sorted(g, key=str))
    for w in arms:
        g = fl.guards(w)
        armed_guard = any(p is True and (re.match(r"^\((this->hit_thres_at_ == .*time_point\(\)|.*time_point\(\) == this->hit_thres_at_)\)$", k) or
                                         any(k in ("(this->hit_thres_at_ == %s)" % e_, "(%s == this->hit_thres_at_)" % e_) for e_ in epoch_names)) for k, p in g if isinstance(k, str))
        ctx.check((key, True) in g and armed_guard and f.text(write_rhs(f, w)) == NOW, who + ":arm-once-with-now", "guarded_by", f.loc(w),
                  "start time is set to this tick's clock reading only when exceeding and not yet armed", "hit_thres_at_ written with '%s' under %s" % (f.text(write_rhs(f, w)), sorted(g, key=str)))
    # every path that took the not-exceeding edge resets before leaving
    ev = {w: [("clear", "needs-reset")] for w in resets}
    fe = Flow(P, f, events=ev, cg=cg, edge_tokens=lambda k, p: ["needs-reset"] if (k == key and p is False) else None)
    bad = []
    for kind, node, b, parts in fe.exits():
        for st in parts.values():
            if "needs-reset" in st.may:
                bad.append(f.loc(node) if node is not None else kind)
    ctx.check(bool(resets) and not bad, who + ":one-low-sample-rearms", "must_follow", f.loc(resets[0]) if resets else f.loc(),
              "a single non-exceeding sample resets the duration clock on every path", "a non-exceeding sample can leave the start time armed (%s)" % ", ".join(sorted(set(bad))) if resets else "no reset of hit_thres_at_ at all")
    # every exit has classified this tick's sample: it passed the window condition (either way) or reset the clock itself
    ev2 = {w: [("set", "classified")] for w in resets}
    fc = Flow(P, f, events=ev2, cg=cg, edge_tokens=lambda k, p: ["classified"] if k == key else None)
    bad = []
    for kind, node, b, parts in fc.exits():
        if kind not in ("return", "fallthrough"):
            continue
        if not all("classified" in st.must for st in parts.values()):
            bad.append(f.loc(node) if node is not None else kind)
    ctx.check(not bad, who + ":every-tick-classifies-the-sample", "must_pass_through", bad[0] if bad else f.loc(),
              "every return has compared this tick's value with the threshold (or reset the clock): no tick leaves a stale start time behind",
              "run() can return at %s without comparing the watched value with the threshold and without resetting hit_thres_at_: a tick without "
              "an exceeding sample does not restart the duration clock" % ", ".join(sorted(set(bad))))
    age_checks(ctx, f, NOW, AGE, "hit_thres_at_", who)
    return fl, key, AGE


def window_full(f, fl, g, key, AGE):
    """Do the facts `g` say 'exceeding now and age >= duration'?  Either directly, or through a boolean flag local every source of
    which is `false`, `true` under exactly those facts, or the age comparison itself under the exceeding fact."""
    agek = "(%s < this->duration_)" % AGE
    if (key, True) in g and (agek, False) in g:
        return True, "window condition and age test"
    AGE_TRUE = ("(%s >= this->duration_)" % AGE, "(this->duration_ <= %s)" % AGE, "!(%s < this->duration_)" % AGE)
    for k, p in g:
        if p is not True or not isinstance(k, str) or not re.match(r"^\w+$", k):
            continue
        init, v = local_init(f, k, must=False)
        if v is None or v.get("type", "").replace("const ", "") != "bool":
            continue
        srcs = []
        if init is not None and init >= 0:
            d = next((d_ for d_ in f.all("decl") if any(v_ is v or v_.get("decl") == v.get("decl") for v_ in f.nodes[d_].get("vars", []))), None)
            srcs.append((f.text(init), fl.guards(d) if d is not None and f.pos_of(d) is not None else []))
        for w in local_writes(f, k, must=False):
            srcs.append((f.text(write_rhs(f, w)), fl.guards(w)))
        ok, strong = True, False
        for rhs, gs in srcs:
            if rhs == "false":
                continue
            if rhs == "true" and (key, True) in gs and (agek, False) in gs:
                strong = True
            elif rhs in AGE_TRUE and (key, True) in gs:
                strong = True
            else:
                ok = False
        if ok and strong:
            return True, "flag " + k
    return False, ""


def recorded_on_every_exit(ctx, f, fld, src):
    """fld = src is executed on every path to a return: by a scope guard armed on that path or by a direct assignment."""
    P, cg = ctx.prog, ctx.cg
    ev, texts = {}, []
    lam = {l.usr: l for l in P.lambdas_in(f) if field_writes(l, fld)}
    for l in lam.values():
        texts += [l.text(write_rhs(l, w)) for w in field_writes(l, fld)]
    for e_ in cg.out.get(f.usr, ()):
        if e_.kind == "scope-exit" and e_.dst in lam:
            pass
    for d in f.all("decl"):
        for v in f.nodes[d].get("vars", []):
            if "ScopeGuard" in v.get("type", "") and any(x in lam for x in [f.nodes[y].get("lusr") or f.nodes[y].get("usr") for y in f.walk(v.get("init", -1)) if v.get("init", -1) is not None and v.get("init", -1) >= 0] if x):
                ev.setdefault(d, []).append(("set", "recorded"))
    if not ev:
        # fall back: any scope guard declaration when exactly the guard's closure writes the field
        for d in f.all("decl"):
            if lam and any("ScopeGuard" in v.get("type", "") for v in f.nodes[d].get("vars", [])):
                ev.setdefault(d, []).append(("set", "recorded"))
    for w in field_writes(f, fld):
        texts.append(f.text(write_rhs(f, w)))
        ev.setdefault(w, []).append(("set", "recorded"))
    fl = Flow(P, f, events=ev, cg=cg)
    allexits = all(all("recorded" in st.must for st in e[3].values()) for e in fl.exits() if e[0] in ("return", "fallthrough"))
    return bool(texts) and all(t == src for t in texts) and allexits, texts


def run(ctx):
    from .C15 import every_context_refreshed
    every_context_refreshed(ctx)
    from .C15 import refresh_keeps_nothing
    refresh_keeps_nothing(ctx)      # a detector judges this tick's sample: nothing a context remembers outlives refresh()
    from .C01 import configured_patterns
    configured_patterns(ctx)      # an empty list item must not become CgroupPath(fs, "") - the root cgroup - in a detector's watched set
    integer_text_is_decimal(ctx, "C08")
    from .C18 import every_resolved_cgroup_is_returned
    every_resolved_cgroup_is_returned(ctx, "C08")      # a detector reads an empty result as 'watched value 0'
    # a detector with a duration keeps its window in the plugin: it judges 'for N seconds' only if it is run on every tick
    detector_walk_every_tick(ctx, "C08")
    detector_group_runs_every_detector(ctx, "C08")
    from .C16 import resolve_rule
    resolve_rule(ctx)          # `exists` answers by what resolveWildcard returns: existing cgroup DIRECTORIES only
    percent_threshold_exact(ctx, "C08")
    # memory_above parses its threshold through it
    ma_init = ctx.fn1("Oomd::MemoryAbove::init")
    ctx.check(bool(ma_init.calls("Util::parseSizeOrPercent")) or any(l.calls("Util::parseSizeOrPercent") for l in ctx.prog.lambdas_in(ma_init)) or any("parseSizeOrPercent" in (f.callee(c) or "") for f in ctx.prog.fns.values() if f.file.endswith("MemoryAbove.cpp") for c in f.calls()), "memory_above:threshold-through-parseSizeOrPercent", "who-may-call", ma_init.loc(), "memory_above converts its threshold with Util::parseSizeOrPercent", "memory_above does not use Util::parseSizeOrPercent for its threshold")
    P, cg = ctx.prog, ctx.cg
    # ------------------------------------------------ the three windowed detectors
    pa = ctx.fn1("Oomd::PressureAbove::run")
    prb = ctx.fn1("Oomd::PressureRisingBeyond::run")
    ma = ctx.fn1("Oomd::MemoryAbove::run")

    def sample_local(f):
        """the function-level ResourcePressure local: this tick's sample (the per-cgroup one lives inside the loop)"""
        # the one that is recorded as 'last sample' when there is such a record, else the only one of that type
        rec = set()
        for g_ in [f] + list(P.lambdas_in(f)):
            for w_ in field_writes(g_, "last_pressure_"):
                t_ = g_.text(write_rhs(g_, w_))
                if re.match(r"^\w+$", t_):
                    rec.add(t_)
        if len(rec) == 1:
            return rec.pop()
        c = [n_ for n_, v_ in function_level_locals(f, r"(^|::)ResourcePressure( &)?$")]
        if len(c) != 1:
            raise AnalysisBroken("anchor: %s has %d function-level ResourcePressure locals %s; the rules need exactly one (this tick's sample)" % (f.pq, len(c), c))
        return c[0]

    def threshold_local(f):
        """the local that is compared with threshold_"""
        fl_ = Flow(P, f, cg=cg)
        c = set()
        for b_ in f.cfg:
            for j_ in range(len(b_["succ"])):
                for k_, p_ in fl_.edge_facts(b_["id"], j_):
                    m_ = re.match(r"^\((?:this->threshold_ < (\w+)|(\w+) < this->threshold_|(\w+) == this->threshold_|this->threshold_ == (\w+))\)$", k_) if isinstance(k_, str) else None
                    if m_:
                        c.add(next(x for x in m_.groups() if x))
        if len(c) != 1:
            raise AnalysisBroken("anchor: %s compares %d locals %s with threshold_; the rules need exactly one" % (f.pq, len(c), sorted(c)))
        return c.pop()
    PA_S = sample_local(pa)
    MA_W = threshold_local(ma)
    for f, watched, who in ((pa, PA_S + ".sec_10", "pressure_above"), (ma, MA_W, "memory_above")):
        fl, key, AGE = window_rules(ctx, f, watched, who=who)
        seen = set()
        for r, leaf, c in result_sites(f):
            g = fl.guards(leaf)
            seen.add(c)
            if c == "CONTINUE":
                ok, how = window_full(f, fl, g, key, AGE)
                ctx.check(ok, who + ":CONTINUE-iff-window-full", "return_table", f.loc(r), "CONTINUE only while exceeding and age >= duration",
                          "CONTINUE returned under %s" % sorted(g, key=str))
            else:
                ctx.check(c == "STOP", who + ":otherwise-STOP", "return_table", f.loc(r), "otherwise STOP", "returns " + str(c))
        ctx.check(seen == {"CONTINUE", "STOP"}, who + ":return-values", "return_table", f.loc(), "returns CONTINUE or STOP", "returns " + str(sorted(map(str, seen))))
    S = sample_local(prb)
    fl, key, AGE = window_rules(ctx, prb, S + ".sec_60", who="pressure_rising_beyond")
    K10 = "(this->threshold_ < %s.sec_10)" % S
    FALL = ("(%s.sec_10 < (this->last_pressure_.sec_10 * this->fast_fall_ratio_))" % S, "(%s.sec_10 < (this->fast_fall_ratio_ * this->last_pressure_.sec_10))" % S)
    fl2 = Flow(P, prb, cg=cg)
    for r, leaf, c in result_sites(prb):
        g = fl2.guards(leaf)
        if c == "CONTINUE":
            full, how = window_full(prb, fl2, g, key, AGE)
            ctx.check(full, "pressure_rising_beyond:window-flag", "guarded_by", prb.loc(r), "CONTINUE only with the 60 s value exceeding and age >= duration (directly or through a flag set exactly there)",
                      "CONTINUE does not depend on the 60 s window being full: guards %s" % sorted((k, p) for k, p in g if isinstance(p, bool)))
            above = (K10, True) in g
            notfalling = any((k_, False) in g for k_ in FALL)
            ctx.check(above, "pressure_rising_beyond:10s-above", "value-shape", prb.loc(r), "10 s level must be strictly above threshold",
                      "CONTINUE is not dominated by '%s.sec_10 > threshold_'" % S)
            ctx.check(notfalling, "pressure_rising_beyond:fast-fall", "value-shape", prb.loc(r),
                      "not falling fast: sec_10 >= last.sec_10 * fast_fall_ratio", "CONTINUE is not dominated by the negated fast-fall test sec_10 < last.sec_10 * fast_fall_ratio")
            ctx.check(full and above and notfalling,
                      "pressure_rising_beyond:CONTINUE-iff-all-three", "return_table", prb.loc(r), "CONTINUE iff window full, 10 s above threshold and not falling fast",
                      "CONTINUE returned under %s" % sorted((k, p) for k, p in g if isinstance(p, bool)))
        else:
            ctx.check(c == "STOP", "pressure_rising_beyond:otherwise-STOP", "return_table", prb.loc(r), "otherwise STOP", "returns " + str(c))
    # last sample recorded on every exit (scope guard or direct assignments)
    okr, texts = recorded_on_every_exit(ctx, prb, "last_pressure_", S)
    ctx.check(okr, "pressure_rising_beyond:last-sample-recorded-on-every-exit", "must_follow", prb.loc(), "the last sample is recorded on every exit",
              "last_pressure_ is not updated on every exit (writes: %s)" % texts)
    # the fast-fall test reads the PREVIOUS sample: a scope guard runs at exit, after the test; a direct assignment has to come after it
    cmpn = [i for i, n_ in enumerate(prb.nodes) if n_["k"] == "bin" and n_.get("op") in ("<", ">", "<=", ">=") and "last_pressure_" in prb.text(i) and prb.pos_of(i) is not None]
    for w in field_writes(prb, "last_pressure_"):
        fo = Flow(P, prb, events={c_: [("set", "compared")] for c_ in cmpn}, cg=cg)
        ctx.check(bool(cmpn) and fo.must(w, "compared"), "pressure_rising_beyond:record-after-fast-fall-test", "order", prb.loc(w), "the previous sample is overwritten only after the fast-fall test read it",
                  "last_pressure_ is overwritten before the fast-fall test reads it: the test compares the sample with itself")
    # ------------------------------------------------ memory_reclaim
    mr = ctx.fn1("Oomd::MemoryReclaim::run")
    NOW, AGE = time_roles(ctx, mr, "last_reclaim_at_", "memory_reclaim")
    # this tick's sum: the function-level integer local that is accumulated in the loop over the cgroups
    sums = [n_ for n_, v_ in function_level_locals(mr, r"^(const )?(int64_t|uint64_t|long|unsigned long|long long)$") if any(mr.nodes[w].get("op") == "+=" for w in local_writes(mr, n_, must=False))]
    if len(sums) != 1:
        raise AnalysisBroken("anchor: MemoryReclaim::run accumulates %d function-level integer locals %s; the rules need exactly one (the pgscan sum)" % (len(sums), sums))
    SUM = sums[0]
    fm = Flow(P, mr, cg=cg)
    stamps = field_writes(mr, "last_reclaim_at_")
    gk = "(this->last_pgscan_ < %s)" % SUM
    for w in stamps:
        g = fm.guards(w)
        ctx.check((gk, True) in g and mr.text(write_rhs(mr, w)) == NOW, "memory_reclaim:stamp-iff-pgscan-grew", "guarded_by", mr.loc(w), "reclaim time is stamped only when pgscan grew (strictly)",
                  "last_reclaim_at_ written under %s" % sorted(g, key=str))
    init, v = local_init(mr, AGE)
    fe = Flow(P, mr, events={w: [("set", "stamped")] for w in stamps}, cg=cg, edge_tokens=lambda k, p: ["grew"] if (k == gk and p is True) else None)
    di = [d for d in mr.all("decl") if any(vv["name"] == AGE for vv in mr.nodes[d].get("vars", []))]
    okm = bool(stamps) and bool(di)
    for d in di:
        for st in (fe.at(d) or {}).values():
            if "grew" in st.may and "stamped" not in st.must and "grew" in st.must:
                okm = False
    ctx.check(okm, "memory_reclaim:growth-always-stamps", "must_follow", mr.loc(), "growth of pgscan always updates the reclaim time before the age is computed", "pgscan growth can be missed")
    age_checks(ctx, mr, NOW, AGE, "last_reclaim_at_", "memory_reclaim")
    ctx.check(v is not None and re.match(r"^std::chrono::duration_cast\(\(%s - this->last_reclaim_at_\)\)\.count\(\)$" % re.escape(NOW), hoist_text(mr, init, P)) is not None, "memory_reclaim:age", "value-shape", mr.loc(),
              "age = seconds(now - last_reclaim_at_)", "age = " + (mr.text(init) if v else "?"))
    agek = "(this->duration_ < %s)" % AGE
    for r, leaf, c in result_sites(mr):
        g = fm.guards(leaf)
        le = (agek, False) in g
        gt = (agek, True) in g
        ctx.check((c == "CONTINUE" and le) or (c == "STOP" and gt), "memory_reclaim:return-table:" + str(c), "return_table", mr.loc(r), "CONTINUE iff age <= duration", "%s returned under %s" % (c, sorted(g, key=str)))
    okr, texts = recorded_on_every_exit(ctx, mr, "last_pgscan_", SUM)
    ctx.check(okr, "memory_reclaim:pgscan-recorded-on-every-exit", "must_follow", mr.loc(), "the pgscan sum is recorded on every exit",
              "last_pgscan_ is not set to this tick's sum on every exit (writes: %s): it stops being the previous tick's value, so 'pgscan grew' is "
              "judged against an older sample" % texts)
    # a direct assignment must come after the growth comparison (a scope guard runs at exit anyway)
    for w in field_writes(mr, "last_pgscan_"):
        cmpn = [i for i, n_ in enumerate(mr.nodes) if n_["k"] == "bin" and n_.get("op") in ("<", ">") and "last_pgscan_" in mr.text(i) and mr.pos_of(i) is not None]
        fo = Flow(P, mr, events={c: [("set", "compared")] for c in cmpn}, cg=cg)
        ctx.check(bool(cmpn) and fo.must(w, "compared"), "memory_reclaim:record-after-comparison", "order", mr.loc(w), "the previous sample is overwritten only after it was compared",
                  "last_pgscan_ is overwritten before the growth comparison reads it")
    for l in loop_over(mr, "cgroups_"):
        ws_ = local_writes(mr, SUM)
        ctx.check(all(mr.nodes[w].get("op") == "+=" for w in ws_) and bool(ws_), "memory_reclaim:pgscan-sum", "value-shape", mr.loc(), "pgscan is summed over the cgroups", "pgscan is not a sum")
    # ------------------------------------------------ swap_free: stated over what the locals hold (system context fields), not their names
    sf = ctx.fn1("Oomd::SwapFree::run")
    fs_ = Flow(P, sf, cg=cg)
    Xs = Expander(P, sf)
    SYS = r"param:\w+\.getSystemContext\(\)"
    LOW = re.compile(r"^\(\(%s\.swaptotal - %s\.swapused\) < \(\(%s\.swaptotal \* this->threshold_pct_\) / 100\)\)$" % (SYS, SYS, SYS))
    RATE = re.compile(r"^\(%s\.swapout_bps < this->swapout_bps_threshold_\)$" % SYS)
    n_low = 0
    for r, leaf, c in result_sites(sf):
        g = expanded_guards(P, sf, fs_, leaf, Xs)
        low = any(LOW.match(k) and p is True for k, p in g if isinstance(k, str))
        rate = any(RATE.match(k) and p is False for k, p in g if isinstance(k, str))
        if c == "CONTINUE":
            n_low += 1
            ctx.check(low and rate, "swap_free:CONTINUE-iff-low-and-swapping", "return_table", sf.loc(r), "CONTINUE iff free < total * pct / 100 (strict) and swap-out rate >= its threshold",
                      "CONTINUE under %s" % sorted(((k, p) for k, p in g if isinstance(k, str) and "param:" in k), key=str))
        else:
            ctx.check(c == "STOP" and not (low and rate), "swap_free:otherwise-STOP", "return_table", sf.loc(r), "otherwise STOP", "%s under %s" % (c, sorted(g, key=str)))
            # ... and a STOP is the documented predicate being false: it sits behind the negation of one of the two conjuncts, or behind a test
            # that does not read the sample at all (no swap configured).  An extra exit that looks at the used/free amount or the swap-out
            # rate decides the verdict by something other than the documented comparison.
            LOW_S = re.compile(LOW.pattern[1:-1])
            RATE_GE = re.compile(r"\(%s\.swapout_bps >= this->swapout_bps_threshold_\)" % SYS)
            # (the else-branch of `if (low && rate)` carries the whole conjunction with polarity False)
            neg = any(LOW_S.search(k) and p is False for k, p in g if isinstance(k, str)) or any(RATE.match(k) and p is True for k, p in g if isinstance(k, str)) \
                or any(RATE_GE.search(k) and p is False for k, p in g if isinstance(k, str))
            # ... or the guard-clause spelling: `if (free >= threshold || !(rate >= its threshold)) return STOP;`
            if not neg:
                NOT_LOW = re.compile(r"\(\(%s\.swaptotal - %s\.swapused\) >= \(\(%s\.swaptotal \* this->threshold_pct_\) / 100\)\)" % (SYS, SYS, SYS))
                NOT_RATE = re.compile(r"!\(%s\.swapout_bps >= this->swapout_bps_threshold_\)|\(%s\.swapout_bps < this->swapout_bps_threshold_\)" % (SYS, SYS))
                for k, p in g:
                    if isinstance(k, str) and p is True and " || " in k:
                        parts_ = [x.strip() for x in k.strip()[1:-1].split(" || ")] if k.startswith("(") and k.endswith(")") else []
                        if parts_ and all(NOT_LOW.fullmatch(x) or NOT_RATE.fullmatch(x) or re.fullmatch("!" + LOW.pattern[1:-1], x) for x in parts_):
                            neg = True
            if c == "STOP":
                reads = sorted({k for k, p in g if isinstance(k, str) and re.search(r"\.(swapused|swapout_bps)\b", k)})
                ctx.check(neg or not reads, "swap_free:verdict-only-by-the-documented-comparison", "return_table", sf.loc(r),
                          "a STOP outside the documented comparison does not depend on the sampled usage",
                          "STOP is returned under %s, which reads the sample but is not the negation of 'free < total * pct / 100' or of the swap-out "
                          "test: samples the documented predicate holds for (e.g. swap exactly full) are answered STOP" % "; ".join(reads)[:300])
    ctx.check(n_low >= 1, "swap_free:threshold", "value-shape", sf.loc(), "threshold = total * pct / 100 is what free swap is compared with", "swap_free has no CONTINUE return")
    # ------------------------------------------------ exists
    ex = ctx.fn1("Oomd::Exists::run")
    fx = Flow(P, ex, cg=cg)
    Xe = Expander(P, ex)
    # the match flag: the function-level bool that is set inside the loop over the patterns
    lps = loop_over(ex, "cgroups_")
    flags = []
    for n_, v_ in function_level_locals(ex, r"^(const )?bool$"):
        # lexically inside the loop statement (a write followed by break / goto is not part of the natural loop)
        if any(any(l["stmt"] in list(ex.ancestors(w)) for l in lps) for w in local_writes(ex, n_, must=False)):
            flags.append(n_)
    if len(flags) != 1 or len(lps) != 1:
        raise AnalysisBroken("anchor: Exists::run has %d loops over cgroups_ and %d bool flags written in it %s; the rules need one of each" % (len(lps), len(flags), flags))
    FL = flags[0]
    wk = loop_walk(ex, lps[0])
    init, v = local_init(ex, FL)
    ctx.check(v is not None and ex.text(init) == "false", "exists:flag-init", "vardecl", ex.loc(), "the match flag starts false", "match flag starts " + (ex.text(init) if v else "?"))
    ws = local_writes(ex, FL)
    inloop = [w for w in ws if any(l["stmt"] in list(ex.ancestors(w)) for l in lps)]
    after = [w for w in ws if w not in inloop]
    for w in inloop:
        g = fx.guards(w)
        el = wk["elem"] if wk else r"^\w+"
        matched = any(p is True and re.match(el, k) and re.search(r"(\.|->)resolveWildcard\(\)\.size\(\)$", k) for k, p in g) or \
            any(p is False and re.match(el, k) and re.search(r"(\.|->)resolveWildcard\(\)\.empty\(\)$", k) for k, p in g)
        ctx.check(ex.text(write_rhs(ex, w)) == "true" and matched, "exists:true-iff-some-match", "guarded_by", ex.loc(w), "set when some pattern resolves to an existing cgroup", "match flag written with %s under %s" % (ex.text(write_rhs(ex, w)), sorted(g, key=str)))
    # the decision: flag xor negate, as a flip of the flag under negate_ or as a value computed from both
    NEG_FORMS = ("(this->negate_ ? !var:%s : var:%s)" % (FL, FL), "(var:%s != this->negate_)" % FL, "(this->negate_ != var:%s)" % FL, "(var:%s ^ this->negate_)" % FL, "(this->negate_ ^ var:%s)" % FL)
    flips = [w for w in after if ex.text(write_rhs(ex, w)) == "!" + FL]
    other = [w for w in after if w not in flips]
    t = sorted(ex.text(write_rhs(ex, w)) for w in ws)
    decided_by = set()
    for r, leaf in return_leaves(ex):
        c = ret_const_of(ex, leaf)
        g = fx.guards(leaf)
        ge = expanded_guards(P, ex, fx, leaf, Xe)
        pol = True if c == "CONTINUE" else (False if c == "STOP" else None)
        via_flag = pol is not None and (FL, pol) in g
        via_value = pol is not None and any(k in NEG_FORMS and p is pol for k, p in ge)
        if via_flag:
            decided_by.add("flag")
        if via_value:
            decided_by.add("value")
        ctx.check(via_flag or via_value, "exists:return-table:" + str(c), "return_table", ex.loc(r), "CONTINUE iff (exists xor negate)",
                  "%s under %s" % (c, sorted(g, key=str)))
    okf = not other and ((decided_by == {"flag"} and len(flips) == 1 and ("this->negate_", True) in fx.guards(flips[0]) and
                          [(k, p) for k, p in fx.guards(flips[0]) if not is_loop_control_fact(k) and k != "this->negate_"] == []) or
                         (decided_by == {"value"} and not flips))
    ctx.check(okf, "exists:flag-writes", "value-shape", ex.loc(), "the outcome is the match flag, negated exactly when 'negate' is configured", "match flag written with %s; returns decided by %s" % (t, sorted(decided_by)))
    for w in flips:
        ctx.check(("this->negate_", True) in fx.guards(w), "exists:negate", "guarded_by", ex.loc(w), "negated only with 'negate'", "negated under %s" % sorted(fx.guards(w), key=str))
    # ------------------------------------------------ nr_dying_descendants
    nd = ctx.fn1("Oomd::NrDyingDescendants::run")
    fn_ = Flow(P, nd, cg=cg)
    for r, leaf, c in result_sites(nd):
        g = fn_.guards(leaf)
        if c == "CONTINUE":
            comp = [k for k, p in g if p is True and "lte_" in k and "count_" in k]
            V = r"(\*\w+|\w+\.value\(\)|\w+)"
            forms = (r"^\(\(this->lte_ && \(%s <= this->count_\)\) \|\| \(!this->lte_ && \(%s > this->count_\)\)\)$" % (V, V),
                     r"^\(this->lte_ \? \(%s <= this->count_\) : \(%s > this->count_\)\)$" % (V, V))
            ok_cmp = len(comp) == 1 and any(re.match(fm_, comp[0]) for fm_ in forms)
            ctx.check(ok_cmp, "nr_dying_descendants:comparison", "return_table", nd.loc(r), "CONTINUE iff (lte ? nr <= count : nr > count) for some cgroup", "CONTINUE under %s" % comp)
            # a cgroup whose statistic is unavailable is no match: the compared value is an optional that was tested, not a default
            avail = any(p is True and (k.endswith("nr_dying_descendants(nullptr)") or re.match(r"^\w+(\.has_value\(\))?$", k)) for k, p in g if "lte_" not in k)
            defaulted = any("value_or(" in nd.text(x) for x in range(len(nd.nodes)) if nd.nodes[x]["k"] == "call" and nd.nodes[x].get("cname") == "value_or")
            ctx.check(avail and not defaulted, "nr_dying_descendants:unavailable-is-no-match", "guarded_by", nd.loc(r),
                      "the count is compared only where it could be read",
                      "the count is compared although it may be unavailable (a default stands in for it): with lte a cgroup whose cgroup.stat cannot be read "
                      "counts as 0 dying descendants and matches")
        else:
            ctx.check(c == "STOP", "nr_dying_descendants:otherwise-STOP", "return_table", nd.loc(r), "otherwise STOP", "returns " + str(c))
    # ------------------------------------------------ watched value of memory_above: the largest usage
    fma = Flow(P, ma, cg=cg)
    Xm = Expander(P, ma)
    n_w = 0
    for w in local_writes(ma, MA_W):
        n_w += 1
        g = fma.guards(w)
        U = ma.text(write_rhs(ma, w))
        ctx.check(("(%s < %s)" % (MA_W, U), True) in g, "memory_above:largest-usage", "guarded_by", ma.loc(w), "the watched value is the largest usage among the cgroups",
                  "%s written with %s under %s" % (MA_W, U, sorted(g, key=str)))
        # what U holds: anon usage with is_anon_, total usage without
        srcs = []
        if re.match(r"^\w+$", U):
            init, v = local_init(ma, U, must=False)
            if v is not None and init is not None and init >= 0:
                srcs += [(ma.text(x), fma.guards(x)) for x in value_leaves(ma, init)]
            srcs += [(ma.text(x), fma.guards(x)) for w2 in local_writes(ma, U, must=False) for x in value_leaves(ma, write_rhs(ma, w2))]
        else:
            srcs = [(ma.text(x), fma.guards(x)) for x in value_leaves(ma, write_rhs(ma, w))]
        oku = bool(srcs)
        for t_, g_ in srcs:
            if re.search(r"\.anon_usage\(nullptr\)\.value_or\(0\)$", t_):
                oku = oku and ("this->is_anon_", True) in g_
            elif re.search(r"\.current_usage\(nullptr\)\.value_or\(0\)$", t_):
                oku = oku and ("this->is_anon_", False) in g_
            else:
                oku = False
        ctx.check(oku, "memory_above:usage-source", "value-shape", ma.loc(w), "usage is anon or total usage as configured", "usage comes from " + str([t_ for t_, _ in srcs]))
    ctx.check(n_w >= 1, "memory_above:watched-value-written", "anchor", ma.loc(), "the watched value is computed in run()", "the watched value is never written")
    ctx.floor("window_writes", 6, "writes of hit_thres_at_ in the three windowed detectors")
