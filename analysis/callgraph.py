"""Whole-library call graph over the merged facts.

Edges: direct calls and constructions (resolved callee USR), virtual calls (to
every overrider in the library), implicit/temporary destructor elements,
callable objects (closures, std::function values) resolved by a def-use walk
through locals, parameters, captures and fields.  A callable invocation that
cannot be resolved is recorded as an analysis gap, never ignored.
"""
from .program import plain

# Callees that take a callable and run it synchronously on the calling thread
# (any std:: algorithm); callables handed to these start another root instead.
THREAD_SINKS = ("std::thread::thread", "std::thread::thread<")
SIGNAL_SINKS = ("std::signal", "signal")

# std::function fields whose invocation is bound elsewhere, with the reason
BOUND_ELSEWHERE = {
    "Oomd::ScopeGuard::fn_":
        "bound at the owning scope's exit (destructor element of the guard variable)",
}


class Edge:
    __slots__ = ("src", "dst", "node", "kind")

    def __init__(self, src, dst, node, kind):
        self.src, self.dst, self.node, self.kind = src, dst, node, kind


class CallGraph:
    def __init__(self, prog):
        self.prog = prog
        self.out = {}       # usr -> [Edge]
        self.inn = {}       # usr -> [Edge]
        self.gaps = []      # (fn, node, reason)
        self.thread_roots = []   # (target usr, creating fn, node)
        self.signal_roots = []
        self._callsites_of = None
        self._build()

    # ------------------------------------------------------------ build
    def _add(self, src, dst, node, kind):
        for d in self.prog.resolve(dst):
            e = Edge(src, d, node, kind)
            self.out.setdefault(src, []).append(e)
            self.inn.setdefault(d, []).append(e)

    def _build(self):
        P = self.prog
        # pass 1: direct, virtual, dtor edges
        for f in P.fns.values():
            for i, n in enumerate(f.nodes):
                k = n["k"]
                if k not in ("call", "construct"):
                    continue
                cu = n.get("cusr")
                if cu:
                    self._add(f.usr, cu, i, "direct")
                    if n.get("virt"):
                        for o in P.overriders.get(cu, ()):
                            self._add(f.usr, o, i, "virtual")
            for b in f.cfg:
                for idx, e in enumerate(b["elems"]):
                    if "dtor" in e and e.get("dusr"):
                        self._add(f.usr, e["dusr"], ("dtor", b["id"], idx), "dtor")
                        # virtual destructors
                        for o in P.overriders.get(e["dusr"], ()):
                            self._add(f.usr, o, ("dtor", b["id"], idx), "virtual")
        # pass 2: callable objects
        for f in list(P.fns.values()):
            for i, n in enumerate(f.nodes):
                k = n["k"]
                if k not in ("call", "construct"):
                    continue
                callee = n.get("callee", "")
                pc = plain(callee)
                # (a) invocation of a callable value
                if k == "call" and (pc.endswith("function::operator()") and pc.startswith("std::")):
                    self._invoke(f, i, n.get("recv", -1))
                    continue
                if k == "call" and not n.get("cusr"):
                    self._invoke(f, i, n.get("fnexpr", -1))
                    continue
                # (b) callable passed to an external (non-library) callee
                if P.resolve(n.get("cusr", "")):
                    continue   # library callee: its body invokes the parameter itself
                if k == "construct" and ("(lambda at" in n.get("type", "") or
                                         "(anonymous class)" in callee):
                    continue   # copy of a closure object: a value, not a call
                args = list(n.get("args", []))
                is_thread = pc == "std::thread::thread" or callee.startswith("std::thread::thread")
                for ai, a in enumerate(args):
                    if is_thread and ai > 0:
                        break      # further arguments are values handed to the entry
                    if not self._is_callable_expr(f, a):
                        continue
                    targets, gap = self.resolve_callable(f, a)
                    if pc.startswith("std::function"):
                        continue   # conversion to std::function: a value, not a call
                    if pc in ("std::thread::thread",) or callee.startswith("std::thread::thread"):
                        for t in targets:
                            for r in P.resolve(t):
                                self.thread_roots.append((r, f, i))
                        if gap or not targets:
                            self.gaps.append((f, i, "thread entry not resolved: %s" % gap))
                        continue
                    if pc in SIGNAL_SINKS:
                        for t in targets:
                            for r in P.resolve(t):
                                self.signal_roots.append((r, f, i))
                        continue
                    if pc.startswith("std::") or pc.startswith("__gnu_cxx::"):
                        if pc.startswith(("std::make_pair", "std::pair", "std::make_tuple",
                                          "std::tuple", "std::make_optional", "std::optional",
                                          "std::move", "std::forward", "std::ref")):
                            continue  # value wrapping
                        if pc.startswith(("std::unordered_map", "std::map", "std::vector",
                                          "std::deque")):
                            continue  # stored into a container: resolved via the field walk
                        for t in targets:
                            self._add(f.usr, t, i, "inline-callable")
                        if gap:
                            self.gaps.append((f, i, "callable passed to %s: %s" % (pc, gap)))
                        continue
                    # external non-std callee taking a callable: unknown behaviour
                    self.gaps.append((f, i, "callable passed to external callee " + pc))
            # (c) scope guards: the closure runs when the guard variable dies
            for b in f.cfg:
                for idx, e in enumerate(b["elems"]):
                    if e.get("dtor") == "auto" and "ScopeGuard" in e.get("type", ""):
                        _, v = f.vardecl(e["decl"])
                        if v is None or "init" not in v:
                            self.gaps.append((f, ("dtor", b["id"], idx), "scope guard without initialiser"))
                            continue
                        lam = self._find_lambda(f, v["init"])
                        if lam is None:
                            self.gaps.append((f, ("dtor", b["id"], idx), "scope guard closure not found"))
                            continue
                        self._add(f.usr, lam, ("dtor", b["id"], idx), "scope-exit")

    def _find_lambda(self, f, i):
        for x in f.walk(i):
            if f.nodes[x]["k"] == "lambda":
                return f.nodes[x]["lusr"]
        return None

    def _is_callable_expr(self, f, a):
        if a is None or a < 0:
            return False
        a = f.strip(a)
        n = f.nodes[a]
        if n["k"] == "lambda":
            return True
        t = n.get("type", "")
        if "(lambda at" in t or t.startswith("std::function<") or "std::function<" in t[:40]:
            return True
        if n["k"] == "ref" and n.get("dk") == "func":
            return True
        if n["k"] == "un" and n["op"] == "&":
            m = f.nodes[f.strip(n["sub"])]
            if m["k"] == "ref" and m.get("dk") == "func":
                return True       # &Class::method / &function
        if n["k"] in ("construct", "cast", "other"):
            for x in f.walk(a):
                if f.nodes[x]["k"] == "lambda":
                    return True
        return False

    @property
    def callsites_of(self):
        if self._callsites_of is None:
            m = {}
            for f in self.prog.fns.values():
                for i, n in enumerate(f.nodes):
                    if n["k"] in ("call", "construct") and n.get("cusr"):
                        m.setdefault(n["cusr"], []).append((f, i))
            self._callsites_of = m
        return self._callsites_of

    def _invoke(self, f, node, expr):
        fq = None
        if expr is not None and expr >= 0:
            r = f.nodes[f.strip(expr)]
            if r["k"] == "member":
                fq = r.get("qname")
        if fq in BOUND_ELSEWHERE:
            return
        targets, gap = self.resolve_callable(f, expr)
        for t in targets:
            self._add(f.usr, t, node, "callable")
        if gap or not targets:
            self.gaps.append((f, node, "unresolved callable %s: %s" % (
                f.text(expr) if expr is not None and expr >= 0 else "?", gap or "no targets")))

    def resolve_callable(self, f, expr, depth=0, seen=None):
        """Returns (set of target usrs, gap reason or None)."""
        P = self.prog
        if seen is None:
            seen = set()
        key = (f.usr, expr)
        if expr is None or expr < 0:
            return set(), "no expression"
        if key in seen or depth > 8:
            return set(), None
        seen.add(key)
        i = f.strip(expr)
        n = f.nodes[i]
        k = n["k"]
        if k == "lambda":
            return {n["lusr"]}, None
        if k == "ref" and n["dk"] == "func":
            return {n["usr"]}, None
        if k == "un" and n["op"] == "&":
            return self.resolve_callable(f, n["sub"], depth + 1, seen)
        if k in ("construct", "cast", "other", "initlist"):
            res, gap = set(), None
            for c in f.kids(i):
                r, g = self.resolve_callable(f, c, depth + 1, seen)
                res |= r
                gap = gap or g
            return res, (None if res else (gap or "no callable inside %s" % f.text(i)))
        if k == "call":
            # element access on a container of callables: resolve the container
            if n.get("op") in ("[]", "*", "->") or n.get("cname") in ("at", "second", "get", "value", "find", "begin", "cbegin", "front", "back", "lower_bound", "equal_range"):
                return self.resolve_callable(f, n.get("recv", -1), depth + 1, seen)
            # a library function returning a callable: follow its return values
            cu = n.get("cusr")
            if cu in P.fns:
                g = P.fns[cu]
                res, gap = set(), None
                for r in g.all("return"):
                    if "val" in g.nodes[r]:
                        rr, gg = self.resolve_callable(g, g.nodes[r]["val"], depth + 1, seen)
                        res |= rr
                        gap = gap or gg
                return res, gap
            return set(), "call result %s" % f.text(i)
        if k == "member":
            if n.get("dk") == "field":
                if n["name"] in ("second", "first"):
                    return self.resolve_callable(f, n["base"], depth + 1, seen)
                return self._resolve_field(n["qname"], depth, seen)
            return set(), "member %s" % n.get("qname")
        if k == "ref":
            dk = n["dk"]
            if dk in ("local", "binding"):
                decl = n.get("decl")
                owner = f
                # captured variable: defined in an enclosing function
                di, v = owner.vardecl(decl)
                hops = 0
                while v is None and owner.d.get("parentfn") in P.fns and hops < 4:
                    owner = P.fns[owner.d["parentfn"]]
                    di, v = owner.vardecl(decl)
                    hops += 1
                    if v is None:
                        for pi, p in enumerate(owner.params):
                            if p["decl"] == decl:
                                return self._resolve_param(owner, pi, depth, seen)
                res, gap = set(), None
                if v is not None and "init" in v:
                    r, g = self.resolve_callable(owner, v["init"], depth + 1, seen)
                    res |= r
                    gap = gap or g
                # range-for variable / structured binding over a container
                if v is not None and "init" not in v:
                    gap = "local %s has no initialiser" % n["name"]
                if v is None:
                    gap = "local %s not found" % n["name"]
                # later assignments
                for j in owner.all("bin"):
                    b = owner.nodes[j]
                    if b["op"] == "=" and owner.var_token(b["l"]) == "L:" + str(decl):
                        r, g = self.resolve_callable(owner, b["r"], depth + 1, seen)
                        res |= r
                return res, (None if res else gap)
            if dk == "param":
                if n.get("captured") and f.d.get("parentfn") in P.fns:
                    owner = P.fns[f.d["parentfn"]]
                    hops = 0
                    while hops < 4:
                        for pi, p in enumerate(owner.params):
                            if p["decl"] == n.get("decl"):
                                return self._resolve_param(owner, pi, depth, seen)
                        if owner.d.get("parentfn") not in P.fns:
                            break
                        owner = P.fns[owner.d["parentfn"]]
                        hops += 1
                    return set(), "captured parameter %s not found" % n["name"]
                return self._resolve_param(f, n["pidx"], depth, seen)
            if dk in ("global", "static_local"):
                return set(), "global %s" % n.get("qname")
        return set(), "expression form %s (%s)" % (k, f.text(i))

    def _resolve_param(self, f, pidx, depth, seen):
        P = self.prog
        res, gap = set(), None
        sites = self.callsites_of.get(f.usr, [])
        # virtual: call sites of overridden methods too
        for o in f.d.get("overrides", []):
            sites = sites + self.callsites_of.get(o, [])
        if f.kind == "lambda":
            return set(), "parameter of a closure"
        if not sites:
            return set(), "parameter %d of %s has no call sites" % (pidx, f.qname)
        for g, ci in sites:
            args = g.nodes[ci].get("args", [])
            if pidx < len(args):
                r, gg = self.resolve_callable(g, args[pidx], depth + 1, seen)
                res |= r
                gap = gap or gg
        return res, (None if res else gap)

    def _resolve_field(self, fq, depth, seen):
        """Every value stored into field fq anywhere in the library."""
        P = self.prog
        res, gap, writes = set(), None, 0
        for g in P.fns.values():
            # constructor initialisers
            for ini in g.d.get("inits", []):
                if ini["field"] == fq and ini["n"] >= 0:
                    r, gg = self.resolve_callable(g, ini["n"], depth + 1, seen)
                    res |= r
                    writes += 1
            for i, n in enumerate(g.nodes):
                if n["k"] == "bin" and n["op"] == "=":
                    l = g.nodes[g.strip(n["l"])]
                    if l["k"] == "member" and l.get("qname") == fq:
                        r, gg = self.resolve_callable(g, n["r"], depth + 1, seen)
                        res |= r
                        writes += 1
                elif n["k"] == "call" and "recv" in n:
                    root = g.nodes[g.root_ref(n["recv"])]
                    rr = g.nodes[g.strip(n["recv"])]
                    is_f = (rr["k"] == "member" and rr.get("qname") == fq)
                    if not is_f and n.get("op") == "=":
                        # map_[name] = fac
                        if rr["k"] == "call" and rr.get("op") == "[]":
                            r2 = g.nodes[g.strip(rr.get("recv", -1))]
                            is_f = r2["k"] == "member" and r2.get("qname") == fq
                    if not is_f:
                        continue
                    if n.get("op") == "=" or n.get("cname") in (
                            "emplace", "emplace_back", "push_back", "insert", "try_emplace",
                            "emplace_front", "push_front", "insert_or_assign"):
                        for a in n.get("args", []):
                            if self._is_callable_expr(g, a) or g.nodes[g.strip(a)]["k"] == "ref":
                                r, gg = self.resolve_callable(g, a, depth + 1, seen)
                                res |= r
                        writes += 1
        if not writes:
            gap = "field %s is never written" % fq
        return res, (None if res else gap)

    # ------------------------------------------------------------ queries
    def reach(self, roots, stop=None, kinds=None):
        """Transitive closure of callee usrs from roots (usrs)."""
        seen = set()
        stack = list(roots)
        while stack:
            u = stack.pop()
            if u in seen:
                continue
            seen.add(u)
            if stop and stop(u):
                continue
            for e in self.out.get(u, ()):
                if kinds and e.kind not in kinds:
                    continue
                if e.dst not in seen:
                    stack.append(e.dst)
        return seen

    def callers(self, usr):
        return self.inn.get(usr, [])

    def path(self, src, dst):
        """One call chain src -> dst as a list of Edges (BFS), or None."""
        from collections import deque
        prev = {src: None}
        dq = deque([src])
        while dq:
            u = dq.popleft()
            if u == dst:
                break
            for e in self.out.get(u, ()):
                if e.dst not in prev:
                    prev[e.dst] = e
                    dq.append(e.dst)
        if dst not in prev:
            return None
        out = []
        u = dst
        while prev[u] is not None:
            out.append(prev[u])
            u = prev[u].src
        return list(reversed(out))

    def writes_summary(self):
        """usr -> set of F:/G: tokens written by the function or its callees."""
        if hasattr(self, "_ws"):
            return self._ws
        P = self.prog
        direct = {}
        for f in P.fns.values():
            w = set()
            for i, n in enumerate(f.nodes):
                for t in node_writes(f, i):
                    if t[0] in "FG":
                        w.add(t)
            for ini in f.d.get("inits", []):
                w.add("F:" + ini["field"])
            direct[f.usr] = w
        ws = {u: set(w) for u, w in direct.items()}
        changed = True
        while changed:
            changed = False
            for u in ws:
                for e in self.out.get(u, ()):
                    add = ws.get(e.dst, set()) - ws[u]
                    if add:
                        ws[u] |= add
                        changed = True
        self._ws = ws
        return ws


_ASSIGN_OPS = {"=", "+=", "-=", "*=", "/=", "%=", "&=", "|=", "^=", "<<=", ">>="}
# non-const overloads that only hand out access (mutation shows at the use)
_ACCESSORS = {"operator*", "operator->", "value", "get", "begin", "end", "cbegin", "cend",
              "rbegin", "rend", "front", "back", "at", "find", "data", "c_str", "size",
              "empty", "count", "contains", "has_value", "operator bool", "native_handle",
              "lower_bound", "upper_bound", "equal_range", "str", "what", "error"}


def node_writes(f, i):
    """Variable tokens (L:/F:/G:) that node i writes directly."""
    n = f.nodes[i]
    k = n["k"]
    out = []

    def chain(e):
        # tokens for e and for every enclosing object on its access path
        steps = 0
        while e is not None and e >= 0 and steps < 20:
            steps += 1
            e = f.strip(e)
            t = f.var_token(e)
            if t:
                out.append(t)
            m = f.nodes[e]
            if m["k"] == "member":
                e = m["base"]
            elif m["k"] == "call" and "recv" in m and (
                    m.get("op") in ("*", "->", "[]") or m.get("cname") in (
                        "get", "value", "at", "front", "back")):
                rt = m.get("rtype", "")
                if m.get("op") in ("*", "->") or m.get("cname") == "get":
                    # iterators and smart pointers: the pointee is another object;
                    # std::optional owns its value
                    if not rt.startswith(("std::optional<", "const std::optional<")) and "optional" not in rt[:24]:
                        break
                e = m["recv"]
            elif m["k"] == "un" and m["op"] == "*":
                break       # raw pointer dereference: the pointee, not the pointer
            elif m["k"] == "subscript":
                e = m["base"]
            else:
                break

    if k == "bin" and n["op"] in _ASSIGN_OPS:
        chain(n["l"])
    elif k == "un" and n["op"] in ("++", "--"):
        chain(n["sub"])
    elif k == "call":
        if "recv" in n and not n.get("cconst") and not n.get("cstatic"):
            nm = n.get("cname", "")
            rt = n.get("rtype", "")
            accessor = nm in _ACCESSORS or (
                nm == "operator[]" and rt.startswith(("std::vector<", "std::basic_string<",
                                                      "std::string", "std::deque<", "std::array<")))
            rn = f.nodes[f.strip(n["recv"])]
            # a call through a raw pointer mutates the pointee, not the pointer
            if not accessor and rn.get("tw") != "p":
                chain(n["recv"])
        for idx in n.get("refparams", []):
            args = n.get("args", [])
            # operator calls keep the receiver out of args when it is a member
            if idx < len(args):
                chain(args[idx])
        for a in n.get("args", []):
            m = f.nodes[f.strip(a)]
            if m["k"] == "un" and m["op"] == "&":
                chain(m["sub"])
    elif k == "construct":
        for idx in n.get("refparams", []):
            args = n.get("args", [])
            if idx < len(args):
                chain(args[idx])
    elif k == "decl":
        for v in n.get("vars", []):
            out.append("L:" + v["decl"])
            for b in v.get("bindings", []):
                out.append("L:" + b)
    return out
